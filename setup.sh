#!/bin/sh
# builds the overlay interpreter: CPython 3.12 of /venv (has pydcop + deps) + z3/cvc5/jsonschema wheels, offline
set -e
HERE="$(cd "$(dirname "$0")" && pwd)"
if [ ! -x "$HERE/.venv/bin/python" ] || ! "$HERE/.venv/bin/python" -c "import z3, jsonschema, pydcop" 2>/dev/null; then
  rm -rf "$HERE/.venv"
  /venv/bin/python -m venv "$HERE/.venv"
  "$HERE/.venv/bin/pip" install -q --no-index --find-links /opt/veriftools/wheels z3-solver cvc5 jsonschema
  echo "import site; site.addsitedir('/venv/lib/python3.12/site-packages')" > "$HERE/.venv/lib/python3.12/site-packages/_repo_overlay.pth"
fi
"$HERE/.venv/bin/python" -c "import z3, jsonschema, pydcop; print('pvc env ok', z3.get_version_string())"
