#!/usr/bin/env python3
import json, sys
pids = sys.argv[1].split(","); fname = sys.argv[2]; extra = sys.argv[3] if len(sys.argv) > 3 else ""
props = [json.loads(l) for l in open("/verif/properties.jsonl")]
sel = [p for p in props if p["id"] in pids]
print(f"""You are a verification engineer joining an ongoing effort in /verif: contract-based verification of the Python library pyDCOP (source in /repo, importable as `pydcop`; interpreter /verif/.venv/bin/python). The framework ("pvc") is already built. Your job: write the contract file /verif/contracts/{fname} covering the properties below, make `./check <id>` pass on the unchanged /repo (exit 0) or identify genuine defects, and show the check detects deliberately broken code.

FIRST read /verif/AUTHORING.md (API + rules), then /verif/contracts/c_relations.py and /verif/contracts/fx.py (examples, helpers), and /verif/pvc/explore.py (Env API). For message-passing code also /verif/contracts/net.py and c_mgm.py. Then read the anchored pyDCOP source carefully before writing any postcondition.

Properties to cover (given, fixed; take each postcondition from the *statement*):
""")
for p in sel:
    print(json.dumps({k: p[k] for k in ("id","title","statement","quantifier","why_tests_cant","anchors")}, indent=1))
    print()
print(f"""{extra}

Deliverables and rules:
- One file /verif/contracts/{fname} (helpers inside it). Do NOT edit /repo, /verif/pvc/*, /verif/contracts/fx.py, net.py, other contract files, MANIFEST.json, levels.json, known_findings.json. Do not run git commit in /verif or /repo.
- Quick tier of each property <= ~60 s wall; thorough may be 10x bigger. Every obligation label readable ("area.what-must-hold").
- If an obligation fails on the unchanged tree: replay it by hand with a tiny native script; if it is a genuine defect of pyDCOP, keep the obligation as it is, and REPORT the defect (file, function, minimal repro script, what fails, and the smallest patch you would propose) - the lead decides on the repair. If your contract demanded more than the statement, fix the contract. Obligations failing because of a genuine defect may stay red when you hand in; list them.
- Mutation self-test (rule 5 of AUTHORING.md): at least 4 wrong edits per property in a scratch worktree /tmp/wt_{fname.replace('.py','')} via PVC_REPO; report edit -> detected? Strengthen the contract for the ones missed if the property covers them. Remove the worktree at the end (git -C /repo worktree remove --force ...).
- Always run commands with a timeout. Other engineers run checks concurrently on this 16-core machine: do not start more than one ./check at a time.
- Final reply: (1) contracts written (ids, functions under contract, shapes, path counts, quick wall time), (2) result of ./check for each property on the unchanged tree, (3) suspected genuine defects with repro, (4) mutation table, (5) what of the property's quantifier is NOT covered.""")
