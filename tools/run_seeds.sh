#!/bin/sh
# run_seeds.sh [ids...] : apply each seeded change to a scratch worktree of /repo HEAD and run the property's quick check on it
cd "$(dirname "$0")/.."
IDS=${*:-$(ls seeded)}
for id in $IDS; do
  P=$(python3 -c "import json;print(json.load(open('seeded/$id/meta.json'))['property'])")
  WT=${TMPDIR:-/tmp}/wt_seed_$id
  git -C /repo worktree remove --force $WT >/dev/null 2>&1
  git -C /repo worktree add -q --detach $WT HEAD || { echo "$id worktree failed"; continue; }
  if ! (cd $WT && git apply --3way ../../verif/seeded/$id/patch.diff >/dev/null 2>&1 || git apply /verif/seeded/$id/patch.diff >/dev/null 2>&1); then
    echo "$id $P PATCH-DOES-NOT-APPLY"; git -C /repo worktree remove --force $WT; continue
  fi
  out=$(PVC_REPO=$WT ./check $P 2>&1); rc=$?
  n=$(echo "$out" | grep -c "^VIOLATION property=$P")
  echo "$id $P rc=$rc violations=$n $(echo "$out" | grep 'failed obligation' | head -2 | tr '\n' ';' | cut -c1-200)"
  git -C /repo worktree remove --force $WT
done
