#!/usr/bin/env python3
"""prints the prompt given to an independent sub-agent that seeds a property-breaking change"""
import json, sys
pid, wt = sys.argv[1], sys.argv[2]
variant = sys.argv[3] if len(sys.argv) > 3 else ""
p = next(json.loads(l) for l in open("/verif/properties.jsonl") if json.loads(l)["id"] == pid)
print(f"""You are helping to evaluate a verification effort on pyDCOP (a Python library of distributed constraint optimization algorithms). You have your own scratch git worktree of the repository at {wt} (a detached checkout). Work ONLY inside {wt}; never touch /repo or /verif and do not read anything under /verif.

Here is a semantic property the library is supposed to satisfy:

  id: {p['id']}
  title: {p['title']}
  statement: {p['statement']}
  quantified over: {p['quantifier']['text']}
  code it is anchored in: {', '.join(p['anchors']['files'])}
  mechanisms: {'; '.join((m.get('name','') + ' @ ' + m.get('where','')) for m in p['anchors']['mechanism'])}

Your task: make ONE small, realistic change to the library source (under {wt}/pydcop/) that BREAKS this property while (a) the code still imports/compiles and (b) the existing test suite still passes exactly as before. The change should look like a plausible programming slip or an over-eager "optimisation"/refactoring a developer could make, NOT sabotage that ordinary use would expose at once: it should need something specific to manifest - an unusual input (tie, huge or infinite cost, empty or one-element case, particular variable order), a particular message interleaving, a multi-step sequence of operations, or two cooperating sites that each look fine alone. {variant}

Then write a demonstration: a small standalone python program {wt}/demo_{pid}.py (or a pytest file) that exercises the REAL library code, FAILS (non-zero exit / assertion error) with your change applied, and PASSES on the original code. It must be deterministic and finish in well under a minute.

Practical notes:
- Python is /venv/bin/python (3.12). The library is installed in editable mode pointing at /repo, so to use YOUR worktree's code run everything from inside {wt} as `cd {wt} && /venv/bin/python demo_{pid}.py` / `cd {wt} && /venv/bin/python -m pytest ...` and check that `pydcop.__file__` starts with {wt}.
- The reference test command is: cd {wt} && /venv/bin/python -m pytest -q -p no:cacheprovider --timeout=900 --continue-on-collection-errors tests/unit tests/api 2>&1 | tail -5   (the full suite is `... pytest -q -p no:cacheprovider --timeout=900 --continue-on-collection-errors`, ~1 minute; many tests already fail on the ORIGINAL code for environment reasons - what matters is that the set of passing tests is the same before and after your change; compare the lists of passed tests with `-rA` or the summary counts plus failing names).
- No network. Do not install anything. Do not modify tests.
- Do not commit. Leave your change as an uncommitted modification in {wt}; produce the patch with `cd {wt} && git diff -- pydcop > {wt}/patch_{pid}.diff`.

When done, reply with: (1) the path of the patch file and of the demo, (2) a 3-5 line description of the change and exactly what is needed for it to manifest, (3) the commands you ran and their outcome (demo fails with change / passes without - verify the latter with `git diff -- pydcop > p.diff; git apply -R p.diff; <run demo>; git apply p.diff` - do NOT use `git stash`: the stash is shared with other people's worktrees of the same repository; test-suite pass set unchanged). If you cannot find a change meeting all the conditions, say so plainly rather than handing in something that violates them.""")
