#!/usr/bin/env python3
"""record_fixed.py <property> <commit-ish> ... : append 'fixed:' entries to known_findings.json from /repo commit subjects"""
import json, subprocess, sys
k = json.load(open("/verif/known_findings.json"))
pid = sys.argv[1]
for c in sys.argv[2:]:
    out = subprocess.run(["git", "-C", "/repo", "log", "-1", "--format=%h %s", c], capture_output=True, text=True).stdout.strip()
    h, _, msg = out.partition(" ")
    e = "fixed: property=%s %s %s" % (pid, h, msg[5:] if msg.startswith("fix: ") else msg)
    if not any(h in x for x in k["fixed"]):
        k["fixed"].append(e); print(e)
json.dump(k, open("/verif/known_findings.json", "w"), indent=1)
