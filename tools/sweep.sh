#!/bin/sh
# sweep.sh [tier] [seeds...] : run every claimed check for several seeds; print the ones that do not exit 0
cd "$(dirname "$0")/.."
TIER=${1:-quick}; shift
SEEDS=${*:-"0 1 2 3"}
[ -x .venv/bin/python ] || sh setup.sh >/dev/null
PROPS=$(python3 -c "import json;print(' '.join(c['property_id'] for c in json.load(open('MANIFEST.json'))['checks']))")
for s in $SEEDS; do for p in $PROPS; do
  out=$(VERIF_SEED=$s ./check $p --tier $TIER 2>&1); rc=$?
  echo "seed=$s $p rc=$rc $(echo "$out" | tail -1 | cut -c1-160)"
  if [ $rc -ne 0 ]; then echo "$out" | grep "VIOLATION\|failed obl\|UNDECIDED\|CHECKER" | head -8; fi
done; done
