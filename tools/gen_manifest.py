#!/usr/bin/env python3
"""MANIFEST.json is generated from levels.json (claimed checks) + na.json (not applicable)."""
import json, os
ROOT = os.path.dirname(os.path.dirname(os.path.abspath(__file__)))
levels = json.load(open(os.path.join(ROOT, "levels.json")))
na = json.load(open(os.path.join(ROOT, "na.json")))
props = [json.loads(l)["id"] for l in open(os.path.join(ROOT, "properties.jsonl"))]
checks = []
for pid in props:
    if pid not in levels:
        continue
    lv = levels[pid]
    checks.append(dict(
        property_id=pid,
        quick_cmd="./check %s --tier quick" % pid,
        thorough_cmd="./check %s --tier thorough" % pid,
        evidence_file="/verif/evidence/%s.json" % pid,
        replay_cmd_template="./check replay {path}",
        engine="pvc",
        level_claimed=dict(category=lv["level"], text=lv["text"], design_ref=lv.get("design_ref", "DESIGN.md section 5")),
        level_note=lv["note"],
        technique=lv["technique"],
    ))
not_app = [dict(property_id=p, reason=na[p]) for p in props if p not in levels]
missing = [p for p in props if p not in levels and p not in na]
assert not missing, missing
man = dict(
    version=1,
    setup_cmd="sh /verif/setup.sh",
    hooks=dict(guard="PYDCOP_VERIF", enable="none: no hook in /repo; contracts are sidecar files under /verif/contracts, instrumentation is attribute rebinding inside the check's own subprocesses",
               baseline_off_cmd="python3 /verif/tools/baseline_check.py", source_commits=[], add_only=True),
    engines=[dict(name="pvc", path="/verif/pvc", serves_properties=[c["property_id"] for c in checks],
                  kind_free_text="contract checker: sidecar pre/postconditions on the real pyDcop functions, executed by CPython on symbolic proxies (z3 terms), all paths enumerated, every obligation discharged by z3 (cvc5 second opinion); U-mode = loop-cut unbounded VCs, B-mode = bounded-shape symbolic, E-mode = enumerated; counter-models replayed natively")],
    checks=checks,
    notes="Technique family: contract-based deductive verification of the real code. See DESIGN.md. Exit codes: 0 held, 1 violation (VIOLATION line), 2 undecided, 3 checker error.",
    not_applicable=not_app,
)
json.dump(man, open(os.path.join(ROOT, "MANIFEST.json"), "w"), indent=1)
try:
    import jsonschema
    jsonschema.validate(man, json.load(open("/root/.vp/MANIFEST.schema.json")))
    print("MANIFEST ok: %d checks, %d n/a" % (len(checks), len(not_app)))
except ImportError:
    print("written (jsonschema not available to validate)")
