#!/usr/bin/env python3
"""Run the repository's pinned test command (guard off) and compare with BASELINE.json's stable_pass list."""
import json, os, subprocess, sys, tempfile, xml.etree.ElementTree as ET
base = json.load(open("/root/.vp/BASELINE.json"))
out = tempfile.mktemp(suffix=".junit.xml", dir=os.environ.get("TMPDIR", "/tmp"))
env = dict(os.environ); env.pop("PYDCOP_VERIF", None)
cmd = base["cmd"].replace("<file>", out)
if len(sys.argv) > 1:
    cmd = cmd.replace("cd /repo", "cd " + sys.argv[1])
try:
    p = subprocess.run("exec timeout -k 10 420 sh -c " + __import__("shlex").quote(cmd), shell=True, capture_output=True, text=True, env=env)
except Exception as e:  # noqa
    print("baseline run failed:", e); sys.exit(2)
passed = set()
for tc in ET.parse(out).getroot().iter("testcase"):
    if not list(tc):  # no failure/error/skipped child
        passed.add("%s::%s" % (tc.get("classname"), tc.get("name")))
os.unlink(out)
missing = [t for t in base["stable_pass"] if t not in passed]
print("stable_pass=%d passed_now=%d missing=%d" % (len(base["stable_pass"]), len(passed), len(missing)))
for m in missing[:40]:
    print("  NOT PASSING:", m)
print((p.stdout.strip().splitlines() or ['(no pytest summary: killed at exit hang?)'])[-1])
sys.exit(1 if missing else 0)
