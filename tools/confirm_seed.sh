#!/bin/sh
# confirm_seed.sh <PROP> <worktree> <seed-id> "<needs>"  : confirm a seeded change and store it under /verif/seeded/<seed-id>/
P=$1; WT=$2; ID=$3; NEEDS=$4
D=/verif/seeded/$ID; mkdir -p $D
cd $WT || exit 2
git diff -- pydcop > $D/patch.diff
DEMO=$(ls demo*_$P*.py demo_$P*.py test_demo_$P*.py 2>/dev/null | head -1)
cp $DEMO $D/ 2>/dev/null
run_demo() { case "$DEMO" in test_*) /venv/bin/python -m pytest -q -p no:cacheprovider $DEMO >/dev/null 2>&1;; *) /venv/bin/python $DEMO >/dev/null 2>&1;; esac; echo $?; }
WITH=$(run_demo)
git apply -R $D/patch.diff; WITHOUT=$(run_demo); git apply $D/patch.diff
TESTS=$(python3 /verif/tools/baseline_check.py $WT | head -1)
CHK=$(cd /verif && PVC_REPO=$WT ./check $P 2>&1 | grep -c "^VIOLATION property=$P")
CHKLINE=$(cd /verif && PVC_REPO=$WT ./check $P 2>&1 | grep "failed obligation" | head -3 | tr '\n' ';')
cat > $D/meta.json <<EOM
{"id": "$ID", "property": "$P", "needs": "$NEEDS",
 "demo": "$DEMO", "demo_exit_with_change": $WITH, "demo_exit_without_change": $WITHOUT,
 "test_suite": "$TESTS", "base_commit": "$(git rev-parse --short HEAD)",
 "ran": ["demo with/without change (git apply -R / git apply of the patch)", "python3 /verif/tools/baseline_check.py <worktree>", "PVC_REPO=<worktree> ./check $P"],
 "detected_by_quick_check": $( [ "$CHK" -gt 0 ] && echo true || echo false ), "failed_obligations": "$CHKLINE"}
EOM
cat $D/meta.json
