"""U-mode contracts: unbounded verification conditions on the CURRENT source of real
functions (pvc.vcgen): loop invariants from this sidecar, every obligation discharged
for all sequence lengths and all (extended-real) values.  DESIGN.md 2.6.

A U-mode obligation that is not discharged is NOT a violation by itself: the verdict of
the property then rests on the bounded (B/E-mode) contracts of the same functions; it is
reported as a violation only if it was discharged on the unchanged tree
(baseline_obligations.json) and is now refuted, with the words no-failing-input-found."""
import z3

from pvc.contract import Contract
from pvc import vcgen as V
from pvc.vcgen import XR, Lst, SetLst, Obj, Fn, LoopSpec, ValSort, ValSeq, NONE, MapV, Tup
from pvc.sym import Unsupported

J = z3.Int("j")
X = z3.Const("x", ValSort)


def _xr_fun(name):
    k = z3.Function(name + "_k", ValSort, z3.IntSort())
    v = z3.Function(name + "_v", ValSort, z3.RealSort())
    return (lambda a: XR(k(a), v(a))), z3.ForAll([X], z3.And(k(X) >= -1, k(X) <= 1))


def _better(mode):
    return (lambda a, b: a.lt(b)) if mode == "min" else (lambda a, b: b.lt(a))


def _argopt_inv(mode, dom, cost, best, vv, i):
    better = _better(mode)
    sentinel = XR.const(float("inf") if mode == "min" else -float("inf"))
    return z3.And(
        i <= z3.Length(dom),
        z3.ForAll([J], z3.Implies(z3.And(0 <= J, J < i), z3.Not(better(cost(dom[J]), best)))),
        z3.Or(best.eq(sentinel), z3.Exists([J], z3.And(0 <= J, J < i, cost(dom[J]).eq(best)))),
        z3.Not(better(sentinel, best)),
        z3.ForAll([J], z3.Implies(z3.And(0 <= J, J < i), vv.has(dom[J]) == cost(dom[J]).eq(best))),
        z3.ForAll([X], z3.Implies(vv.has(X), z3.Exists([J], z3.And(0 <= J, J < i, dom[J] == X)))),
    )


def _argopt_post(mode, dom, cost, best, vv):
    better = _better(mode)
    n = z3.Length(dom)
    return z3.Implies(n > 0, z3.And(
        z3.ForAll([J], z3.Implies(z3.And(0 <= J, J < n), z3.Not(better(cost(dom[J]), best)))),      # best is optimal
        z3.Exists([J], z3.And(0 <= J, J < n, cost(dom[J]).eq(best))),                                  # and attained
        z3.ForAll([J], z3.Implies(z3.And(0 <= J, J < n), vv.has(dom[J]) == cost(dom[J]).eq(best))),  # values == the argopt set
        z3.ForAll([X], z3.Implies(vv.has(X), z3.Exists([J], z3.And(0 <= J, J < n, dom[J] == X))))))


# ------------------------------------------------------------------ find_arg_optimal

def spec_find_arg_optimal(mode):
    dom = z3.Const("dom", ValSeq)
    cost, wf = _xr_fun("cost")

    def env(it):
        return {"variable": Obj("variable", {"domain": Lst(dom)}), "relation": Fn("relation", lambda it, st, a, k: cost(a[0])), "mode": mode}

    def inv(it, st, i):
        return _argopt_inv(mode, dom, cost, it.num(st.env["best_rel_val"]), st.env["var_val"], i)

    def ensures(it, st, val):
        vals, best = val.items
        return _argopt_post(mode, dom, cost, it.num(best), vals)
    return dict(env=env, requires=lambda it, st: [wf], ensures=ensures, list_abstraction="set",
                loops={1: LoopSpec({"best_rel_val": "xr", "var_val": "set"}, inv)}, loop_locals={1: ["current_rel_val"]})


# ------------------------------------------------------------------ find_optimal

def spec_find_optimal(mode, has_cost=True):
    dom = z3.Const("dom", ValSeq)
    ac, wf1 = _xr_fun("constraints_cost")      # assignment_cost(assignment[x := v], constraints): callee under its own contract
    own, wf2 = _xr_fun("own_cost")

    def total(v):
        return ac(v).add(own(v)) if has_cost else ac(v)

    def env(it):
        variable = Obj("variable", {"domain": Lst(dom), "name": "x", "cost_for_val": Fn("cost_for_val", lambda it, st, a, k: own(a[0]))},
                       has={"domain", "name", "cost_for_val"} if has_cost else {"domain", "name"})
        return {"variable": variable, "assignment": Obj("assignment", {}), "constraints": Obj("constraints", {}), "mode": mode}

    def store(it, st, base, idx, value):
        if not (isinstance(base, Obj) and base.name == "assignment" and idx == "x"):
            raise Unsupported("store outside assignment[variable.name]")
        st.ghosts["x_value"] = value

    def assignment_cost(it, st, a, k):
        if not (isinstance(a[0], Obj) and a[0].name == "assignment" and "x_value" in st.ghosts):
            raise Unsupported("assignment_cost on something else than the assignment")
        return ac(st.ghosts["x_value"])

    def inv(it, st, i):
        return _argopt_inv(mode, dom, total, it.num(st.env["best_cost"]), st.env["arg_best"], i)

    def ensures(it, st, val):
        vals, best = val.items
        return _argopt_post(mode, dom, total, it.num(best), vals)
    return dict(env=env, globals={"assignment_cost": Fn("assignment_cost", assignment_cost)}, store=store,
                requires=lambda it, st: [wf1, wf2, z3.ForAll([X], ac(X).defined_sum(own(X)))],
                ensures=ensures, list_abstraction="set",
                loops={1: LoopSpec({"best_cost": "xr", "arg_best": "set", ("ghost"): ("ghost", "x_value", "val")}, inv)},
                loop_locals={1: ["cost"]})


# ------------------------------------------------------------------ syncbb.get_value_candidates

def spec_value_candidates(current_is_none):
    dom = z3.Const("dom", ValSeq)
    cur = z3.Const("current", ValSort)
    n = z3.Length(dom)
    K = z3.Int("k")

    def env(it):
        return {"variable": Obj("variable", {"domain": Lst(dom)}), "current_value": NONE if current_is_none else cur}

    k = z3.IndexOf(dom, z3.Unit(cur), 0)   # index of the first occurrence of the current value (-1: absent)

    def inv(it, st, i):
        cands = st.env["candidates"].s
        reached = st.env["reached"]
        return z3.And(i <= n,
                      z3.Implies(z3.Not(reached), z3.And(cands == z3.Empty(ValSeq), z3.Or(k < 0, k >= i))),
                      z3.Implies(reached, z3.And(0 <= k, k < i, cands == z3.SubSeq(dom, k + 1, i - k - 1))))

    def ensures(it, st, val):
        cands = val.s
        if current_is_none:
            return cands == dom
        return z3.And(z3.Implies(k < 0, cands == z3.Empty(ValSeq)),
                      z3.Implies(k >= 0, cands == z3.SubSeq(dom, k + 1, n - k - 1)))
    return dict(env=env, ensures=ensures, loops={1: LoopSpec({"candidates": "lst", "reached": "bool"}, inv)}, loop_locals={1: []})


# ------------------------------------------------------------------ MessagePassingComputation.start / pause

def _mpc_env(paused_flag=None):
    recv0 = z3.Const("recv0", ValSeq)
    post0 = z3.Const("post0", ValSeq)
    return recv0, post0


def spec_start():
    """ghost outbox = the sequence of buffered entries handed to _msg_sender, in call order"""
    recv0 = z3.Const("recv0", ValSeq)
    name = z3.Const("self_name", ValSort)
    src = z3.Function("src", ValSort, ValSort)
    msg = z3.Function("msg", ValSort, ValSort)
    tm = z3.Function("t", ValSort, ValSort)

    def sender(it, st, a, k):
        # obligation at the call site: the call is (src(e), self.name, msg(e), 19) for the entry e popped last
        e = st.ghosts["last_popped"]
        ok = z3.And(a[0] == src(e), a[1] == name, a[2] == msg(e))
        it.prove("start.re-injection-call-is-(src,self.name,msg,19)-of-the-popped-entry", st, z3.And(ok, z3.BoolVal(a[3] == 19)))
        st.ghosts["outbox"] = Lst(z3.Concat(st.ghosts["outbox"].s, z3.Unit(e)))
        return NONE

    def unpack(it, st, value, n):
        if n != 3:
            raise Unsupported("unpack arity")
        st.ghosts["last_popped"] = value
        return [src(value), msg(value), tm(value)]

    def env(it):
        self = Obj("self", {"_running": False, "_paused_messages_recv": Lst(recv0), "_msg_sender": Fn("_msg_sender", sender),
                            "name": name, "on_start": Fn("on_start", lambda it, st, a, k: NONE),
                            "logger": Obj("logger", {"debug": Fn("debug", lambda it, st, a, k: NONE)})})
        return {"self": self}

    def inv(it, st, i):
        buf = st.env["self"].attrs["_paused_messages_recv"].s
        out = st.ghosts["outbox"].s
        return z3.Concat(out, buf) == recv0

    def init_ghosts(it, st):
        st.ghosts["outbox"] = Lst(z3.Empty(ValSeq))
        return []

    def ensures(it, st, val):
        return z3.And(st.env["self"].attrs["_paused_messages_recv"].s == z3.Empty(ValSeq),
                      st.ghosts["outbox"].s == recv0,
                      z3.BoolVal(st.env["self"].attrs["_running"] is True))
    return dict(env=env, requires=init_ghosts, ensures=ensures, unpack=unpack,
                frame={"_running", "_paused_messages_recv"},
                loops={1: LoopSpec({"pending_msg_count": "int", "buf": ("attr", "self", "_paused_messages_recv", "lst"),
                                    "out": ("ghost", "outbox", "lst"), "lp": ("ghost", "last_popped", "val")}, inv)},
                loop_locals={1: ["src", "msg", "t"]},
                decreases={1: lambda it, st: z3.Length(st.env["self"].attrs["_paused_messages_recv"].s)})


# ------------------------------------------------------------------ dcop.solution_cost

def spec_solution_cost(complete=True):
    """terms = value of each relation, then own cost of each variable; result == (#terms equal to the
    infinity value, sum of the other terms).  Precondition: the assignment is complete, every term is finite
    or equal to the infinity value."""
    rels = z3.Const("relations", ValSeq)
    vars_ = z3.Const("variables", ValSeq)
    nr, nv = z3.Length(rels), z3.Length(vars_)
    inf_x, wf_inf = XR.fresh("infinity")
    rterm, wf1 = _xr_fun("relation_value")        # r(**filter_assignment_dict(assignment, r.dimensions))
    vterm, wf2 = _xr_fun("variable_cost")         # v.cost_for_val(assignment[v.name])
    I = z3.Int("i")
    # spec functions: running count / sum over the first i relations (then variables), defined by recursion
    hard_r = z3.Function("hard_r", z3.IntSort(), z3.IntSort())
    soft_r = z3.Function("soft_r", z3.IntSort(), z3.RealSort())
    hard_v = z3.Function("hard_v", z3.IntSort(), z3.IntSort())
    soft_v = z3.Function("soft_v", z3.IntSort(), z3.RealSort())

    def is_inf(t):
        return t.eq(inf_x)
    defs = [hard_r(0) == 0, soft_r(0) == 0,
            z3.ForAll([I], z3.Implies(z3.And(0 <= I, I < nr), z3.And(
                hard_r(I + 1) == hard_r(I) + z3.If(is_inf(rterm(rels[I])), 1, 0),
                soft_r(I + 1) == soft_r(I) + z3.If(is_inf(rterm(rels[I])), 0, rterm(rels[I]).v)))),
            hard_v(0) == hard_r(nr), soft_v(0) == soft_r(nr),
            z3.ForAll([I], z3.Implies(z3.And(0 <= I, I < nv), z3.And(
                hard_v(I + 1) == hard_v(I) + z3.If(is_inf(vterm(vars_[I])), 1, 0),
                soft_v(I + 1) == soft_v(I) + z3.If(is_inf(vterm(vars_[I])), 0, vterm(vars_[I]).v))))]
    finite_or_inf = z3.ForAll([X], z3.And(z3.Or(rterm(X).k == 0, is_inf(rterm(X))), z3.Or(vterm(X).k == 0, is_inf(vterm(X)))))

    def attr_val(it, st, base, attr):
        if attr == "dimensions":
            return "<dimensions>"
        if attr == "name":
            return ("name-of", base)
        if attr == "cost_for_val":
            return Fn("cost_for_val", lambda it, st, a, k, b=base: vterm(b))
        raise Unsupported("attribute %s of an opaque value" % attr)

    def call_val(it, st, f, args, kwargs):
        return rterm(f)

    def contains(it, st, a, b):
        # "v.name in assignment": the assignment is complete (precondition) / incomplete variant handled by the length test
        if isinstance(a, tuple) and a[0] == "name-of" and isinstance(b, Obj) and b.name == "assignment":
            return True
        raise Unsupported("in")

    def subscript(it, st, base, idx):
        if isinstance(base, Obj) and base.name == "assignment" and isinstance(idx, tuple) and idx[0] == "name-of":
            return z3.Const("value_of_some_variable", ValSort)   # a value (not None): precondition
        return None

    def env(it):
        return {"relations": Lst(rels), "variables": Lst(vars_), "assignment": Obj("assignment", {}), "infinity": inf_x}

    def length(it, st, o):
        return nv if complete else nv - 1

    def inv1(it, st, i):
        return z3.And(i <= nr, st.env["cost_hard"] == hard_r(i), it.num(st.env["cost_soft"]).k == 0, it.num(st.env["cost_soft"]).v == soft_r(i))

    def inv2(it, st, i):
        return z3.And(i <= nv, st.env["cost_hard"] == hard_v(i), it.num(st.env["cost_soft"]).k == 0, it.num(st.env["cost_soft"]).v == soft_v(i))

    def ensures(it, st, val):
        h, sft = val.items
        sft = it.num(sft)
        h = h if isinstance(h, z3.ExprRef) else z3.IntVal(h)
        return z3.And(h == hard_v(nv), sft.k == 0, sft.v == soft_v(nv))
    spec = dict(env=env, requires=lambda it, st: [wf_inf, wf1, wf2, finite_or_inf] + defs, ensures=ensures,
                attr_val=attr_val, call_val=call_val, contains=contains, subscript=subscript, len=length,
                globals={"filter_assignment_dict": Fn("filter_assignment_dict", lambda it, st, a, k: "<filtered>")},
                loops={1: LoopSpec({"cost_hard": "int", "cost_soft": "xr"}, inv1), 2: LoopSpec({"cost_hard": "int", "cost_soft": "xr"}, inv2)},
                loop_locals={1: ["r_cost"], 2: ["cost_for_val"]})
    if not complete:
        spec["raises"] = {"ValueError": lambda it, st: z3.BoolVal(True)}
        spec["ensures"] = lambda it, st, val: z3.BoolVal(False)   # an incomplete assignment must not return
    return spec


# ------------------------------------------------------------------ AgentDef.route / hosting_cost (loop free, abstract maps)

def spec_route():
    name = z3.Const("self_name", ValSort)
    other = z3.Const("other_agt", ValSort)
    has = z3.Function("routes_has", ValSort, z3.BoolSort())
    rv, wf = _xr_fun("routes_value")
    dflt, wfd = XR.fresh("default_route")

    def env(it):
        return {"self": Obj("self", {"name": name, "_routes": MapV("_routes", has, rv), "default_route": dflt}), "other_agt": other}

    def ensures(it, st, val):
        v = it.num(val)
        exp_self = z3.And(v.k == 0, v.v == 0)
        return z3.And(z3.Implies(name == other, exp_self),
                      z3.Implies(z3.And(name != other, has(other)), v.eq(rv(other))),
                      z3.Implies(z3.And(name != other, z3.Not(has(other))), v.eq(dflt)))
    return dict(env=env, requires=lambda it, st: [wf, wfd], ensures=ensures, loops={})


def spec_hosting_cost():
    comp = z3.Const("computation", ValSort)
    has = z3.Function("hosting_has", ValSort, z3.BoolSort())
    hv, wf = _xr_fun("hosting_value")
    dflt, wfd = XR.fresh("default_hosting_cost")

    def env(it):
        return {"self": Obj("self", {"_hosting_costs": MapV("_hosting_costs", has, hv), "_default_hosting_cost": dflt, "default_hosting_cost": dflt}),
                "computation": comp}

    def ensures(it, st, val):
        v = it.num(val)
        return z3.And(z3.Implies(has(comp), v.eq(hv(comp))), z3.Implies(z3.Not(has(comp)), v.eq(dflt)))
    return dict(env=env, requires=lambda it, st: [wf, wfd], ensures=ensures, loops={})



def spec_getattr():
    """AgentDef.__getattr__(item): an extra attribute given at construction is readable: the call returns its value and does
    not raise.  What happens for a name that is not an extra attribute is not part of C31 and is left open."""
    item = z3.Const("item", ValSort)
    has = z3.Function("attr_has", ValSort, z3.BoolSort())
    get = z3.Function("attr_value", ValSort, ValSort)

    def env(it):
        return {"self": Obj("self", {"_attr": MapV("_attr", has, get)}), "item": item}

    def ensures(it, st, val):
        if not (isinstance(val, z3.ExprRef) and val.sort() == ValSort):
            return z3.Not(has(item))
        return z3.Implies(has(item), val == get(item))
    return dict(env=env, ensures=ensures, loops={}, raises={n: (lambda it, st: z3.Not(has(item))) for n in ("AttributeError", "KeyError")})


# ------------------------------------------------------------------ MessagePassingComputation.on_message / post_msg (loop free)

def _entry3():
    mk = z3.Function("entry3", ValSort, ValSort, ValSort, ValSort)
    return mk


def spec_on_message():
    recv0 = z3.Const("recv0", ValSeq)
    sender, msg, t = (z3.Const(n, ValSort) for n in ("sender", "msg", "t"))
    paused, running = z3.Bool("is_paused"), z3.Bool("running")
    mk = _entry3()
    dh_has = z3.Function("decorated_has", ValSort, z3.BoolSort())
    mh_has = z3.Function("msg_handlers_has", ValSort, z3.BoolSort())
    mtype = z3.Function("type_of", ValSort, ValSort)

    def handler(which):
        def call(it, st, a, k):
            st.ghosts["handled"] = st.ghosts.get("handled", 0) + 1
            args = a[1:] if which == "decorated" else a
            it.prove("on_message.handler-gets-(sender,msg,t)", st, z3.And(args[0] == sender, args[1] == msg, args[2] == t))
            return NONE
        return Fn("handler", call)

    def attr_val(it, st, base, attr):
        if attr == "type":
            return mtype(base)
        if attr == "size":
            return 0
        raise Unsupported("attribute " + attr)

    def env(it):
        self = Obj("self", {"is_paused": paused, "_is_paused": paused, "_running": running, "name": z3.Const("self_name", ValSort),
                            "_paused_messages_recv": Lst(recv0),
                            "_decorated_handlers": MapV("_decorated_handlers", dh_has, lambda k: handler("decorated")),
                            "_msg_handlers": MapV("_msg_handlers", mh_has, lambda k: handler("plain")),
                            "logger": Obj("logger", {"debug": Fn("debug", lambda it, st, a, k: NONE)})})
        return {"self": self, "sender": sender, "msg": msg, "t": t}

    def pack(it, st, tup):
        if len(tup.items) != 3:
            raise Unsupported("entry arity")
        return mk(*tup.items)

    def ensures(it, st, val):
        buf = st.env["self"].attrs["_paused_messages_recv"].s
        handled = st.ghosts.get("handled", 0)
        active = z3.And(z3.Not(paused), running)
        return z3.And(z3.Implies(active, z3.And(buf == recv0, z3.BoolVal(handled == 1))),
                      z3.Implies(z3.Not(active), z3.And(buf == z3.Concat(recv0, z3.Unit(mk(sender, msg, t))), z3.BoolVal(handled == 0))))
    return dict(env=env, ensures=ensures, attr_val=attr_val, pack=pack, loops={},
                # a message type with no handler at all is outside the contract (the runtime raises KeyError for it)
                requires=lambda it, st: [z3.Or(dh_has(mtype(msg)), mh_has(mtype(msg)))],
                globals={"event_bus": Obj("event_bus", {"send": Fn("send", lambda it, st, a, k: NONE)})},
                frame={"_paused_messages_recv"})


def spec_post_msg():
    post0 = z3.Const("post0", ValSeq)
    target, msg, prio, onerr = (z3.Const(n, ValSort) for n in ("target", "msg", "prio", "on_error"))
    paused = z3.Bool("is_paused")
    name = z3.Const("self_name", ValSort)
    mk4 = z3.Function("entry4", ValSort, ValSort, ValSort, ValSort, ValSort)

    def sender(it, st, a, k):
        st.ghosts["sent"] = st.ghosts.get("sent", 0) + 1
        it.prove("post_msg.sender-gets-(self.name,target,msg,prio,on_error)", st,
                 z3.And(a[0] == name, a[1] == target, a[2] == msg, a[3] == prio, a[4] == onerr))
        return NONE

    def env(it):
        self = Obj("self", {"is_paused": paused, "_is_paused": paused, "name": name, "_paused_messages_post": Lst(post0),
                            "_msg_sender": Fn("_msg_sender", sender)})
        return {"self": self, "target": target, "msg": msg, "prio": prio, "on_error": onerr}

    def ensures(it, st, val):
        buf = st.env["self"].attrs["_paused_messages_post"].s
        sent = st.ghosts.get("sent", 0)
        return z3.And(z3.Implies(z3.Not(paused), z3.And(buf == post0, z3.BoolVal(sent == 1))),
                      z3.Implies(paused, z3.And(buf == z3.Concat(post0, z3.Unit(mk4(target, msg, prio, onerr))), z3.BoolVal(sent == 0))))
    return dict(env=env, ensures=ensures, loops={}, frame={"_paused_messages_post"},
                attr_val=lambda it, st, base, attr: 0 if attr == "size" else (_ for _ in ()).throw(Unsupported("attribute " + attr)),
                pack=lambda it, st, tup: mk4(*tup.items),
                globals={"event_bus": Obj("event_bus", {"send": Fn("send", lambda it, st, a, k: NONE)})})


# ------------------------------------------------------------------ algorithms.check_param_value (loop free)

def spec_check_param_value(ptype, with_values):
    """value: an opaque python object with a type name; int()/float() are trusted partial functions: either raise
    (ValueError / TypeError) or return an object of that type.  Result: of the declared type, equal to the value when it
    already has the type and to its conversion otherwise, member of ``values`` when given; anything else raises ValueError."""
    from pvc.vcgen import ForkOn
    v = z3.Const("param_val", ValSort)
    StrS = z3.StringSort()
    tname = z3.Function("type_name", ValSort, StrS)
    conv = {"int": z3.Function("int_of", ValSort, ValSort), "float": z3.Function("float_of", ValSort, ValSort)}
    convertible = {"int": z3.Function("int_ok", ValSort, z3.BoolSort()), "float": z3.Function("float_ok", ValSort, z3.BoolSort())}
    allowed = z3.Function("in_values", ValSort, z3.BoolSort())
    axioms = [z3.ForAll([X], z3.Implies(convertible[k](X), tname(conv[k](X)) == z3.StringVal(k))) for k in conv]

    def is_of_type(it, st, a, k):
        return tname(a[0]) == z3.StringVal(a[1])

    def convert(it, st, f, arg):
        tag = "%s(%s)" % (f, arg)
        known = st.ghosts.get("known", set())
        if (tag, True) in known:
            return conv[f](arg)
        raise ForkOn(convertible[f](arg), "ValueError", tag)

    def contains(it, st, a, b):
        return allowed(a)

    def env(it):
        pd = Obj("param_def", {"type": ptype, "name": "p", "values": (Obj("values", {}) if with_values else NONE)})
        return {"param_val": v, "param_def": pd}

    def expected(r):
        same = tname(v) == z3.StringVal(ptype)
        parts = [tname(r) == z3.StringVal(ptype), z3.Implies(same, r == v)]
        if ptype in conv:
            parts.append(z3.Implies(z3.Not(same), z3.And(convertible[ptype](v), r == conv[ptype](v))))
        else:
            parts.append(same)
        if with_values:
            parts.append(allowed(r))
        return z3.And(*parts)

    def raises_ok(it, st):
        same = tname(v) == z3.StringVal(ptype)
        bad_type = z3.And(z3.Not(same), z3.BoolVal(ptype not in conv))
        bad_conv = z3.And(z3.Not(same), convertible[ptype](v) == z3.BoolVal(False)) if ptype in conv else z3.BoolVal(False)
        r = conv[ptype](v) if ptype in conv else v
        res = z3.If(same, v, r)
        bad_val = z3.And(z3.BoolVal(with_values), z3.Not(allowed(res)))
        return z3.Or(bad_type, bad_conv, bad_val)
    return dict(env=env, requires=lambda it, st: axioms, ensures=lambda it, st, val: expected(val), loops={},
                raises={"ValueError": raises_ok}, convert=convert, contains=contains,
                globals={"is_of_type_by_str": Fn("is_of_type_by_str", is_of_type)})


def _is_false(v):
    return z3.BoolVal(v is False) if isinstance(v, bool) else z3.Not(v)


def spec_pause_resume():
    """pause(False): buffered posts are sent exactly once in posting order, then buffered receptions are
    re-injected in reception order; both buffers end empty"""
    recv0 = z3.Const("recv0", ValSeq)
    post0 = z3.Const("post0", ValSeq)
    name = z3.Const("self_name", ValSort)
    f = {n: z3.Function(n, ValSort, ValSort) for n in ("src", "msg", "t", "target", "pmsg", "prio", "onerr")}

    def sender(it, st, a, k):
        e = st.ghosts["last_popped"]
        it.prove("pause.re-injection-call-is-(src,self.name,msg,19)-of-the-popped-entry", st,
                 z3.And(a[0] == f["src"](e), a[1] == name, a[2] == f["msg"](e), z3.BoolVal(a[3] == 19)))
        st.ghosts["reinjected"] = Lst(z3.Concat(st.ghosts["reinjected"].s, z3.Unit(e)))
        return NONE

    def post_msg(it, st, a, k):
        # callee under contract: when not paused, post_msg hands the message to the sender exactly once
        e = st.ghosts["last_popped"]
        it.prove("pause.buffered-post-is-sent-with-its-own-(target,msg,prio,on_error)", st,
                 z3.And(a[0] == f["target"](e), a[1] == f["pmsg"](e), a[2] == f["prio"](e), a[3] == f["onerr"](e)))
        it.prove("pause.post_msg-is-called-while-not-paused", st, _is_false(st.env["self"].attrs["_is_paused"]))
        st.ghosts["sent"] = Lst(z3.Concat(st.ghosts["sent"].s, z3.Unit(e)))
        return NONE

    def unpack(it, st, value, n):
        st.ghosts["last_popped"] = value
        if n == 3:
            return [f["src"](value), f["msg"](value), f["t"](value)]
        if n == 4:
            return [f["target"](value), f["pmsg"](value), f["prio"](value), f["onerr"](value)]
        raise Unsupported("unpack arity")

    def env(it):
        self = Obj("self", {"_is_paused": z3.Bool("was_paused"), "_paused_messages_recv": Lst(recv0), "_paused_messages_post": Lst(post0),
                            "_msg_sender": Fn("_msg_sender", sender), "post_msg": Fn("post_msg", post_msg), "name": name,
                            "on_pause": Fn("on_pause", lambda it, st, a, k: NONE),
                            "logger": Obj("logger", {"debug": Fn("debug", lambda it, st, a, k: NONE)})})
        return {"self": self, "is_paused": False}

    def init_ghosts(it, st):
        st.ghosts["sent"] = Lst(z3.Empty(ValSeq))
        st.ghosts["reinjected"] = Lst(z3.Empty(ValSeq))
        return []

    def inv1(it, st, i):
        return z3.And(z3.Concat(st.ghosts["sent"].s, st.env["self"].attrs["_paused_messages_post"].s) == post0,
                      st.ghosts["reinjected"].s == z3.Empty(ValSeq),
                      st.env["self"].attrs["_paused_messages_recv"].s == recv0)

    def inv2(it, st, i):
        return z3.And(st.ghosts["sent"].s == post0, st.env["self"].attrs["_paused_messages_post"].s == z3.Empty(ValSeq),
                      z3.Concat(st.ghosts["reinjected"].s, st.env["self"].attrs["_paused_messages_recv"].s) == recv0)

    def ensures(it, st, val):
        a = st.env["self"].attrs
        return z3.And(a["_paused_messages_post"].s == z3.Empty(ValSeq), a["_paused_messages_recv"].s == z3.Empty(ValSeq),
                      st.ghosts["sent"].s == post0, st.ghosts["reinjected"].s == recv0, _is_false(a["_is_paused"]))
    common = {"lp": ("ghost", "last_popped", "val")}
    return dict(env=env, requires=init_ghosts, ensures=ensures, unpack=unpack,
                frame={"_is_paused", "_paused_messages_recv", "_paused_messages_post"},
                loops={1: LoopSpec(dict(common, waiting_msg_count="int", buf=("attr", "self", "_paused_messages_post", "lst"), out=("ghost", "sent", "lst")), inv1),
                       2: LoopSpec(dict(common, waiting_msg_count="int", buf=("attr", "self", "_paused_messages_recv", "lst"), out=("ghost", "reinjected", "lst")), inv2)},
                loop_locals={1: ["target", "msg", "prio", "e"], 2: ["src", "msg", "t"]},
                decreases={1: lambda it, st: z3.Length(st.env["self"].attrs["_paused_messages_post"].s),
                           2: lambda it, st: z3.Length(st.env["self"].attrs["_paused_messages_recv"].s)})


SLOW = {"get_value_candidates[value]"}

U_TARGETS = {
    "find_arg_optimal[min]": ("pydcop.dcop.relations:find_arg_optimal", lambda: spec_find_arg_optimal("min"), ["C06", "C01"]),
    "find_arg_optimal[max]": ("pydcop.dcop.relations:find_arg_optimal", lambda: spec_find_arg_optimal("max"), ["C06", "C01"]),
    "find_optimal[min,own-cost]": ("pydcop.dcop.relations:find_optimal", lambda: spec_find_optimal("min", True), ["C06"]),
    "find_optimal[max,own-cost]": ("pydcop.dcop.relations:find_optimal", lambda: spec_find_optimal("max", True), ["C06"]),
    "find_optimal[min,no-own-cost]": ("pydcop.dcop.relations:find_optimal", lambda: spec_find_optimal("min", False), ["C06"]),
    "find_optimal[max,no-own-cost]": ("pydcop.dcop.relations:find_optimal", lambda: spec_find_optimal("max", False), ["C06"]),
    "get_value_candidates[None]": ("pydcop.algorithms.syncbb:get_value_candidates", lambda: spec_value_candidates(True), ["C02"]),
    "get_value_candidates[value]": ("pydcop.algorithms.syncbb:get_value_candidates", lambda: spec_value_candidates(False), ["C02"]),
    "solution_cost[complete]": ("pydcop.dcop.dcop:solution_cost", lambda: spec_solution_cost(True), ["C13"]),
    "check_param_value[int]": ("pydcop.algorithms:check_param_value", lambda: spec_check_param_value("int", False), ["C28"]),
    "check_param_value[float,values]": ("pydcop.algorithms:check_param_value", lambda: spec_check_param_value("float", True), ["C28"]),
    "check_param_value[str,values]": ("pydcop.algorithms:check_param_value", lambda: spec_check_param_value("str", True), ["C28"]),
    "check_param_value[str]": ("pydcop.algorithms:check_param_value", lambda: spec_check_param_value("str", False), ["C28"]),
    "AgentDef.route": ("pydcop.dcop.objects:AgentDef.route", spec_route, ["C31"]),
    "AgentDef.__getattr__": ("pydcop.dcop.objects:AgentDef.__getattr__", spec_getattr, ["C31"]),
    "AgentDef.hosting_cost": ("pydcop.dcop.objects:AgentDef.hosting_cost", spec_hosting_cost, ["C31"]),
    "MessagePassingComputation.on_message": ("pydcop.infrastructure.computations:MessagePassingComputation.on_message", spec_on_message, ["C19"]),
    "MessagePassingComputation.post_msg": ("pydcop.infrastructure.computations:MessagePassingComputation.post_msg", spec_post_msg, ["C19"]),
    "MessagePassingComputation.pause(False)": ("pydcop.infrastructure.computations:MessagePassingComputation.pause", spec_pause_resume, ["C19"]),
    "MessagePassingComputation.start": ("pydcop.infrastructure.computations:MessagePassingComputation.start", spec_start, ["C19"]),
}


def h_umode(env):
    from pvc.contract import resolve
    name = env.params["target"]
    target, mk, _ = U_TARGETS[name]
    try:
        fn = resolve(target)
        res = V.verify(fn, mk(), timeout_ms=30000 if env.params.get("_tier") == "quick" else 120000)
    except Unsupported as e:
        env.note("U-mode not established for %s: %s" % (name, e))
        env.cover("not-established")
        return
    if res.error:
        env.note("U-mode not established for %s: %s" % (name, res.error))
        env.cover("not-established")
        return
    env.cover("vcs-generated")
    import json, os
    bp = os.path.join(os.path.dirname(os.path.dirname(os.path.abspath(__file__))), "baseline_obligations.json")
    base = json.load(open(bp)) if os.path.exists(bp) else {}
    for o in res.obligations:
        label = "U.%s.%s" % (name, o["name"])
        det = lambda o=o: dict(status=o["status"], backend=o["backend"], seconds=o["seconds"], model=o["model"], source_sha=res.source_sha, drops=res.drops)  # noqa
        if o["status"] == "discharged":
            env.prove(label, True, detail=det)
            continue
        was = any(v.get("umode.%s::%s" % (pr, label)) == "discharged" for pr, v in base.items() if isinstance(v, dict))
        if was and o["status"] == "refuted":
            # proved on the unchanged tree, refuted by the solver now: reported (no replayable input: U-mode has no concrete witness)
            env.prove(label, False, detail=det)
        else:
            env.note("U-mode obligation not established (%s): %s" % (o["status"], label))
            env.cover("not-established")


def _u_contract(prop):
    names = [n for n, (_, _, props) in U_TARGETS.items() if prop in props]
    if not names:
        return
    Contract(
        "umode.%s" % prop, [prop], sorted({U_TARGETS[n][0] for n in names}), h_umode,
        (lambda ns: (lambda tier: [dict(target=n) for n in ns if tier == "thorough" or n not in SLOW]))(names), mode="U",
        trusted=["pvc.vcgen: AST symbolic executor for the Python subset listed in its docstring; lists of opaque values as z3 Seq / sets, numbers as extended reals; "
                 "loop back-edges replaced by the sidecar invariants (the only transformation of the real source)"],
        assumptions=["U-mode callees under assumed contract: relation(v) / assignment_cost / cost_for_val are pure functions of the value (their own contracts are checked in B-mode); on_start() does not touch the buffers"],
        budget=dict(no_sampling=True, quick=dict(max_paths=5, timeout_s=400), thorough=dict(max_paths=5, timeout_s=900)),
        desc="unbounded VCs (all lengths, all values) generated from the current source of: %s" % ", ".join(names),
    )


for _p in ("C06", "C01", "C02", "C19", "C13", "C31", "C28"):
    _u_contract(_p)
