"""Fixture helpers shared by the contract harnesses: real pyDcop objects whose
numeric leaves come from ``env`` (symbolic in B-mode, plain numbers in replay)."""
import itertools
import math


def install_numpy_shim(env, *modules):
    """object-dtype arrays for matrices holding proxies (symbolic mode only)"""
    if not env.symbolic:
        return
    from pvc.models import NumpyShim, model_float
    shim = NumpyShim()
    for m in modules:
        m.np = shim
        if hasattr(m, "math") and not hasattr(m.math, "_real"):
            from pvc.models import MathShim
            m.math = MathShim(m.math)      # math.isclose on proxies = its definition over the exact reals
        if hasattr(m, "__dict__") and "float" not in m.__dict__:
            pass


def values(n):
    """domain values that are neither their own index nor all truthy"""
    return [10, 0, 5, 7, 3, 8][:n]


def domain(name, values):
    from pydcop.dcop.objects import Domain
    return Domain(name, "", list(values))


class LazyTable:
    """cost table over the cartesian product of the variables' domains; a cell is
    created (as an input of the run) the first time it is read, so cells the code
    never looks at cost nothing"""

    def __init__(self, env, prefix, variables, kinds=("fin",), lo=None, hi=None, make=None):
        self.env = env
        self.prefix = prefix
        self.variables = list(variables)
        self.kinds = kinds
        self.lo, self.hi = lo, hi
        self.cells = {}
        self.make = make

    def key(self, assignment):
        return tuple(assignment[v.name] for v in self.variables)

    def cell(self, key):
        if key not in self.cells:
            name = "%s[%s]" % (self.prefix, ",".join(str(k) for k in key))
            if self.make is not None:
                self.cells[key] = self.make(name)
            else:
                self.cells[key] = self.env.ext_real(name, self.kinds, self.lo, self.hi)
        return self.cells[key]

    def __call__(self, **kw):
        return self.cell(self.key(kw))

    def all_keys(self):
        return list(itertools.product(*[list(v.domain) for v in self.variables]))


def table_relation(env, name, variables, kinds=("fin",), lo=None, hi=None, make=None):
    """real NAryFunctionRelation whose python function reads a LazyTable"""
    from pydcop.dcop.relations import NAryFunctionRelation
    tab = LazyTable(env, name, variables, kinds, lo, hi, make)

    def f(**kw):
        return tab(**kw)

    rel = NAryFunctionRelation(f, variables, name=name, f_kwargs=True)
    return rel, tab


INT_DTYPES = {"int8": (-2 ** 7, 2 ** 7 - 1), "int16": (-2 ** 15, 2 ** 15 - 1), "int32": (-2 ** 31, 2 ** 31 - 1), "int64": (-2 ** 63, 2 ** 63 - 1)}


def _int_cell(env, name, dtype):
    """a cell of an integer-typed table: mostly near the ends of the type's range (sums of two such cells leave the range)"""
    lo, hi = INT_DTYPES[dtype]
    where = env.choice("where:" + name, ["top", "bottom", "any", "any"])
    if where == "top":
        return hi - env.int(name, 0, 40)
    if where == "bottom":
        return lo + env.int(name, 0, 40)
    return env.int(name, lo, hi)


def matrix_relation(env, name, variables, kinds=("fin",), lo=None, hi=None, dtype=None):
    """real NAryMatrixRelation with every cell an input.  ``dtype`` (sampled native runs only): the table is a numpy
    array of that integer type, as a caller who writes ``np.array(..., dtype=np.int8)`` has it."""
    import numpy as np
    from pydcop.dcop.relations import NAryMatrixRelation
    shape = tuple(len(v.domain) for v in variables)
    cells = {}
    if env.symbolic:
        m = np.empty(shape, dtype=object)
        dtype = None
    elif dtype is not None:
        m = np.zeros(shape, dtype=getattr(np, dtype))
    else:
        m = np.zeros(shape, dtype=np.float64)
    for idx in itertools.product(*[range(s) for s in shape]):
        key = tuple(variables[i].domain[j] for i, j in enumerate(idx))
        if dtype is not None:
            c = _int_cell(env, "%s[%s]" % (name, ",".join(str(k) for k in key)), dtype)
        else:
            c = env.ext_real("%s[%s]" % (name, ",".join(str(k) for k in key)), kinds, lo, hi)
        cells[key] = c
        m[idx] = c
    if shape == ():
        c = env.ext_real("%s[]" % name, kinds, lo, hi)
        cells[()] = c
        m[()] = c
    rel = NAryMatrixRelation(variables, m, name=name)
    return rel, cells


def make_variable(env, name, dom, kind, kinds=("fin",), initial_value=None, lo=None, hi=None):
    """kind: 'plain' | 'dict' | 'func' ; returns (variable, cost(d) python function)"""
    from pydcop.dcop.objects import Variable, VariableWithCostDict, VariableWithCostFunc
    if kind == "plain":
        return Variable(name, dom, initial_value), (lambda d: 0)
    costs = {}

    def cost(d):
        if d not in costs:
            costs[d] = env.ext_real("cost_%s[%s]" % (name, d), kinds, lo, hi)
        return costs[d]

    if kind == "dict":
        table = {d: cost(d) for d in dom}
        return VariableWithCostDict(name, dom, table, initial_value), cost
    if kind == "func":
        def cost_func(v):
            return cost(v)
        return VariableWithCostFunc(name, dom, cost_func, initial_value), cost
    raise ValueError(kind)


def assignments(variables):
    names = [v.name for v in variables]
    for vals in itertools.product(*[list(v.domain) for v in variables]):
        yield dict(zip(names, vals))


def is_inf(x):
    return isinstance(x, float) and math.isinf(x)


def random_spec(seed, nvars, max_dom=3, unary=True, nary=False, connected=True, costkinds=("plain", "plain", "func", "dict"), tree=False, same_dom=False):
    """a seeded random problem in the spec format of net.build_dcop: a random spanning tree (when ``connected``) plus a few
    extra binary constraints (cycles -> pseudo-parents), optional unary and ternary constraints, non-identity domains of
    2..max_dom values, some variables with an own cost.  Used by the sampled native pass on shapes that are too large
    for exhaustive path exploration."""
    import random as _r
    rng = _r.Random(seed * 104729 + nvars * 31 + max_dom)
    names = ["x%d" % (i + 1) for i in range(nvars)]
    order = list(names)
    rng.shuffle(order)
    pools = [[0, 1, 2], ["a", "b", "c"], [7, 0, 3], ["u", "v", "w"], [5, 2, 9]]
    vars_ = {}
    for i, n in enumerate(names):
        k = rng.randint(2, max_dom)
        dom = list(pools[0 if same_dom else i % len(pools)][:k])    # same_dom: equal values of different variables can be confused
        ck = rng.choice(costkinds)
        vars_[n] = dom if ck == "plain" else (dom, ck)
    edges = []
    for i in range(1, nvars):
        if connected or rng.random() < 0.75:
            edges.append([order[i], order[rng.randrange(i)]])
    for _ in range(0 if tree else rng.randint(0, max(1, nvars // 2))):
        a, b = rng.sample(names, 2)
        if [a, b] not in edges and [b, a] not in edges:
            edges.append([a, b])
    cons = [list(e) if rng.random() < 0.5 else [e[1], e[0]] for e in edges]
    if unary:
        for n in names:
            if rng.random() < 0.25:
                cons.append([n])
    if nary and not tree and nvars >= 3 and rng.random() < 0.5:
        cons.append(rng.sample(names, 3))
    rng.shuffle(cons)
    return dict(vars=vars_, cons=cons)
