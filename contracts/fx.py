"""Fixture helpers shared by the contract harnesses: real pyDcop objects whose
numeric leaves come from ``env`` (symbolic in B-mode, plain numbers in replay)."""
import itertools
import math


def install_numpy_shim(env, *modules):
    """object-dtype arrays for matrices holding proxies (symbolic mode only)"""
    if not env.symbolic:
        return
    from pvc.models import NumpyShim, model_float
    shim = NumpyShim()
    for m in modules:
        m.np = shim
        if hasattr(m, "__dict__") and "float" not in m.__dict__:
            pass


def values(n):
    """domain values that are neither their own index nor all truthy"""
    return [10, 0, 5, 7, 3, 8][:n]


def domain(name, values):
    from pydcop.dcop.objects import Domain
    return Domain(name, "", list(values))


class LazyTable:
    """cost table over the cartesian product of the variables' domains; a cell is
    created (as an input of the run) the first time it is read, so cells the code
    never looks at cost nothing"""

    def __init__(self, env, prefix, variables, kinds=("fin",), lo=None, hi=None, make=None):
        self.env = env
        self.prefix = prefix
        self.variables = list(variables)
        self.kinds = kinds
        self.lo, self.hi = lo, hi
        self.cells = {}
        self.make = make

    def key(self, assignment):
        return tuple(assignment[v.name] for v in self.variables)

    def cell(self, key):
        if key not in self.cells:
            name = "%s[%s]" % (self.prefix, ",".join(str(k) for k in key))
            if self.make is not None:
                self.cells[key] = self.make(name)
            else:
                self.cells[key] = self.env.ext_real(name, self.kinds, self.lo, self.hi)
        return self.cells[key]

    def __call__(self, **kw):
        return self.cell(self.key(kw))

    def all_keys(self):
        return list(itertools.product(*[list(v.domain) for v in self.variables]))


def table_relation(env, name, variables, kinds=("fin",), lo=None, hi=None, make=None):
    """real NAryFunctionRelation whose python function reads a LazyTable"""
    from pydcop.dcop.relations import NAryFunctionRelation
    tab = LazyTable(env, name, variables, kinds, lo, hi, make)

    def f(**kw):
        return tab(**kw)

    rel = NAryFunctionRelation(f, variables, name=name, f_kwargs=True)
    return rel, tab


def matrix_relation(env, name, variables, kinds=("fin",), lo=None, hi=None):
    """real NAryMatrixRelation with every cell an input"""
    import numpy as np
    from pydcop.dcop.relations import NAryMatrixRelation
    shape = tuple(len(v.domain) for v in variables)
    cells = {}
    if env.symbolic:
        m = np.empty(shape, dtype=object)
    else:
        m = np.zeros(shape, dtype=np.float64)
    for idx in itertools.product(*[range(s) for s in shape]):
        key = tuple(variables[i].domain[j] for i, j in enumerate(idx))
        c = env.ext_real("%s[%s]" % (name, ",".join(str(k) for k in key)), kinds, lo, hi)
        cells[key] = c
        m[idx] = c
    if shape == ():
        c = env.ext_real("%s[]" % name, kinds, lo, hi)
        cells[()] = c
        m[()] = c
    rel = NAryMatrixRelation(variables, m, name=name)
    return rel, cells


def make_variable(env, name, dom, kind, kinds=("fin",), initial_value=None, lo=None, hi=None):
    """kind: 'plain' | 'dict' | 'func' ; returns (variable, cost(d) python function)"""
    from pydcop.dcop.objects import Variable, VariableWithCostDict, VariableWithCostFunc
    if kind == "plain":
        return Variable(name, dom, initial_value), (lambda d: 0)
    costs = {}

    def cost(d):
        if d not in costs:
            costs[d] = env.ext_real("cost_%s[%s]" % (name, d), kinds, lo, hi)
        return costs[d]

    if kind == "dict":
        table = {d: cost(d) for d in dom}
        return VariableWithCostDict(name, dom, table, initial_value), cost
    if kind == "func":
        def cost_func(v):
            return cost(v)
        return VariableWithCostFunc(name, dom, cost_func, initial_value), cost
    raise ValueError(kind)


def assignments(variables):
    names = [v.name for v in variables]
    for vals in itertools.product(*[list(v.domain) for v in variables]):
        yield dict(zip(names, vals))


def is_inf(x):
    return isinstance(x, float) and math.isinf(x)
