"""Contracts on pydcop.dcop.yamldcop (C14: DCOP YAML round trip) and on the problem /
scenario generators in pydcop.commands.generators (C30).

Mode E: every case is a concrete, enumerated DCOP (or generator argument tuple);
``env.choice`` enumerates the cases, the oracle is semantic (values on every
assignment, costs per agent), never object identity or text.

The YAML library itself (yaml.dump / yaml.load) is trusted.
"""
import contextlib
import importlib
import io
import itertools
import math
import os
import pathlib
import random as _random
import shutil
import tempfile
from argparse import Namespace

from pvc.contract import Contract
from pvc.explore import Raised

_NOCAP = "<no capacity>"


def _preimport():
    """the runner forks one worker per slice of paths: import the heavy modules once in the parent
    (only when one of this file's properties is checked).  Failures are ignored here, the harnesses
    import the repo modules again under env.call and turn a failing import into a failed obligation."""
    import sys
    if not any(a in ("C14", "C30") for a in sys.argv[1:]):
        return
    for m in ("yaml", "networkx", "pydcop.dcop.yamldcop", "pydcop.commands.generators.graphcoloring",
              "pydcop.commands.generators.ising", "pydcop.commands.generators.scenario"):
        try:
            importlib.import_module(m)
        except BaseException:  # noqa
            pass


_preimport()


# =====================================================================================
#                                   C14  - DCOP specs
# =====================================================================================

_INT_DOMS = {
    "i3": [10, 0, 5],        # not their own index, contains a falsy value
    "i2": [0, 1],
    "ineg": [-1, 0, 2],
    "i1": [7],               # single value
}
_STR_DOMS = {
    "s2": ["b", "a"],        # not sorted
    "s3": ["R", "G", "B"],
    "sdigit": ["1", "0"],    # strings that look like ints must stay strings
    "syaml": ["no", "on", "null"],  # strings YAML would resolve to bool / None when unquoted
    "s1": ["a"],             # single value
}

_MATRIX_KINDS = ("mfloat", "mint", "mrep", "minf", "pyfunc")
_EXPR_KINDS = ("expr0", "expr1", "expr2", "expr3")
_ALL_KINDS = _EXPR_KINDS + _MATRIX_KINDS


def _cell_value(kind, k):
    """cost of the k-th cell (row-major over the scope) of an extensional constraint"""
    if kind == "mfloat":
        return k * 1.5 - 2.0          # distinct, negative / zero-crossing floats
    if kind == "mint":
        return 3 * k - 4              # python ints
    if kind == "mrep":
        return float(k % 2)           # few distinct costs: several assignments per cost
    if kind == "minf":
        return math.inf if k % 3 == 0 else k * 0.25
    if kind == "pyfunc":
        return k * k - 1
    raise ValueError(kind)


def _term(name, values):
    """python sub-expression over one variable"""
    if isinstance(values[0], str):
        return "(3 if %s == %r else 0.5)" % (name, values[0])
    return name


def _expression(kind, scope, dom_of):
    """a python expression (YAML 'intention' constraint) over exactly the variables of scope"""
    terms = [_term(n, dom_of[n]) for n in scope]
    if not scope:
        return "3"
    if kind == "expr1" and len(scope) == 2:
        return "10000 if %s == %s else %s" % (scope[0], scope[1], " + ".join(terms))
    if kind == "expr2":
        first = scope[0]
        rest = " + ".join(terms[1:]) if len(scope) > 1 else "0"
        return "if %s == %r:\n    return 1\nreturn 2 + %s" % (first, dom_of[first][0], rest)
    if kind == "expr3":
        return "abs(%s) * 2 - max([%s, 1])" % (" - ".join(terms), terms[-1])
    return " + ".join(terms)


def _build(spec, tables=None):
    """spec -> (DCOP, same DCOP without agents, AgentDef list); public pyDcop API only.
    tables: a list that receives (agent name, routes dict, hosting costs dict) - the very dict objects handed to
    AgentDef, still held by the caller (frame obligations)"""
    from pydcop.dcop.dcop import DCOP
    from pydcop.dcop.objects import Domain, Variable, AgentDef
    from pydcop.dcop.relations import constraint_from_str, NAryMatrixRelation, NAryFunctionRelation
    domains = {n: Domain(n, t, list(vals)) for n, t, vals in spec["domains"]}
    variables = {}
    for n, d, init in spec["variables"]:
        variables[n] = Variable(n, domains[d], init)
    dom_of = {n: list(v.domain.values) for n, v in variables.items()}
    constraints = []
    for cname, kind, scope in spec["constraints"]:
        vs = [variables[n] for n in scope]
        if kind in _EXPR_KINDS:
            c = constraint_from_str(cname, _expression(kind, scope, dom_of), list(variables.values()))
        else:
            keys = list(itertools.product(*[dom_of[n] for n in scope]))
            table = {key: _cell_value(kind, k) for k, key in enumerate(keys)}
            if kind == "pyfunc":
                c = NAryFunctionRelation(_table_function(table, scope), vs, name=cname, f_kwargs=True)
            else:
                c = NAryMatrixRelation(vs, _nested(table, [dom_of[n] for n in scope], ()), name=cname)
        constraints.append(c)
    agents = []
    for a in spec["agents"]:
        kw = {}
        if a["capacity"] != _NOCAP:
            kw["capacity"] = a["capacity"]
        routes, hc = dict(a["routes"]), dict(a["hc"])
        if tables is not None:
            tables.append((a["name"], routes, hc))
        agents.append(AgentDef(a["name"], default_route=spec["default_route"], routes=routes,
                               default_hosting_cost=a["dhc"], hosting_costs=hc, **kw))
    out = []
    for with_agents in (True, False):
        dcop = DCOP(spec["name"], spec["objective"], domains=dict(domains), variables=dict(variables))
        for c in constraints:
            dcop.add_constraint(c)
        if with_agents:
            dcop.add_agents(agents)
        out.append(dcop)
    return out[0], out[1], agents


def _table_function(table, scope):
    def f(**kw):
        return table[tuple(kw[n] for n in scope)]
    return f


def _nested(table, doms, prefix):
    if len(prefix) == len(doms) - 1:
        return [table[prefix + (v,)] for v in doms[-1]]
    return [_nested(table, doms, prefix + (v,)) for v in doms[len(prefix)]]


def _agents_spec(n, capacity, routes, hosting, computations):
    """n agents (names not in sorted order); symmetric route table; hosting costs"""
    names = ["a10", "a2", "b1"][:n]
    caps = {"none": [_NOCAP] * 3, "int": [10, 7, 12], "zero-float": [0, 2.5, 100]}[capacity]
    agents = [dict(name=nm, capacity=caps[i], routes={}, dhc=0, hc={}) for i, nm in enumerate(names)]
    pairs = []
    if routes == "one-pair" and n >= 2:
        pairs = [(0, 1, 3)]
    elif routes == "full":
        pairs = [(i, j, 2 + i + 2.5 * j) for i in range(n) for j in range(i + 1, n)]
    elif routes == "zero-cost" and n >= 2:
        pairs = [(0, n - 1, 0)]
    for i, j, c in pairs:  # symmetric by construction
        agents[i]["routes"][names[j]] = c
        agents[j]["routes"][names[i]] = c
    comps = list(computations)
    for i, a in enumerate(agents):
        if hosting in ("default-only", "both") and i != 1:
            a["dhc"] = 4 + i * 0.5
        if hosting in ("specific-only", "both") and comps:
            a["hc"] = {comps[(i + k) % len(comps)]: 10 * (i + 1) + k for k in range(min(2, len(comps)))}
        if hosting == "zero-specific" and comps:
            a["dhc"] = 6
            a["hc"] = {comps[i % len(comps)]: 0}
    return agents


def _base_spec(objective="min", intdom="i3", strdom="s2", dtype="", init="none",
               constraints=None, agents=None, default_route=1):
    ints, strs = _INT_DOMS[intdom], _STR_DOMS[strdom]

    def iv(vals, falsy_ok=True):
        if init == "none":
            return None
        if init == "first":
            return vals[0]
        if init == "last":
            return vals[-1]
        if init == "falsy":
            return 0 if 0 in vals else vals[0]
        raise ValueError(init)

    spec = dict(
        name="dcop_t", objective=objective,
        domains=[("dint", dtype, ints), ("dstr", "txt" if dtype else "", strs)],
        # names deliberately not in sorted order, one a prefix of another
        variables=[("x2", "dint", iv(ints)), ("x10", "dstr", iv(strs)), ("a", "dint", iv(ints) if init != "first" else None)],
        constraints=constraints if constraints is not None else [
            ("c_e", "expr0", ["x2", "x10"]), ("c_m", "mfloat", ["a", "x10"]), ("c1_u", "mrep", ["x2"])],
        agents=[], default_route=default_route)
    comps = [v[0] for v in spec["variables"]] + [c[0] for c in spec["constraints"]]
    spec["agents"] = agents if agents is not None else _agents_spec(2, "int", "one-pair", "both", comps)
    return spec


def _random_spec(seed):
    """a pseudo-random small DCOP spec (deterministic in seed): breadth over the combination space"""
    r = _random.Random(seed * 7919 + 13)
    ndom = r.randint(1, 3)
    doms = []
    for i in range(ndom):
        if r.random() < 0.5:
            vals = r.sample([10, 0, 5, -3, 7, 1, 2], r.randint(2, 3))
        else:
            vals = r.sample(["b", "a", "R", "1", "0", "no", "G_x"], r.randint(2, 3))
        doms.append(("d%d" % (ndom - i), r.choice(["", "kind"]), vals))
    nvar = r.randint(1, 4)
    names = r.sample(["x2", "x10", "a", "z_1", "y"], nvar)
    variables = []
    for n in names:
        d = r.choice(doms)
        init = r.choice([None, None, d[2][0], d[2][-1], 0 if 0 in d[2] else None])
        variables.append((n, d[0], init))
    constraints = []
    for k in range(r.randint(0, 4)):
        kind = r.choice(_ALL_KINDS)
        scope = r.sample(names, r.randint(1, min(3, nvar)))
        constraints.append(("c%d" % (7 - k), kind, scope))
    comps = names + [c[0] for c in constraints]
    agents = _agents_spec(r.randint(0, 3), r.choice(["none", "int", "zero-float"]),
                          r.choice(["none", "one-pair", "full", "zero-cost"]),
                          r.choice(["none", "default-only", "specific-only", "both", "zero-specific"]), comps)
    return dict(name="r%d" % seed, objective=r.choice(["min", "max"]), domains=doms, variables=variables,
                constraints=constraints, agents=agents, default_route=r.choice([1, 1, 0, 5.5, 3]))


# ------------------------------------------------------------------ ways of reading back

def _top_level_blocks(text):
    """cut a YAML text at its top-level keys (column-0 'key:' lines)"""
    lines = text.splitlines(keepends=True)
    blocks, cur = [], []
    for ln in lines:
        if cur and ln[:1] not in (" ", "\n", "-", "#", "") and ":" in ln:
            blocks.append("".join(cur))
            cur = []
        cur.append(ln)
    if cur:
        blocks.append("".join(cur))
    return blocks


def _pieces(way, text, text_noagents, text_agents):
    """the file contents for a multi-file way"""
    if way == "agents-file":          # the documented use: problem file + agents file
        return [text_noagents, text_agents]
    blocks = _top_level_blocks(text)
    if way == "sections-2":
        k = max(1, len(blocks) // 2)
        return ["".join(blocks[:k]), "".join(blocks[k:])]
    if way == "sections-all":
        return blocks
    lines = text.splitlines(keepends=True)
    if way == "midline-2":            # cut in the middle of a section: file order matters
        k = len(lines) // 2
        return ["".join(lines[:k]), "".join(lines[k:])]
    if way == "midline-3":
        k1, k2 = len(lines) // 3, (2 * len(lines)) // 3
        return ["".join(lines[:k1]), "".join(lines[k1:k2]), "".join(lines[k2:])]
    raise ValueError(way)


_FILE_WAYS_1 = ("file-list", "file-tuple", "file-path", "file-str")
_FILE_WAYS_N = ("agents-file", "sections-2", "sections-all", "midline-2", "midline-3")


def _tmpdir():
    base = os.environ.get("TMPDIR") or "/tmp"
    return tempfile.mkdtemp(prefix="pvc_yaml_", dir=base)


def _read_back(env, Y, way, text, text_noagents, text_agents, frame=None):
    """load the dumped DCOP the requested way; returns the DCOP or Raised.
    frame: a dict that receives the list / tuple of file names given to load_dcop_from_file, as it was before
    the call ("before") and as the caller finds it after the call ("after")"""
    if way == "string":
        return env.call(Y.load_dcop, text)
    d = _tmpdir()
    try:
        if way in _FILE_WAYS_1:
            contents = [text]
        else:
            contents = _pieces(way, text, text_noagents, text_agents)
        files = []
        # file names in an order that is neither alphabetical nor reverse alphabetical
        order = ["m", "z", "b", "q", "a", "k", "x", "c", "y", "d", "w", "e"]
        for i, c in enumerate(contents):
            fn = os.path.join(d, "%s_part.yaml" % order[i % len(order)] + ("" if i < len(order) else str(i)))
            with open(fn, "w", encoding="utf-8") as f:
                f.write(c)
            files.append(fn)
        if way == "file-str":
            arg = files[0]
        elif way == "file-path":
            arg = pathlib.Path(files[0])
        elif way == "file-tuple":
            arg = tuple(files)
        else:
            arg = list(files)
        r = env.call(Y.load_dcop_from_file, arg)
        if frame is not None and isinstance(arg, (list, tuple)):
            frame["before"], frame["after"] = list(files), list(arg)
        return r
    finally:
        shutil.rmtree(d, ignore_errors=True)


# ------------------------------------------------------------------ the equivalence oracle

def _same_value(a, b):
    """same python value including int-vs-str (a bool is not an int here)"""
    if isinstance(a, str) != isinstance(b, str) or isinstance(a, bool) != isinstance(b, bool):
        return False
    return a == b


def _num_eq(a, b):
    try:
        return bool(a == b)
    except Exception:  # noqa
        return False


def _assignments(variables):
    names = [v.name for v in variables]
    for vals in itertools.product(*[list(v.domain.values) for v in variables]):
        yield dict(zip(names, vals))


def prove_equivalent(env, orig, loaded, P="yaml", extra_computations=("unknown_comp",), tag=""):
    """the postcondition of C14: `loaded` is an equivalent DCOP to `orig`"""
    T = tag
    env.prove(P + ".result-is-a-dcop" + T, loaded is not None and hasattr(loaded, "variables") and hasattr(loaded, "constraints"),
              detail=lambda: repr(loaded))
    if loaded is None or not hasattr(loaded, "variables"):
        return
    env.prove(P + ".objective-preserved" + T, loaded.objective == orig.objective, detail=lambda: (orig.objective, loaded.objective))
    env.prove(P + ".name-preserved" + T, loaded.name == orig.name, detail=lambda: (orig.name, loaded.name))
    # ---- domains
    env.prove(P + ".domains.same-names" + T, set(loaded.domains) == set(orig.domains), detail=lambda: (sorted(orig.domains), sorted(loaded.domains)))
    for n, d in orig.domains.items():
        ld = loaded.domains.get(n)
        if ld is None:
            continue
        ov, lv = list(d.values), list(ld.values)
        env.prove(P + ".domains.same-values-in-order-incl-int-vs-str" + T,
                  len(ov) == len(lv) and all(_same_value(a, b) for a, b in zip(ov, lv)), detail=lambda: (n, ov, lv))
        env.prove(P + ".domains.same-type" + T, ld.type == d.type and ld.name == n, detail=lambda: (n, d.type, ld.type))
    # ---- variables
    env.prove(P + ".variables.same-names" + T, set(loaded.variables) == set(orig.variables),
              detail=lambda: (sorted(orig.variables), sorted(loaded.variables)))
    for n, v in orig.variables.items():
        lv_ = loaded.variables.get(n)
        if lv_ is None:
            continue
        env.prove(P + ".variables.same-domain" + T, lv_.domain.name == v.domain.name and
                  [(_x, type(_x).__name__) for _x in lv_.domain.values] == [(_x, type(_x).__name__) for _x in v.domain.values],
                  detail=lambda: (n, v.domain, lv_.domain))
        oi, li = v.initial_value, lv_.initial_value
        env.prove(P + ".variables.same-initial-value-incl-0-and-none" + T,
                  (oi is None and li is None) or (oi is not None and li is not None and _same_value(oi, li)),
                  detail=lambda: (n, oi, li))
    # ---- constraints
    env.prove(P + ".constraints.same-names" + T, set(loaded.constraints) == set(orig.constraints),
              detail=lambda: (sorted(orig.constraints), sorted(loaded.constraints)))
    for n, c in orig.constraints.items():
        lc = loaded.constraints.get(n)
        if lc is None:
            continue
        oscope = [v.name for v in c.dimensions]
        lscope = [v.name for v in lc.dimensions]
        env.prove(P + ".constraints.same-scope" + T, sorted(oscope) == sorted(lscope), detail=lambda: (n, oscope, lscope))
        if sorted(oscope) != sorted(lscope):
            continue
        for asg in _assignments(c.dimensions):
            exp = c(**asg)
            got = env.call(lambda: lc(**asg))
            if isinstance(got, Raised):
                env.prove(P + ".constraints.loaded-constraint-evaluates" + T, False, detail=lambda: (n, asg, got.tb))
                break
            env.prove(P + ".constraints.same-value-on-every-assignment" + T, _num_eq(got, exp), detail=lambda: (n, asg, exp, got))
    # ---- agents
    env.prove(P + ".agents.same-names" + T, set(loaded.agents) == set(orig.agents), detail=lambda: (sorted(orig.agents), sorted(loaded.agents)))
    others = list(orig.agents) + ["unknown_agent"]
    comps = list(orig.variables) + list(orig.constraints) + list(extra_computations)
    for n, a in orig.agents.items():
        la = loaded.agents.get(n)
        if la is None:
            continue
        ocap = a.extra_attr().get("capacity", _NOCAP)
        lcap = la.extra_attr().get("capacity", _NOCAP)
        env.prove(P + ".agents.same-capacity" + T, _num_eq(ocap, lcap) and isinstance(ocap, str) == isinstance(lcap, str),
                  detail=lambda: (n, ocap, lcap))
        for o in others:
            er, gr = a.route(o), la.route(o)
            env.prove(P + ".agents.same-route-cost-to-every-agent" + T, _num_eq(er, gr), detail=lambda: (n, o, er, gr))
        for cpt in comps:
            eh, gh = a.hosting_cost(cpt), la.hosting_cost(cpt)
            env.prove(P + ".agents.same-hosting-cost-for-every-computation" + T, _num_eq(eh, gh), detail=lambda: (n, cpt, eh, gh))


# ------------------------------------------------------------------ frame: what a caller observes of a DCOP

def _tv(x):
    """a value with the distinctions the round trip must keep (str / bool / None / number)"""
    if x is None:
        return ("none",)
    if isinstance(x, bool):
        return ("bool", x)
    if isinstance(x, str):
        return ("str", x)
    return ("num", x)


def _guard(f):
    """an observation that fails is an observation (it differs from the one taken before the call)"""
    try:
        return f()
    except Exception as e:  # noqa
        return ("observation-raised", type(e).__name__, str(e)[:200])


def _observe_agents(agents, others, comps):
    """name -> capacity, route cost to every agent, hosting cost of every computation (asked in that order)"""
    out = []
    for a in agents:
        out.append((a.name, _tv(a.extra_attr().get("capacity", _NOCAP)),
                    tuple(a.route(o) for o in others), tuple(a.hosting_cost(c) for c in comps)))
    return sorted(out)


def _observe_dcop(dcop, others, comps):
    """A DCOP as seen through the public API, by section; no object identity, no order of declaration: the
    observation of a DCOP before a call is comparable to the one after the call *and* to the one of a DCOP
    loaded from its dump.  `others` / `comps`: the agents / computations the agents are asked about."""
    def constraint(c):
        dims = sorted(c.dimensions, key=lambda v: v.name)
        names = [v.name for v in dims]
        return (c.name, tuple(names),
                tuple(c(**dict(zip(names, vals))) for vals in itertools.product(*[list(v.domain.values) for v in dims])))
    return {
        "name-and-objective": _guard(lambda: (dcop.name, dcop.objective)),
        "domains": _guard(lambda: sorted((n, d.name, d.type, tuple(_tv(x) for x in d.values)) for n, d in dcop.domains.items())),
        "variables": _guard(lambda: sorted((n, v.name, v.domain.name, tuple(_tv(x) for x in v.domain.values), _tv(v.initial_value))
                                           for n, v in dcop.variables.items())),
        "constraints-on-every-assignment": _guard(lambda: sorted((n,) + constraint(c) for n, c in dcop.constraints.items())),
        "agents-capacity-routes-and-hosting-costs": _guard(lambda: sorted(
            (n,) + o for n, a in dcop.agents.items() for o in _observe_agents([a], others, comps))),
    }


def _identity_dcop(dcop):
    """the objects a DCOP is made of, in the order the caller put them in"""
    return _guard(lambda: tuple(tuple((k, id(v)) for k, v in d.items())
                                for d in (dcop.domains, dcop.variables, dcop.constraints, dcop.agents)))


def _tables(tables):
    return [(n, sorted(r.items()), sorted(h.items())) for n, r, h in tables]


def _shared_tables_probe(env, spec):
    """frame of AgentDef.route / AgentDef.hosting_cost: agent definitions are commonly built on one route table and
    one hosting-cost table (the same dict objects for all agents, different defaults).  Asking one agent must not
    change what the next one answers, nor the tables.  Oracle: the tables as written here."""
    from pydcop.dcop.objects import AgentDef
    comps = [v[0] for v in spec["variables"]] + [c[0] for c in spec["constraints"]] + ["unknown_comp"]
    names = ["a10", "a2", "b1"]
    routes = {"a2": 3, "b1": 0}
    hc = {comps[0]: 7, comps[-2]: 0}
    r0, h0 = dict(routes), dict(hc)
    defaults = {"a10": (2, 4.5), "a2": (5.5, 0), "b1": (0, 6)}      # name -> default route, default hosting cost
    agts = {n: AgentDef(n, default_route=defaults[n][0], routes=routes, default_hosting_cost=defaults[n][1], hosting_costs=hc)
            for n in names}
    bad = []
    for rnd in (1, 2):                                   # every question twice, agents interleaved
        for c in comps:
            for n in (names if rnd == 1 else names[::-1]):
                got = env.call(agts[n].hosting_cost, c)
                exp = h0.get(c, defaults[n][1])
                if isinstance(got, Raised) or not _num_eq(got, exp):
                    bad.append(("hosting_cost", rnd, n, c, exp, got))
        for o in names + ["unknown_agent"]:
            for n in (names if rnd == 1 else names[::-1]):
                got = env.call(agts[n].route, o)
                exp = 0 if o == n else r0.get(o, defaults[n][0])
                if isinstance(got, Raised) or not _num_eq(got, exp):
                    bad.append(("route", rnd, n, o, exp, got))
    env.prove("yaml.frame.agents-built-on-the-same-tables-each-answer-from-the-tables-and-their-own-defaults", not bad,
              detail=lambda: bad[:6])
    env.prove("yaml.frame.tables-shared-by-several-agents-unchanged-by-route-and-hosting_cost", routes == r0 and hc == h0,
              detail=lambda: (r0, routes, h0, hc))


# ------------------------------------------------------------------ the C14 harness

def _choose_spec(env):
    p = env.params
    focus = p["focus"]
    if focus == "domains":
        return _base_spec(objective=env.choice("objective", ["min", "max"]),
                          intdom=env.choice("intdom", p["intdoms"]), strdom=env.choice("strdom", p["strdoms"]),
                          dtype=env.choice("domain_type", ["", "colour"]),
                          init=env.choice("initial_values", ["none", "first", "falsy", "last"]))
    if focus == "constraints":
        k1 = env.choice("kind1", p.get("kinds", _ALL_KINDS))
        s1 = env.choice("scope1", p.get("scopes", [["x2"], ["x10"], ["x2", "a"], ["x10", "x2"], ["x2", "x10", "a"]]))
        k2 = env.choice("kind2", p.get("kinds2", _ALL_KINDS))
        cons = [("c_b", k1, list(s1)), ("c_a", k2, ["a", "x10"])]
        return _base_spec(constraints=cons, strdom=p.get("strdom", "s2"), init="falsy")
    if focus == "agents":
        n = env.choice("n_agents", p.get("n_agents", [0, 1, 2, 3]))
        base = _base_spec()
        comps = [v[0] for v in base["variables"]] + [c[0] for c in base["constraints"]]
        if n == 0:
            ag = []
        else:
            ag = _agents_spec(n, env.choice("capacity", p.get("capacities", ["none", "int", "zero-float"])),
                              env.choice("routes", p.get("routes", ["none", "one-pair", "full", "zero-cost"])),
                              env.choice("hosting", ["none", "default-only", "specific-only", "both", "zero-specific"]), comps)
        return _base_spec(agents=ag, default_route=env.choice("default_route", p.get("default_routes", [1, 0, 5.5])))
    if focus == "files":
        which = env.choice("dcop", ["base", "three-agents", "no-agents"])
        if which == "base":
            return _base_spec(init="falsy")
        base = _base_spec()
        comps = [v[0] for v in base["variables"]] + [c[0] for c in base["constraints"]]
        if which == "three-agents":
            return _base_spec(objective="max", strdom="sdigit", init="last",
                              agents=_agents_spec(3, "zero-float", "full", "both", comps), default_route=5.5)
        return _base_spec(agents=[])
    if focus == "single-value-domain":
        return _base_spec(intdom=env.choice("intdom", p["intdoms"]), strdom=env.choice("strdom", p["strdoms"]),
                          init=env.choice("initial_values", ["none", "first"]))
    if focus == "random":
        lo, hi = p["seeds"]
        return _random_spec(env.choice("spec_seed", list(range(lo, hi))))
    raise ValueError(focus)


def h_yaml_roundtrip(env):
    p = env.params
    Y = env.call(importlib.import_module, "pydcop.dcop.yamldcop")
    if isinstance(Y, Raised):
        env.prove("yaml.module-imports", False, detail=lambda: Y.tb)
        return
    spec = _choose_spec(env)
    if p["focus"] == "random":
        way = _random.Random(spec["name"]).choice(list(p["ways"]))
    else:
        way = env.choice("read_back", p["ways"])
    tables = []
    dcop, dcop_noagents, agents = _build(spec, tables)
    tag = p.get("tag", "")
    # frame: everything the functions under contract are handed, observed before the first call
    f_others = [a["name"] for a in spec["agents"]] + ["unknown_agent"]
    f_comps = [v[0] for v in spec["variables"]] + [c[0] for c in spec["constraints"]] + ["unknown_comp"]
    f_tables = _tables(tables)          # first: asking the agents is a use of these tables
    f_obs = {"": _observe_dcop(dcop, f_others, f_comps)}
    f_ids = {"": _identity_dcop(dcop)}
    f_agents = list(agents)
    f_files = {}
    if way == "agents-file":
        f_obs["[dcop-without-agents]"] = _observe_dcop(dcop_noagents, f_others, f_comps)
        f_ids["[dcop-without-agents]"] = _identity_dcop(dcop_noagents)
    text = env.call(Y.dcop_yaml, dcop)
    if isinstance(text, Raised):
        env.prove("yaml.dump.no-raise" + tag, False, detail=lambda: (spec, text.tb))
        return
    env.prove("yaml.dump.returns-text" + tag, isinstance(text, str) and len(text) > 0)
    text_noagents = text_agents = None
    if way == "agents-file":
        text_noagents = env.call(Y.dcop_yaml, dcop_noagents)
        text_agents = env.call(Y.yaml_agents, agents)
        if isinstance(text_noagents, Raised) or isinstance(text_agents, Raised):
            env.prove("yaml.dump.no-raise" + tag, False, detail=lambda: (spec, text_noagents, text_agents))
            return
    loaded = _read_back(env, Y, way, text, text_noagents, text_agents, frame=f_files)
    kind = "from-string" if way == "string" else ("from-one-file" if way in _FILE_WAYS_1 else "from-several-files")
    if isinstance(loaded, Raised):
        env.prove("yaml.load.%s.no-raise%s" % (kind, "[filename-given-as-str]" if way == "file-str" else "") + tag, False,
                  detail=lambda: dict(way=way, error=loaded.tb, yaml=text))
        return
    env.cover("post")
    env.cover(kind)
    prove_equivalent(env, dcop, loaded, "yaml", tag=tag)

    # ---- frame obligations (dcop_yaml / yaml_agents / load_dcop_from_file only read what they are given;
    #      AgentDef.route / hosting_cost only read the tables the agent definition was built on)
    # the same DCOP dumped a second time is the same problem: the same text, or a text that loads to a DCOP a
    # caller cannot tell from the original as it was before the first dump
    # (a dump costs a third of a path: made on the paths that read back from the string, where agents vary)
    if way == "string" and p["focus"] not in ("constraints", "domains"):
        text2 = env.call(Y.dcop_yaml, dcop)
        if isinstance(text2, Raised):
            env.prove("yaml.frame.second-dump-of-the-same-dcop-does-not-raise", False, detail=lambda: (spec, text2.tb))
        elif text2 != text:
            again = env.call(Y.load_dcop, text2)
            obs2 = None if isinstance(again, Raised) else _observe_dcop(again, f_others, f_comps)
            env.prove("yaml.frame.second-dump-of-the-same-dcop-describes-the-same-problem", obs2 == f_obs[""],
                      detail=lambda: dict(first=text, second=text2, loaded=again if isinstance(again, Raised) else obs2))
        else:
            env.prove("yaml.frame.second-dump-of-the-same-dcop-describes-the-same-problem", True)
    for which, d in (("", dcop), ("[dcop-without-agents]", dcop_noagents)):
        if which not in f_obs:
            continue
        env.prove("yaml.frame.dumped-dcop-holds-the-same-objects-in-the-same-order" + which, _identity_dcop(d) == f_ids[which],
                  detail=lambda: (spec, which))
        after = _observe_dcop(d, f_others, f_comps)
        for section, b in f_obs[which].items():
            a = after[section]
            env.prove("yaml.frame.dumped-dcop-unchanged.%s%s" % (section, which), a == b, detail=lambda: (section, "before", b, "after", a))
    env.prove("yaml.frame.list-of-agents-given-to-yaml_agents-unchanged",
              len(agents) == len(f_agents) and all(x is y for x, y in zip(agents, f_agents)),
              detail=lambda: (f_agents, agents))
    now_tables = _guard(lambda: _tables(tables))
    env.prove("yaml.frame.route-and-hosting-cost-tables-handed-to-agentdef-unchanged", now_tables == f_tables,
              detail=lambda: ("before", f_tables, "after", now_tables))
    if "before" in f_files:
        env.prove("yaml.frame.file-names-given-to-load_dcop_from_file-unchanged", f_files["after"] == f_files["before"],
                  detail=lambda: f_files)
    # the loaded agents asked a second time (the first time: prove_equivalent) answer like the original did
    # before anything was called
    if hasattr(loaded, "agents") and set(loaded.agents) == set(dcop.agents):
        again = _guard(lambda: sorted((n,) + o for n, a in loaded.agents.items() for o in _observe_agents([a], f_others, f_comps)))
        exp = f_obs[""]["agents-capacity-routes-and-hosting-costs"]
        env.prove("yaml.frame.loaded-agents-asked-a-second-time-answer-the-same" + tag, again == exp, detail=lambda: (exp, again))
    if p["focus"] == "agents":
        _shared_tables_probe(env, spec)


_WAYS_CORE = ["string", "file-list", "agents-file"]
_WAYS_FILES = ["string", "file-list", "file-tuple", "file-path", "agents-file", "sections-2", "sections-all", "midline-2", "midline-3"]


def _yaml_shapes(tier):
    shapes = [
        dict(focus="domains", intdoms=["i3", "i2", "ineg"], strdoms=["s2", "s3", "sdigit", "syaml"], ways=["string", "agents-file"]),
        dict(focus="constraints", ways=["string"]),
        dict(focus="constraints", ways=["file-list"], kinds2=["mfloat", "expr1"], strdom="sdigit"),
        dict(focus="agents", ways=["string"]),
        dict(focus="agents", ways=["agents-file"], n_agents=[2, 3], capacities=["none", "zero-float"], routes=["full", "zero-cost"],
             default_routes=[0, 5.5]),
        dict(focus="files", ways=_WAYS_FILES),
        dict(focus="random", seeds=(0, 150), ways=_WAYS_FILES),
        # isolated: each of the two shapes below exhibits one specific case
        dict(focus="files", ways=["file-str"], tag=""),
        dict(focus="single-value-domain", intdoms=["i1"], strdoms=["s2", "s1"], ways=["string"], tag="[single-int-value-domain]"),
        dict(focus="single-value-domain", intdoms=["i3"], strdoms=["s1"], ways=["string", "file-list"]),
    ]
    if tier == "thorough":
        shapes += [dict(focus="random", seeds=(150 + 400 * k, 150 + 400 * (k + 1)), ways=_WAYS_FILES) for k in range(8)]
        shapes += [dict(focus="constraints", ways=["agents-file", "midline-2"], strdom="syaml"),
                   dict(focus="domains", intdoms=["i3", "i2", "ineg"], strdoms=["s2", "s3", "sdigit", "syaml"], ways=["file-list", "midline-3"]),
                   dict(focus="agents", ways=["sections-all", "file-path"])]
    return shapes


Contract(
    "yaml.roundtrip", ["C14"],
    ["pydcop.dcop.yamldcop:dcop_yaml", "pydcop.dcop.yamldcop:_yaml_domains", "pydcop.dcop.yamldcop:_yaml_variables",
     "pydcop.dcop.yamldcop:_yaml_constraints", "pydcop.dcop.yamldcop:yaml_agents",
     "pydcop.dcop.yamldcop:load_dcop_from_file", "pydcop.dcop.yamldcop:load_dcop",
     "pydcop.dcop.yamldcop:_build_domains", "pydcop.dcop.yamldcop:_build_variables",
     "pydcop.dcop.yamldcop:_build_constraints", "pydcop.dcop.yamldcop:_build_agents",
     "pydcop.dcop.objects:AgentDef.route", "pydcop.dcop.objects:AgentDef.hosting_cost",
     "pydcop.dcop.objects:Domain.to_domain_value"],
    h_yaml_roundtrip, _yaml_shapes, mode="E", must_cover=["post", "from-string", "from-one-file", "from-several-files"],
    trusted=["PyYAML dump/load (FullLoader) round-trips python str/int/float/dict/list faithfully",
             "the original DCOP built with the public API (DCOP, Domain, Variable, constraint_from_str, NAryMatrixRelation, "
             "NAryFunctionRelation, AgentDef) is the reference of the comparison"],
    assumptions=["C14: variables are plain Variables (no cost function), no external variables, no 0-ary constraints, "
                 "symmetric route tables, one default route for all agents, str domain values without blanks or '|'"],
    budget=dict(quick=dict(max_paths=20000, timeout_s=200), thorough=dict(max_paths=200000, timeout_s=1500)),
    desc="dcop_yaml then load_dcop / load_dcop_from_file (1..n files) gives an equivalent DCOP: objective, domains (values incl. "
         "int vs str), variables (domain, initial value), every constraint on every assignment, agents' capacity/route/hosting costs",
)


# =====================================================================================
#                                   C30  - generators
# =====================================================================================

class _RecRandom:
    """stands for the ``random`` module inside a generator module: same generator, records randint draws"""

    def __init__(self, real):
        self._real = real
        self.randints = []

    def randint(self, a, b):
        v = self._real.randint(a, b)
        self.randints.append(v)
        return v

    def __getattr__(self, name):
        return getattr(self._real, name)


@contextlib.contextmanager
def _observed(module, names, store, replace=None, snap=None, snaps=None):
    """wrap module-level functions so that their results are recorded (behaviour unchanged).
    snap / snaps: snaps[name] receives snap(result) taken when the function returns (frame obligations: the
    result is later handed to other functions of the module, which only read it)"""
    saved = {}
    try:
        for n in names:
            saved[n] = getattr(module, n)

            def mk(f, key):
                def w(*a, **kw):
                    r = f(*a, **kw)
                    store.setdefault(key, []).append((a, r))
                    if snap is not None and snaps is not None:
                        snaps.setdefault(key, []).append(snap(r))
                    return r
                return w
            setattr(module, n, mk(saved[n], n))
        for n, v in (replace or {}).items():
            saved[n] = getattr(module, n)
            setattr(module, n, v)
        yield
    finally:
        for n, v in saved.items():
            setattr(module, n, v)


def _args_seen(ns):
    """the parsed arguments as their owner sees them (lists by content)"""
    return {k: (list(v) if isinstance(v, list) else v) for k, v in vars(ns).items()}


def _prove_args_unchanged(env, label, frame, args):
    """frame of the command functions: `args` (an argparse Namespace, mutable; its lists too) belongs to the caller"""
    env.prove(label, "after" in frame and frame["after"] == frame["before"], detail=lambda: (args, frame))


def _run_command(env, fn, ns, out, frame=None):
    """call a generator command; returns (Raised | None, produced text, extra files {suffix: text}).
    frame: a dict that receives the arguments as they were just before the call and as they are just after"""
    extra = {}
    frame = {} if frame is None else frame
    if out == "stdout":
        ns.output = None
        buf = io.StringIO()
        frame["before"] = _args_seen(ns)
        with contextlib.redirect_stdout(buf):
            r = env.call(fn, ns)
        frame["after"] = _args_seen(ns)
        return (r if isinstance(r, Raised) else None), buf.getvalue(), extra
    d = _tmpdir()
    try:
        ns.output = os.path.join(d, "gen_out.yaml")
        buf = io.StringIO()
        frame["before"] = _args_seen(ns)
        with contextlib.redirect_stdout(buf):
            r = env.call(fn, ns)
        frame["after"] = _args_seen(ns)
        text = None
        if os.path.exists(ns.output):
            with open(ns.output, encoding="utf-8") as f:
                text = f.read()
        for fn_ in os.listdir(d):
            if fn_ != "gen_out.yaml":
                with open(os.path.join(d, fn_), encoding="utf-8") as f:
                    extra[fn_] = f.read()
        return (r if isinstance(r, Raised) else None), text, extra
    finally:
        shutil.rmtree(d, ignore_errors=True)


# ------------------------------------------------------------------ graph colouring

def h_graphcoloring(env):
    p = env.params
    G = env.call(importlib.import_module, "pydcop.commands.generators.graphcoloring")
    Y = env.call(importlib.import_module, "pydcop.dcop.yamldcop")
    if isinstance(G, Raised) or isinstance(Y, Raised):
        env.prove("graphcoloring.module-imports", False, detail=lambda: (G, Y))
        return
    import networkx as nx
    kind = p["graph"]
    n = env.choice("variables_count", p["counts"])
    k = env.choice("colors_count", p["colors"])
    form = env.choice("problem", ["hard-extensive", "hard-intentional", "soft"])
    soft, intentional = form == "soft", form == "hard-intentional"
    noagents = env.choice("noagents", [False, True])
    allow_sub = env.choice("allow_subgraph", [False, True]) if kind != "grid" else False
    p_edge = m_edge = None
    if kind == "random":
        p_edge = env.choice("p_edge", p["p_edges"])
    if kind == "scalefree":
        ms = [m for m in p["m_edges"] if m < n]
        if not ms:
            env.assume(False)
        m_edge = env.choice("m_edge", ms)
    seed = env.choice("seed", p["seeds"])
    out = env.choice("output", p.get("outputs", ["stdout", "file"]))
    ns = Namespace(variables_count=n, colors_count=k, graph=kind, allow_subgraph=allow_sub, soft=soft,
                   intentional=intentional, noagents=noagents, p_edge=p_edge, m_edge=m_edge, output=None)
    store = {}
    rec = _RecRandom(_random)
    _random.seed(seed)
    f_args, f_graphs = {}, {}

    def graph_seen(r):      # the generated graph when it is returned (frame); dcop_yaml's result is a text
        return (sorted(r.nodes), sorted(tuple(sorted(e)) for e in r.edges)) if hasattr(r, "edges") else None
    with _observed(G, ["generate_random_graph", "generate_scalefree_graph", "generate_grid_graph", "dcop_yaml"], store,
                   replace={"random": rec}, snap=graph_seen, snaps=f_graphs):
        err, text, _ = _run_command(env, G.generate, ns, out, frame=f_args)
    args = dict(vars(ns), seed=seed, output=out)
    if err is not None:
        env.prove("graphcoloring.no-raise-on-valid-arguments", False, detail=lambda: (args, err.tb))
        return
    graphs = [r for key in store if key != "dcop_yaml" for (_, r) in store[key]]
    dcops = [a[0] for (a, _) in store.get("dcop_yaml", [])]
    if len(graphs) != 1 or len(dcops) != 1:
        env.prove("graphcoloring.one-graph-one-dcop-generated", False, detail=lambda: (args, len(graphs), len(dcops)))
        return
    graph, dcop = graphs[0], dcops[0]
    env.cover("post")
    colors = list(G.COLORS[:k])
    # ---- requested variables and colours
    env.prove("graphcoloring.variables.requested-count", len(dcop.variables) == n == graph.number_of_nodes(),
              detail=lambda: (args, sorted(dcop.variables), graph.number_of_nodes()))
    env.prove("graphcoloring.variables.keyed-by-their-name", all(v.name == key for key, v in dcop.variables.items()))
    env.prove("graphcoloring.colours.requested-count-of-distinct-colours", len(set(colors)) == k and
              all(list(v.domain.values) == colors for v in dcop.variables.values()),
              detail=lambda: (args, {v.name: list(v.domain.values) for v in dcop.variables.values()}))
    env.prove("graphcoloring.colours.domain-declared-in-dcop",
              all(dcop.domains.get(v.domain.name) == v.domain for v in dcop.variables.values()), detail=lambda: dcop.domains)
    # ---- exactly one constraint per edge
    pairs = []
    ok_scopes = True
    for c in dcop.constraints.values():
        names = [v.name for v in c.dimensions]
        if len(names) != 2 or names[0] == names[1] or any(x not in dcop.variables for x in names):
            ok_scopes = False
        pairs.append(frozenset(names))
    env.prove("graphcoloring.constraints.binary-over-two-distinct-variables", ok_scopes, detail=lambda: (args, pairs))
    env.prove("graphcoloring.constraints.keyed-by-their-name", all(c.name == key for key, c in dcop.constraints.items()))
    env.prove("graphcoloring.constraints.exactly-one-per-graph-edge[count]",
              len(pairs) == len(set(pairs)) == graph.number_of_edges(),
              detail=lambda: (args, len(pairs), len(set(pairs)), graph.number_of_edges()))
    if ok_scopes:
        cg = nx.Graph()
        cg.add_nodes_from(dcop.variables)
        cg.add_edges_from([tuple(pr) for pr in pairs])
        env.prove("graphcoloring.constraints.exactly-one-per-graph-edge[same-graph-structure]",
                  nx.is_isomorphic(graph, cg), detail=lambda: (args, sorted(graph.edges), sorted(cg.edges)))
        # ---- hard / soft as requested
        cells = []
        for c in dcop.constraints.values():
            n1, n2 = [v.name for v in c.dimensions]
            for a in colors:
                for b in colors:
                    val = env.call(lambda: c(**{n1: a, n2: b}))
                    if isinstance(val, Raised):
                        env.prove("graphcoloring.constraints.evaluate", False, detail=lambda: (args, c.name, val.tb))
                        return
                    cells.append(val)
                    if not soft:
                        if a == b:
                            env.prove("graphcoloring.hard.same-colour-is-penalised", val > 0 and math.isfinite(val),
                                      detail=lambda: (args, c.name, a, b, val))
                        else:
                            env.prove("graphcoloring.hard.different-colours-cost-nothing", val == 0, detail=lambda: (args, c.name, a, b, val))
            if not soft:
                env.prove("graphcoloring.hard.form-as-requested", hasattr(c, "expression") == intentional, detail=lambda: (args, c))
            else:
                env.prove("graphcoloring.soft.expressed-extensively", not hasattr(c, "expression"), detail=lambda: (args, c))
        if soft:
            env.cover("soft")
            env.prove("graphcoloring.soft.every-joint-assignment-of-every-edge-has-its-own-random-cost",
                      sorted(cells) == sorted(rec.randints) and len(cells) == graph.number_of_edges() * k * k,
                      detail=lambda: (args, sorted(cells), sorted(rec.randints)))
        else:
            env.cover("hard")
    # ---- agents
    env.prove("graphcoloring.agents.one-per-variable-unless-noagents",
              len(dcop.agents) == (0 if noagents else n) and all(a.name == key for key, a in dcop.agents.items()),
              detail=lambda: (args, sorted(dcop.agents)))
    # ---- what is written is the generated problem
    env.prove("graphcoloring.output.written", isinstance(text, str) and len(text) > 0, detail=lambda: (args, text))
    if isinstance(text, str) and text:
        loaded = env.call(Y.load_dcop, text)
        if isinstance(loaded, Raised):
            env.prove("graphcoloring.output.is-a-loadable-dcop-yaml", False, detail=lambda: (args, loaded.tb, text[:600]))
            return
        prove_equivalent(env, dcop, loaded, "graphcoloring.output", extra_computations=())
    # ---- frame: the command does not write into its arguments; generate_hard_constraints / generate_soft_constraints
    #      only read the graph they are given (it is compared to the constraints above: it must still be the generated one)
    _prove_args_unchanged(env, "graphcoloring.frame.args-unchanged", f_args, args)
    seen = [x for key in f_graphs if key != "dcop_yaml" for x in f_graphs[key]]
    env.prove("graphcoloring.frame.generated-graph-unchanged-by-the-generation-of-variables-and-constraints",
              len(seen) == 1 and _guard(lambda: graph_seen(graph)) == seen[0], detail=lambda: (args, seen, graph_seen(graph)))


def _gc_shapes(tier):
    big = tier == "thorough"
    outs = ["stdout", "file"] if big else ["stdout"]
    return [
        dict(graph="random", counts=[1, 3, 5] + ([2, 9, 12] if big else []), colors=[1, 2, 3] + ([8] if big else []),
             p_edges=[0.4, 1.0] + ([0.7] if big else []), seeds=[0, 1] + ([2, 3, 4, 5] if big else []), outputs=outs),
        dict(graph="grid", counts=[1, 4, 9] + ([16, 25] if big else []), colors=[1, 2, 3] + ([8] if big else []),
             seeds=[0, 1] + ([2, 3] if big else []), outputs=outs),
        dict(graph="scalefree", counts=[2, 3, 5] + ([8, 12] if big else []), colors=[2, 3] + ([1, 8] if big else []),
             m_edges=[1, 2] + ([4] if big else []), seeds=[0, 1] + ([2, 3, 4, 5] if big else []), outputs=outs),
        # --output <file> instead of the standard output
        dict(graph="random", counts=[4], colors=[2], p_edges=[0.6], seeds=[3], outputs=["file"]),
        dict(graph="grid", counts=[4], colors=[3], seeds=[3], outputs=["file"]),
    ]


Contract(
    "generators.graphcoloring", ["C30"],
    ["pydcop.commands.generators.graphcoloring:generate", "pydcop.commands.generators.graphcoloring:generate_random_graph",
     "pydcop.commands.generators.graphcoloring:generate_scalefree_graph", "pydcop.commands.generators.graphcoloring:generate_grid_graph",
     "pydcop.commands.generators.graphcoloring:generate_hard_constraints", "pydcop.commands.generators.graphcoloring:generate_soft_constraints"],
    h_graphcoloring, _gc_shapes, mode="E", must_cover=["post", "hard", "soft"],
    trusted=["networkx graph generators and is_isomorphic", "module-level functions wrapped only to record their results; "
             "the module's `random` replaced by a recording proxy of the same generator",
             "PyYAML; yamldcop.load_dcop for the written output (contract yaml.roundtrip, C14)"],
    assumptions=["C30 graph colouring: valid arguments = 1 <= colours <= 8, p_edge in (0,1], 1 <= m_edge < variables, square "
                 "variables_count for grids, soft problems are not intentional"],
    budget=dict(quick=dict(max_paths=20000, timeout_s=200), thorough=dict(max_paths=200000, timeout_s=1500)),
    desc="generate(args): n variables over the first k colours, exactly one binary constraint per edge of the generated graph, "
         "hard (same colour penalised, else 0; intentional or extensive) or soft (one random cost per joint assignment), written YAML loads to the same DCOP",
)


# ------------------------------------------------------------------ ising

def _hosted_once(mapping, computations):
    """every computation appears exactly once in the mapping's lists, and nothing else does"""
    if not isinstance(mapping, dict):
        return False
    hosted = [c for lst in mapping.values() for c in lst]
    return sorted(hosted) == sorted(computations)


def h_ising(env):
    p = env.params
    I = env.call(importlib.import_module, "pydcop.commands.generators.ising")
    if isinstance(I, Raised):
        env.prove("ising.module-imports", False, detail=lambda: I.tb)
        return
    rows = env.choice("row_count", p["rows"])
    cols = env.choice("col_count", p["cols"])
    bin_range = env.choice("bin_range", p.get("bin_ranges", [1.6]))
    un_range = env.choice("un_range", p.get("un_ranges", [0.05]))
    no_agents = env.choice("no_agents", [False, True])
    dists = env.choice("dists", ["both", "fg", "var"])
    fg_dist, var_dist = dists in ("both", "fg"), dists in ("both", "var")
    seed = env.choice("seed", p["seeds"])
    tag = p.get("tag", "")
    args = dict(rows=rows, cols=cols, bin_range=bin_range, un_range=un_range, no_agents=no_agents, fg_dist=fg_dist, var_dist=var_dist, seed=seed)
    res = {}
    for extensive in (True, False):
        _random.seed(seed)
        r = env.call(I.generate_ising, rows, cols, bin_range, un_range, extensive, no_agents, fg_dist, var_dist)
        if isinstance(r, Raised):
            env.prove("ising.no-raise-on-valid-arguments" + tag, False, detail=lambda: (args, extensive, r.tb))
            return
        res[extensive] = r
    env.cover("post")
    (de, vme, fme), (di, vmi, fmi) = res[True], res[False]
    # ---- the two forms agree
    env.prove("ising.forms.same-variables-and-domains" + tag,
              set(de.variables) == set(di.variables) and all(di.variables[n].domain == v.domain for n, v in de.variables.items() if n in di.variables),
              detail=lambda: (args, sorted(de.variables), sorted(di.variables)))
    env.prove("ising.forms.same-constraint-names" + tag, set(de.constraints) == set(di.constraints),
              detail=lambda: (args, sorted(de.constraints), sorted(di.constraints)))
    for n, ce in de.constraints.items():
        ci = di.constraints.get(n)
        if ci is None:
            continue
        se, si = sorted(v.name for v in ce.dimensions), sorted(v.name for v in ci.dimensions)
        env.prove("ising.forms.same-scope" + tag, se == si, detail=lambda: (args, n, se, si))
        if se != si:
            continue
        env.prove("ising.forms.form-as-requested" + tag, hasattr(ci, "expression") and not hasattr(ce, "expression"), detail=lambda: (ce, ci))
        for asg in _assignments(ce.dimensions):
            ve = env.call(lambda: ce(**asg))
            vi = env.call(lambda: ci(**asg))
            if isinstance(ve, Raised) or isinstance(vi, Raised):
                env.prove("ising.forms.constraints-evaluate" + tag, False, detail=lambda: (args, n, asg, ve, vi))
                break
            env.prove("ising.forms.intentional-and-extensive-values-agree-on-every-assignment" + tag,
                      abs(ve - vi) <= 1e-12 * max(1.0, abs(ve)), detail=lambda: (args, n, asg, ve, vi))
    # ---- distributions
    for form, (d, vm, fm) in (("extensive", res[True]), ("intentional", res[False])):
        if var_dist:
            env.cover("var_dist")
            env.prove("ising.var-dist.hosts-each-variable-exactly-once" + tag, _hosted_once(vm, list(d.variables)),
                      detail=lambda: (args, form, vm))
            if not no_agents:
                env.prove("ising.var-dist.agents-are-agents-of-the-dcop" + tag, set(vm) <= set(d.agents), detail=lambda: (args, sorted(vm), sorted(d.agents)))
        if fg_dist:
            env.cover("fg_dist")
            env.prove("ising.fg-dist.hosts-each-variable-and-each-constraint-exactly-once" + tag,
                      _hosted_once(fm, list(d.variables) + list(d.constraints)), detail=lambda: (args, form, fm, sorted(d.constraints)))
            if not no_agents:
                env.prove("ising.fg-dist.agents-are-agents-of-the-dcop" + tag, set(fm) <= set(d.agents), detail=lambda: (args, sorted(fm), sorted(d.agents)))


def _ising_shapes(tier):
    big = tier == "thorough"
    return [
        dict(rows=[3, 4], cols=[3, 4] if not big else [3, 4, 5], seeds=[0, 1] + ([2, 3] if big else []),
             bin_ranges=[1.6, 0.0] if big else [1.6], un_ranges=[0.05, 2] if big else [0.05]),
        # grids with a side of 2: the smallest size of the quantifier, isolated
        dict(rows=[2], cols=[2, 3], seeds=[0], tag="[side-2]"),
        dict(rows=[3], cols=[2], seeds=[0], tag="[side-2]"),
        # indices of two digits (names sort differently as text and as numbers)
        dict(rows=[11], cols=[3], seeds=[0]),
        dict(rows=[3], cols=[12], seeds=[0]),
    ]


Contract(
    "generators.ising", ["C30"],
    ["pydcop.commands.generators.ising:generate_ising", "pydcop.commands.generators.ising:generate_binary_constraints",
     "pydcop.commands.generators.ising:generate_unary_constraints",
     "pydcop.commands.generators.ising:generate_binary_extensive_constraint", "pydcop.commands.generators.ising:generate_binary_intentional_constraint",
     "pydcop.commands.generators.ising:generate_unary_extensive_constraint", "pydcop.commands.generators.ising:generate_unary_intentional_constraint"],
    h_ising, _ising_shapes, mode="E", must_cover=["post", "var_dist", "fg_dist"],
    trusted=["random.seed makes the two generations draw the same weights", "networkx grid_2d_graph"],
    assumptions=["C30 ising: the intentional and the extensive form are compared for the same random draws (same seed)"],
    budget=dict(quick=dict(max_paths=20000, timeout_s=200), thorough=dict(max_paths=200000, timeout_s=1500)),
    desc="generate_ising: for the same draws the intentional and extensive constraints have the same value on every assignment; "
         "var mapping hosts each variable once, fg mapping hosts each variable and each constraint once",
)


def h_ising_command(env):
    p = env.params
    I = env.call(importlib.import_module, "pydcop.commands.generators.ising")
    Y = env.call(importlib.import_module, "pydcop.dcop.yamldcop")
    if isinstance(I, Raised) or isinstance(Y, Raised):
        env.prove("ising.command.module-imports", False, detail=lambda: (I, Y))
        return
    import yaml
    rows = env.choice("row_count", p["rows"])
    cols = env.choice("col_count", p["cols"])
    intentional = env.choice("intentional", [False, True])
    out = env.choice("output", ["file", "stdout"])
    # on stdout the two distributions would be two documents with the same keys: one at a time there
    dists = env.choice("dists", ["fg", "var", "none"] + (["both"] if out == "file" else []))
    fg_dist, var_dist = dists in ("both", "fg"), dists in ("both", "var")
    no_agents = env.choice("no_agents", [False, True])
    seed = env.choice("seed", p["seeds"])
    ns = Namespace(row_count=rows, col_count=cols, bin_range=1.6, un_range=0.05, intentional=intentional,
                   no_agents=no_agents, fg_dist=fg_dist, var_dist=var_dist, output=None)
    args = dict(vars(ns), seed=seed, output=out)
    store = {}
    _random.seed(seed)
    f_args = {}
    with _observed(I, ["generate_ising"], store):
        err, text, extra = _run_command(env, I.generate, ns, out, frame=f_args)
    if err is not None:
        env.prove("ising.command.no-raise-on-valid-arguments", False, detail=lambda: (args, err.tb))
        return
    if len(store.get("generate_ising", [])) != 1:
        env.prove("ising.command.generates-one-problem", False, detail=lambda: args)
        return
    dcop, vm, fm = store["generate_ising"][0][1]
    env.cover("post")
    env.prove("ising.command.output.written", isinstance(text, str) and len(text) > 0, detail=lambda: (args, text))
    if not (isinstance(text, str) and text):
        return
    loaded = env.call(Y.load_dcop, text)
    if isinstance(loaded, Raised):
        env.prove("ising.command.output.is-a-loadable-dcop-yaml[%s]" % out, False, detail=lambda: (args, loaded.tb, text[:400]))
        return
    prove_equivalent(env, dcop, loaded, "ising.command.output", extra_computations=())
    _prove_args_unchanged(env, "ising.command.frame.args-unchanged", f_args, args)      # frame
    vars_, cons = list(dcop.variables), list(dcop.constraints)
    if out == "file":
        docs = {}
        for fn, content in extra.items():
            docs[fn] = env.call(yaml.safe_load, content)
        exp_files = set((["gen_out_fgdist.yaml"] if fg_dist else []) + (["gen_out_vardist.yaml"] if var_dist else []))
        env.prove("ising.command.one-distribution-file-per-requested-distribution", set(docs) == exp_files, detail=lambda: (args, sorted(docs)))
        if fg_dist and isinstance(docs.get("gen_out_fgdist.yaml"), dict):
            dist = docs["gen_out_fgdist.yaml"].get("distribution")
            env.cover("fg")
            env.prove("ising.command.fg-dist.written-distribution-hosts-each-variable-and-constraint-exactly-once[file]",
                      _hosted_once(dist, vars_ + cons), detail=lambda: (args, dist))
        if var_dist and isinstance(docs.get("gen_out_vardist.yaml"), dict):
            dist = docs["gen_out_vardist.yaml"].get("distribution")
            env.cover("var")
            env.prove("ising.command.var-dist.written-distribution-hosts-each-variable-exactly-once[file]",
                      _hosted_once(dist, vars_), detail=lambda: (args, dist))
    elif fg_dist or var_dist:
        doc = env.call(yaml.safe_load, text)
        dist = doc.get("distribution") if isinstance(doc, dict) else None
        if fg_dist:
            env.cover("fg")
            env.prove("ising.command.fg-dist.printed-distribution-hosts-each-variable-and-constraint-exactly-once[stdout]",
                      _hosted_once(dist, vars_ + cons), detail=lambda: (args, dist))
        else:
            env.cover("var")
            env.prove("ising.command.var-dist.printed-distribution-hosts-each-variable-exactly-once[stdout]",
                      _hosted_once(dist, vars_), detail=lambda: (args, dist))


Contract(
    "generators.ising.command", ["C30"],
    ["pydcop.commands.generators.ising:generate", "pydcop.commands.generators.ising:generate_ising"],
    h_ising_command,
    lambda tier: [dict(rows=[3], cols=[None, 4], seeds=[0])] + ([dict(rows=[4, 5], cols=[None, 3], seeds=[1, 2])] if tier == "thorough" else []),
    mode="E", must_cover=["post", "fg", "var"],
    trusted=["PyYAML; yamldcop.load_dcop for the written output (contract yaml.roundtrip, C14)",
             "generate_ising wrapped only to record its result"],
    assumptions=["C30 ising command: row_count / col_count > 2 as enforced by the command"],
    budget=dict(quick=dict(max_paths=20000, timeout_s=200), thorough=dict(max_paths=200000, timeout_s=1500)),
    desc="ising command: the written / printed YAML loads to the generated DCOP and the written / printed distributions host each computation exactly once",
)


# ------------------------------------------------------------------ scenario

def _removals(env, label_prefix, events, evts_count, actions_count, agents, args):
    """the postcondition of the scenario generator on a list of DcopEvent"""
    action_events = [e for e in events if not e.is_delay]
    env.prove(label_prefix + ".requested-number-of-removal-events", len(action_events) == evts_count,
              detail=lambda: (args, [e.id for e in events]))
    removed = []
    for e in action_events:
        acts = e.actions or []
        env.prove(label_prefix + ".each-event-has-the-requested-number-of-actions", len(acts) == actions_count, detail=lambda: (args, e.id, acts))
        env.prove(label_prefix + ".every-action-removes-an-agent", all(a.type == "remove_agent" and set(a.args) == {"agent"} for a in acts),
                  detail=lambda: (args, e.id, acts))
        names = [a.args.get("agent") for a in acts]
        env.prove(label_prefix + ".removed-agents-are-agents-of-the-problem", all(nm in agents for nm in names), detail=lambda: (args, e.id, names))
        env.prove(label_prefix + ".agents-removed-in-one-event-are-distinct", len(set(names)) == len(names), detail=lambda: (args, e.id, names))
        env.prove(label_prefix + ".no-agent-removed-twice", not (set(names) & set(removed)), detail=lambda: (args, e.id, names, removed))
        removed.extend(names)


_AGENT_NAMES = ["a10", "a2", "b1", "a1", "z", "a03"]


def h_scenario(env):
    p = env.params
    S = env.call(importlib.import_module, "pydcop.commands.generators.scenario")
    if isinstance(S, Raised):
        env.prove("scenario.module-imports", False, detail=lambda: S.tb)
        return
    n = env.choice("n_agents", p["n_agents"])
    evts = env.choice("evts_count", p["evts"])
    acts = env.choice("actions_count", p["actions"])
    if evts * acts > n:
        env.assume(False)   # not enough agents: invalid arguments
    delay = env.choice("delay", p.get("delays", [10, 0]))
    seed = env.choice("seed", p["seeds"])
    agents_form = env.choice("agents_given_as", ["list", "dict-keys", "set"])
    agents = _AGENT_NAMES[:n]
    holder = {a: None for a in agents}
    given = list(agents) if agents_form == "list" else (holder.keys() if agents_form == "dict-keys" else set(agents))
    args = dict(agents=agents, evts_count=evts, actions_count=acts, delay=delay, seed=seed)
    _random.seed(seed)
    sc = env.call(S.generate_scenario, evts, acts, delay, 20, 5, given)
    if isinstance(sc, Raised):
        env.prove("scenario.no-raise-on-valid-arguments", False, detail=lambda: (args, sc.tb))
        return
    env.cover("post")
    if evts and acts:
        env.cover("removals")
    events = env.call(lambda: list(sc.events))
    env.prove("scenario.returns-a-scenario-of-events", not isinstance(events, Raised), detail=lambda: events)
    if isinstance(events, Raised):
        return
    _removals(env, "scenario", events, evts, acts, agents, args)
    # ---- frame: `agents` (a list, the keys of a dict or a set) belongs to the caller, who uses it again
    env.prove("scenario.frame.agents-argument-unchanged",
              (list(given) == agents) if agents_form != "set" else (given == set(agents)), detail=lambda: (args, agents_form, given))
    def seen(evs):
        return [(e.id, e.delay, [(a.type, sorted(a.args.items())) for a in (e.actions or [])]) for e in evs]
    first = seen(events)
    _random.seed(seed)
    sc2 = env.call(S.generate_scenario, evts, acts, delay, 20, 5, given)
    events2 = sc2 if isinstance(sc2, Raised) else env.call(lambda: list(sc2.events))
    env.prove("scenario.frame.second-call-with-the-same-agents-returns-a-scenario", not isinstance(events2, Raised), detail=lambda: (args, events2))
    if not isinstance(events2, Raised):
        _removals(env, "scenario.frame.second-call-with-the-same-agents", events2, evts, acts, agents, args)
    env.prove("scenario.frame.first-scenario-unchanged-by-the-second-call", _guard(lambda: seen(sc.events)) == first,
              detail=lambda: (args, first, _guard(lambda: seen(sc.events))))


Contract(
    "generators.scenario", ["C30"],
    ["pydcop.commands.generators.scenario:generate_scenario", "pydcop.commands.generators.scenario:generate_delay"],
    h_scenario,
    lambda tier: [dict(n_agents=[1, 3, 4, 6], evts=[0, 1, 2, 3], actions=[0, 1, 2, 3], seeds=[0, 1, 2] if tier != "thorough" else list(range(12)))],
    mode="E", must_cover=["post", "removals"],
    trusted=["random.sample draws distinct elements"],
    assumptions=["C30 scenario: valid arguments = evts_count * actions_count <= number of agents"],
    desc="generate_scenario: evts_count removal events, each removing actions_count distinct agents of the problem, none removed before",
)


def h_scenario_command(env):
    p = env.params
    S = env.call(importlib.import_module, "pydcop.commands.generators.scenario")
    Y = env.call(importlib.import_module, "pydcop.dcop.yamldcop")
    if isinstance(S, Raised) or isinstance(Y, Raised):
        env.prove("scenario.command.module-imports", False, detail=lambda: (S, Y))
        return
    n = env.choice("n_agents", p["n_agents"])
    evts = env.choice("evts_count", p["evts"])
    acts = env.choice("actions_count", p["actions"])
    if evts * acts > n:
        env.assume(False)
    out = p["output"]
    files_as = env.choice("dcop_files_given_as", ["--dcop_files", "positional", "two-files"])
    seed = env.choice("seed", p["seeds"])
    base = _base_spec()
    comps = [v[0] for v in base["variables"]] + [c[0] for c in base["constraints"]]
    spec = _base_spec(agents=_agents_spec(n, "int", "none", "none", comps))
    dcop, dcop_noagents, agent_defs = _build(spec)
    agents = [a.name for a in agent_defs]
    d = _tmpdir()
    try:
        if files_as == "two-files":
            contents = [Y.dcop_yaml(dcop_noagents), Y.yaml_agents(agent_defs)]
        else:
            contents = [Y.dcop_yaml(dcop)]
        files = []
        for i, c in enumerate(contents):
            fn = os.path.join(d, "%s_dcop.yaml" % "mb"[i])
            with open(fn, "w", encoding="utf-8") as f:
                f.write(c)
            files.append(fn)
        ns = Namespace(evts_count=evts, actions_count=acts, delay=10, initial_delay=20, end_delay=20,
                       dcop_files=files if files_as != "positional" else None,
                       dcop_files_end=files if files_as == "positional" else [], output=None)
        args = dict(agents=agents, evts_count=evts, actions_count=acts, files=files_as, seed=seed, output=out)
        _random.seed(seed)
        f_args = {}
        err, text, _ = _run_command(env, S.generate, ns, out, frame=f_args)
    finally:
        shutil.rmtree(d, ignore_errors=True)
    if err is not None:
        env.prove("scenario.command.no-raise-on-valid-arguments", False, detail=lambda: (args, err.tb))
        return
    env.cover("post")
    env.prove("scenario.command.output.written", isinstance(text, str) and len(text) > 0, detail=lambda: (args, text))
    if not (isinstance(text, str) and text):
        return
    sc = env.call(Y.load_scenario, text)
    if isinstance(sc, Raised):
        env.prove("scenario.command.output.is-a-loadable-scenario-yaml[%s]" % out, False, detail=lambda: (args, text[:300], sc.tb))
        return
    _removals(env, "scenario.command.output[%s]" % out, list(sc.events), evts, acts, agents, args)
    # frame: the arguments (the lists of file names included) are the caller's
    _prove_args_unchanged(env, "scenario.command.frame.args-unchanged", f_args, args)


Contract(
    "generators.scenario.command", ["C30"],
    ["pydcop.commands.generators.scenario:generate", "pydcop.commands.generators.scenario:generate_scenario",
     "pydcop.dcop.yamldcop:yaml_scenario", "pydcop.dcop.yamldcop:load_scenario"],
    h_scenario_command,
    lambda tier: [dict(n_agents=[3], evts=[0, 2], actions=[1], seeds=[0], output="file"),
                  dict(n_agents=[3], evts=[0, 2], actions=[1], seeds=[0], output="stdout")]
    + ([dict(n_agents=[1, 3], evts=[0, 1, 3], actions=[0, 1, 2], seeds=[0, 1], output="file")] if tier == "thorough" else []),
    mode="E", must_cover=["post"],
    trusted=["PyYAML", "the DCOP file read by the command is written with yamldcop.dcop_yaml (contract yaml.roundtrip, C14)"],
    desc="scenario command: the written / printed scenario YAML loads back to removal events with the requested counts of distinct, never re-removed agents",
)
