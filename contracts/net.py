"""Composite / local-node harness: k real pyDcop computations (built by the real
graph builders and the real ``build_computation``) wired through an in-memory
router with per-channel FIFO queues.  The router is the *ghost outbox*: every
``post_msg`` of the real code lands here, every delivery calls the real
``on_message``.  The schedule (which non-empty channel delivers next) is an input
of the harness: canonical orders, seeded random orders, or exhaustively explored
(``env.choice``).  DESIGN.md section 4.
"""
import itertools
import random as _pyrandom
from collections import OrderedDict, deque
from importlib import import_module

from pvc.sym import is_sym
from . import fx


class HandlerRaised(Exception):
    def __init__(self, where, exc, tb):
        super().__init__("%s: %r" % (where, exc))
        self.where = where
        self.exc = exc
        self.tb = tb


def build_dcop(env, spec, kinds=("fin",), lo=None, hi=None):
    """spec: dict(vars={name: domain_values or (domain_values, costkind[, initial])},
                  cons=[[names...], ...])  ->  (variables dict, constraints list, tables, varcost)"""
    variables, varcost = OrderedDict(), {}
    for name, d in spec["vars"].items():
        ck, init = "plain", None
        if isinstance(d, tuple):
            if len(d) == 3:
                d, ck, init = d
            else:
                d, ck = d
        v, c = fx.make_variable(env, name, fx.domain("d_" + name, d), ck, kinds, initial_value=init, lo=lo, hi=hi)
        variables[name] = v
        varcost[name] = c
    cons, tabs = [], []
    for k, scope in enumerate(spec["cons"]):
        make = spec.get("cell_maker")
        rel, tab = fx.table_relation(env, "c%d" % k, [variables[n] for n in scope], kinds, lo, hi,
                                     make=(lambda nm, _m=make: _m(env, nm)) if make else None)
        cons.append(rel)
        tabs.append(tab)
    return variables, cons, tabs, varcost


def make_net(env, label, *args, **kw):
    """Net(...) with a failure to build the graph / the computations turned into an obligation (returns None then)"""
    try:
        return Net(env, *args, **kw)
    except Exception:  # noqa - engine signals (Unsupported, PathAbort) are BaseExceptions and pass through
        import traceback
        tb = traceback.format_exc(limit=8)
        if "/pvc/" in tb.splitlines()[-2] if len(tb.splitlines()) > 1 else False:
            raise
        env.prove(label, False, detail=lambda: tb)
        return None


class _ConcreteEnv:
    """stands in for env where a throw-away concrete problem is built (warm_up): numbers from a seeded generator"""
    symbolic = False

    def __init__(self, seed):
        import random as _r
        self.rng = _r.Random(seed)
        self.params = {}

    def ext_real(self, name, kinds=None, lo=None, hi=None):
        return self.real(name, lo, hi)

    def real(self, name, lo=None, hi=None):
        v = self.rng.choice([0, 1, 2, 3, 5, 8, 13, 21])
        if lo is not None and v < lo:
            v = lo
        return v

    def choice(self, name, options):
        options = list(options)
        return options[self.rng.randrange(len(options))]

    def cover(self, *a, **k):
        pass

    def note(self, *a, **k):
        pass

    def prove(self, *a, **k):
        pass

    def assume(self, *a, **k):
        pass


def warm_up(env, algo, mode, spec, algo_params=None, seed=7, max_steps=3000, lo=None):
    """A first, unrelated solve in the same process before the run under contract: the same algorithm on a problem with the
    SAME variable / constraint names but other (concrete) cost tables and, when the spec allows, one constraint less.
    Whatever it leaves behind in module-level or class-level state (caches keyed by names, shared default arguments,
    class attributes) is then visible to the run that the obligations are about.  Its own outcome is not judged."""
    import random as _r
    cenv = _ConcreteEnv(seed)
    spec2 = dict(spec)
    if len(spec["cons"]) > 2:
        spec2["cons"] = list(spec["cons"][1:])        # another topology under the same names
    try:
        variables, cons, tabs, varcost = build_dcop(cenv, spec2, lo=lo)
        net = Net(cenv, algo, mode, variables, cons, dict(algo_params or {}))
        for n in list(net.comps):
            net.start(n)
        net.run("fifo", max_steps=max_steps, rng=_r.Random(seed))
    except (HandlerRaised, Exception):  # noqa - not judged
        pass
    env.cover("warmed-up")


def get_spec(env, p, specs):
    """the problem of a shape: a named one, or (``spec='rand<n>'``) a seeded random instance with n variables drawn per
    run - for the sampled native pass on sizes beyond exhaustive path exploration"""
    name = p["spec"]
    if name.startswith("rand"):
        inst = env.choice("instance", list(range(p.get("inst_from", 0), p.get("inst_to", 40))))
        return fx.random_spec(inst, int(name[4:]), max_dom=p.get("max_dom", 3), nary=p.get("nary", False), connected=p.get("connected", True),
                              unary=p.get("unary", True), same_dom=p.get("same_dom", False), costkinds=tuple(p.get("costkinds", ("plain", "plain", "func", "dict"))))
    return specs[name]


def global_cost(assignment, tabs, varcost, variables):
    """F(a) = sum of constraints + sum of variables' own costs (the property's definition)"""
    tot = 0
    for t in tabs:
        tot = tot + t(**{v.name: assignment[v.name] for v in t.variables})
    for n in variables:
        tot = tot + varcost[n](assignment[n])
    return tot


def local_cost(name, d, assignment, tabs, varcost):
    """L_i(d): every cost term that mentions variable i, with i := d"""
    a = dict(assignment)
    a[name] = d
    tot = 0
    for t in tabs:
        if any(v.name == name for v in t.variables):
            tot = tot + t(**{v.name: a[v.name] for v in t.variables})
    return tot + varcost[name](d)


class Net:
    def __init__(self, env, algo, mode, variables, constraints, algo_params=None, patch_random=True,
                 extra_modules=()):
        from pydcop.algorithms import AlgorithmDef, ComputationDef, load_algorithm_module
        self.env = env
        self.algo = algo
        self.mode = mode
        self.module = load_algorithm_module(algo)
        gm = import_module("pydcop.computations_graph." + self.module.GRAPH_TYPE)
        self.graph = gm.build_computation_graph(None, variables=list(variables.values()), constraints=list(constraints))
        self.algo_def = AlgorithmDef.build_with_default_param(algo, algo_params or {}, mode=mode)
        self.channels = OrderedDict()  # (src,dst) -> deque of (msg, prio)
        self.seq = 0
        self.sent_order = deque()      # global posting order of channels (for the 'fifo' policy)
        self.log = []
        self.values = {}               # name -> last selected value
        self.value_events = []
        self.finished = []
        self.cycles = {}
        self.started = []
        self.posted = 0
        self.delivered = 0
        if getattr(env, "symbolic", False) and hasattr(self.module, "math") and not hasattr(self.module.math, "_real"):
            from pvc.models import MathShim
            self.module.math = MathShim(self.module.math)
        if patch_random:
            from pvc.models import RandomModel
            import pydcop.infrastructure.computations as IC
            import pydcop.dcop.relations as R
            rm = RandomModel(env, "rnd")
            for m in (self.module, IC, R) + tuple(extra_modules):
                if hasattr(m, "random"):
                    m.random = rm
        self.comps = OrderedDict()
        for node in self.graph.nodes:
            cd = ComputationDef(node, self.algo_def)
            c = self.module.build_computation(cd)
            self.comps[c.name] = c
            self._wire(c)

    # -- the wiring Agent.add_computation does, with recorders instead of an agent
    def _wire(self, c):
        name = c.name
        c.message_sender = lambda src, dst, msg, prio=None, on_error=None: self._post(src, dst, msg, prio)
        net = self

        class _PAH:
            def set_periodic_action(self, period, cb):
                net.log.append(("periodic", name, period))
                return (name, period, cb)

            def remove_periodic_action(self, h):
                pass

        c.periodic_action_handler = _PAH()
        if hasattr(c, "_on_value_selection"):
            orig_vs = c._on_value_selection

            def on_vs(val, cost, cycle, _o=orig_vs):
                _o(val, cost, cycle)
                net.values[name] = val
                net.value_events.append((name, val, cost, cycle))
                net.log.append(("value", name, val))
            c._on_value_selection = on_vs
        if hasattr(c, "_on_new_cycle"):
            orig_nc = c._on_new_cycle

            def on_nc(count, _o=orig_nc):
                _o(count)
                net.cycles[name] = count
                net.log.append(("cycle", name, count))
            c._on_new_cycle = on_nc
        if hasattr(c, "value_selection"):
            orig_sel = c.value_selection

            def sel(val, cost=0, _o=orig_sel):
                # which call site of the algorithm selected this value (C10 coverage of the value_selection funnel)
                import sys as _sys
                fr = _sys._getframe(1)
                fn = fr.f_code.co_filename
                if "/pydcop/" in fn:
                    net.env.cover("value_selection@%s:%s" % (fn.split("/pydcop/")[-1], fr.f_code.co_name))
                return _o(val, cost)
            c.value_selection = sel
        orig_fin = c.finished

        def fin(_o=orig_fin):
            _o()
            net.finished.append(name)
            net.log.append(("finished", name))
        c.finished = fin

    def _post(self, src, dst, msg, prio):
        self.posted += 1
        self.seq += 1
        self.log.append(("post", src, dst, msg) if prio != 19 else ("reinject", src, dst, msg))
        ch = self.channels.setdefault((src, dst), deque())
        if prio == 19 and dst == src or (prio == 19):
            # re-injection of messages buffered before start / while paused: they must be
            # handled before newer messages of the same channel -> kept in a side list
            ch_re = self.channels.setdefault((src, dst, "re"), deque())
            ch_re.append((msg, prio, self.seq))
            return
        ch.append((msg, prio, self.seq))

    # -- driving
    def start(self, name):
        c = self.comps[name]
        self.started.append(name)
        try:
            c.start()
        except Exception as e:  # noqa
            import traceback
            raise HandlerRaised("start(%s)" % name, e, traceback.format_exc(limit=8))

    def enabled(self):
        out = []
        for key, q in self.channels.items():
            if not q:
                continue
            if len(key) == 2 and self.channels.get((key[0], key[1], "re")):
                continue  # re-injected (priority 19) messages of that channel go first
            out.append(key)
        return out

    def deliver(self, key):
        msg, prio, _seq = self.channels[key].popleft()
        src, dst = key[0], key[1]
        self.delivered += 1
        self.log.append(("deliver", src, dst, msg))
        c = self.comps.get(dst)
        if c is None:
            raise HandlerRaised("deliver", KeyError("message to unknown computation %s" % dst), "")
        try:
            c.on_message(src, msg, 0)
        except Exception as e:  # noqa
            import traceback
            raise HandlerRaised("on_message(%s <- %s: %s)" % (dst, src, msg), e, traceback.format_exc(limit=10))

    def run(self, policy="fifo", max_steps=2000, until=None, rng=None):
        """deliver until quiescence (or ``until(net)``); returns number of deliveries"""
        n = 0
        while n < max_steps:
            if until is not None and until(self):
                break
            en = self.enabled()
            if not en:
                break
            if policy == "fifo":      # global posting order (fair)
                key = min(en, key=lambda k: self.channels[k][0][2])
            elif policy == "lifo":    # channel whose head was posted last (unfair: only for algorithms that quiesce)
                key = max(en, key=lambda k: self.channels[k][0][2])
            elif policy == "first":
                key = en[0]
            elif policy.startswith("favor:"):
                # adversarial but legal: one computation runs ahead - its own messages are delivered first, then the
                # messages addressed to it, everything else in global posting order
                fav = policy.split(":", 1)[1]
                pool = [k for k in en if k[0] == fav] or [k for k in en if k[1] == fav] or en
                key = min(pool, key=lambda k: self.channels[k][0][2])
            elif policy.startswith("starve:"):
                # the messages SENT BY one computation are delivered last
                slow = policy.split(":", 1)[1]
                pool = [k for k in en if k[0] != slow] or en
                key = min(pool, key=lambda k: self.channels[k][0][2])
            elif policy == "rr":
                key = en[n % len(en)]
            elif policy == "random":
                key = en[rng.randrange(len(en))]
            elif policy == "explore":
                key = self.env.choice("sched%d" % n, en) if len(en) > 1 else en[0]
            else:
                raise ValueError(policy)
            self.deliver(key)
            n += 1
        return n

    def pending(self):
        return sum(len(q) for q in self.channels.values())

    def assignment(self):
        return {n: c.current_value for n, c in self.comps.items() if hasattr(c, "current_value")}
