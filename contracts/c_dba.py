"""DBA / GDBA: C09 (a DBA computation only finishes on a satisfying assignment) and C10.
Composite of the real computations on enumerated / seeded hard-constraint tables
(cells are 0 or the algorithm's infinity value: the property is about CSPs), E-mode."""
import itertools
import random as _pyrandom

from pvc.contract import Contract
from . import fx
from .net import Net, build_dcop, HandlerRaised

GRAPHS = {
    "pair": (dict(vars={"x1": [10, 0], "x2": ["a", "b"]}, cons=[["x1", "x2"]]), 1),
    "chain3": (dict(vars={"x1": [10, 0], "x2": ["a", "b"], "x3": [7, 0]}, cons=[["x1", "x2"], ["x2", "x3"]]), 2),
    "triangle": (dict(vars={"x1": [10, 0, 5], "x2": [10, 0, 5], "x3": [10, 0, 5]}, cons=[["x1", "x2"], ["x2", "x3"], ["x1", "x3"]]), 1),
    "chain4": (dict(vars={"x1": [10, 0], "x2": ["a", "b"], "x3": [7, 0], "x4": ["u", "v"]}, cons=[["x1", "x2"], ["x2", "x3"], ["x3", "x4"]]), 3),
    "star_nary": (dict(vars={"x1": [10, 0], "x2": ["a", "b"], "x3": [7, 0], "x4": ["u", "v"]}, cons=[["x1", "x2", "x3"], ["x3", "x4"]]), 2),
}


def _random_colouring(seed, nvars, ncol):
    """connected random graph-colouring instance (possibly unsatisfiable) and its diameter"""
    rng = _pyrandom.Random(seed * 7 + nvars * 131 + ncol)
    names = ["x%d" % i for i in range(nvars)]
    rng.shuffle(names)
    edges = set()
    for i in range(1, nvars):                     # random spanning tree
        edges.add(tuple(sorted((names[i], names[rng.randrange(i)]))))
    extra = rng.randrange(0, nvars + 1)
    while extra > 0:
        a, b = rng.sample(names, 2)
        if tuple(sorted((a, b))) not in edges:
            edges.add(tuple(sorted((a, b))))
        extra -= 1
    adj = {n: set() for n in names}
    for a, b in edges:
        adj[a].add(b)
        adj[b].add(a)
    diam = 0
    for s0 in names:
        dist, frontier = {s0: 0}, [s0]
        while frontier:
            nxt = []
            for u in frontier:
                for w in adj[u]:
                    if w not in dist:
                        dist[w] = dist[u] + 1
                        nxt.append(w)
            frontier = nxt
        diam = max(diam, max(dist.values()))
    cols = [10, 0, 5][:ncol]
    spec = dict(vars={n: list(cols) for n in sorted(names)}, cons=[list(e) for e in sorted(edges)])
    return spec, diam


def h_dba(env):
    p = env.params
    algo = p.get("algo", "dba")
    if p["graph"].startswith("rand"):
        _, nv, nc = p["graph"].split("_")
        seed0 = env.choice("inst_seed", list(range(p["inst_from"], p["inst_to"])))
        spec, diameter = _random_colouring(seed0, int(nv), int(nc))
        p = dict(p, inst_from=seed0, inst_to=seed0 + 1, coloring=True, extra_distance=0)
    elif p["graph"].startswith("ring"):
        # a long cycle: a conflict travels round it (odd 2-colour rings are unsatisfiable; 'x' = one variable gets a third colour)
        _, nv, nc = p["graph"].split("_")
        nv = int(nv)
        names = ["x%d" % k for k in range(nv)]
        cols = [10, 0, 5]
        vars_ = {n: list(cols[:2]) for n in names}
        if nc == "x":
            vars_[names[nv // 2]] = list(cols)
        elif int(nc) == 3:
            vars_ = {n: list(cols) for n in names}
        spec = dict(vars=vars_, cons=[[names[k], names[(k + 1) % nv]] for k in range(nv)])
        diameter = nv // 2
        seed0 = env.choice("inst_seed", list(range(p["inst_from"], p["inst_to"])))
        p = dict(p, inst_from=seed0, inst_to=seed0 + 1, coloring=True, extra_distance=0 if seed0 % 4 else 1, max_steps=6000)
    else:
        spec, diameter = GRAPHS[p["graph"]]
    INF = 10000
    p = dict(p)
    p["inst_seed"] = env.choice("inst_seed", list(range(p["inst_from"], p["inst_to"])))
    i = p["inst_seed"]
    # the instance number also selects start order / schedule / max_distance slack / table kind
    p.setdefault("coloring", p["graph"] == "triangle" or i % 4 == 0)
    p.setdefault("extra_distance", i % 2)
    if i % 3 == 1:
        p.update(start_order="rev", policy="random", sched_seed=i, interleave_start=True)
    elif i % 3 == 2:
        p.update(start_order="shuffle", policy="rr", sched_seed=i)
    if algo == "gdba":
        p["algo_params"] = dict(modifier="AM"[i % 2], violation=["NZ", "NM", "MX"][i % 3], increase_mode="ERCT"[i % 4])
        p["max_steps"] = 300
    rng = _pyrandom.Random(p["inst_seed"] * 1009 + 7)
    coloring = p.get("coloring", False)

    class _E:
        symbolic = False

        def ext_real(self, name, kinds=None, lo=None, hi=None):
            return 0
    spec2 = dict(spec)
    if coloring:
        def cell(env_, name):
            vals = name[name.index("[") + 1:-1].split(",")
            return INF if len(set(vals)) < len(vals) else 0
    else:
        dens = p.get("density", 0.4)

        def cell(env_, name):
            return INF if rng.random() < dens else 0
    spec2["cell_maker"] = cell
    variables, cons, tabs, varcost = build_dcop(_E(), spec2)
    allv = list(variables.values())
    for a in fx.assignments(allv):   # materialise every cell in a fixed order
        for t in tabs:
            t(**{v.name: a[v.name] for v in t.variables})
    ap = dict(p.get("algo_params", {}))
    if algo == "dba":
        ap.setdefault("max_distance", diameter + p.get("extra_distance", 0))
        ap.setdefault("infinity", INF)
    try:
        net = Net(env, algo, "min", variables, cons, ap, patch_random=False)
    except Exception:  # noqa
        import traceback
        tb = traceback.format_exc(limit=8)
        env.prove("%s.C09.computations-can-be-built" % algo, False, detail=lambda: tb)
        return
    net.module.random = _pyrandom.Random(p["inst_seed"] * 31 + p.get("sched_seed", 0))
    snapshots = []
    for name, c in net.comps.items():
        orig = c.finished

        def fin(_o=orig, _n=name):
            snapshots.append((_n, {m: cc.current_value for m, cc in net.comps.items()}))
            _o()
        c.finished = fin
    order = list(net.comps)
    srng = _pyrandom.Random(p.get("sched_seed", 0))
    if p.get("start_order") == "rev":
        order.reverse()
    elif p.get("start_order") == "shuffle":
        srng.shuffle(order)
    policy = p.get("policy", "fifo")
    try:
        for n in order:
            net.start(n)
            if p.get("interleave_start"):
                net.run(policy if policy != "lifo" else "rr", max_steps=1, rng=srng)
        net.run(policy if policy != "lifo" else "rr", max_steps=p.get("max_steps", 1500), rng=srng)
    except HandlerRaised as e:
        env.prove("%s.C09.no-handler-raises" % algo, False, detail=lambda: "%s\n%s" % (e, e.tb))
        return
    env.cover("ran")
    env.prove("%s.C10.selected-values-in-domain" % algo,
              all(v is None or v in list(variables[n].domain) for n, v, _, _ in net.value_events), detail=lambda: net.value_events[-6:])
    if algo != "dba":
        return
    if snapshots:
        env.cover("finished")
    for who, asg in snapshots:
        violated = [(k, {v.name: asg[v.name] for v in t.variables}) for k, t in enumerate(tabs)
                    if t(**{v.name: asg[v.name] for v in t.variables}) >= INF]
        env.prove("dba.C09.when-a-computation-finishes-the-held-assignment-violates-no-constraint", not violated,
                  detail=lambda: dict(finished=who, assignment=asg, violated=violated, inst_seed=p["inst_seed"]))


def _shapes(algo):
    def f(tier, prop=None):
        q = []
        n, batch = (40, 10) if tier == "quick" else (400, 25)
        if prop == "C10" and tier == "quick":
            n, batch = 10, 10
        for g in ("pair", "chain3", "triangle", "chain4", "star_nary", "rand_4_2", "rand_5_2", "rand_6_3", "rand_5_3"):
            for a in range(0, n, batch):
                q.append(dict(algo=algo, graph=g, inst_from=a, inst_to=a + batch))
        if not (prop == "C10" and tier == "quick"):
            nr = 6 if tier == "quick" else 30
            for g in ("ring_7_2", "ring_9_x", "ring_8_2", "ring_9_2"):
                for a in range(0, nr, 3):
                    q.append(dict(algo=algo, graph=g, inst_from=a, inst_to=a + 3))
        return q
    return f


Contract(
    "dba.run", ["C09", "C10"],
    ["pydcop.algorithms.dba:DbaComputation.on_start", "pydcop.algorithms.dba:DbaComputation._handle_ok_message",
     "pydcop.algorithms.dba:DbaComputation.improve", "pydcop.algorithms.dba:DbaComputation._handle_improve_message",
     "pydcop.algorithms.dba:DbaComputation._send_ok", "pydcop.algorithms.dba:DbaComputation.stop_condition",
     "pydcop.algorithms.dba:DbaComputation._on_end_msg", "pydcop.algorithms.dba:DbaComputation.compute_eval_value",
     "pydcop.algorithms.dba:DbaComputation._compute_best_improvement"],
    h_dba, _shapes("dba"), mode="E", must_cover=["ran", "finished"],
    trusted=["router: per-channel FIFO delivery, one computation per agent", "random.choice replaced by a seeded generator"],
    assumptions=["DBA: decided on enumerated instances: graph colouring and seeded random hard tables on 5 small graphs, max_distance = diameter or diameter+1, "
                 "seeded fair schedules; the distance-counting argument of the original paper is not mechanised"],
    budget=dict(quick=dict(max_paths=500, timeout_s=200), thorough=dict(max_paths=500, timeout_s=900)),
    desc="real DbaComputation objects on small CSPs: whenever finished() fires, no constraint is at infinity for the values held by all computations",
)

Contract(
    "gdba.run", ["C10"],
    ["pydcop.algorithms.gdba:GdbaComputation.on_start", "pydcop.algorithms.gdba:GdbaComputation._send_ok"],
    h_dba, _shapes("gdba"), mode="E", must_cover=["ran"],
    trusted=["router: per-channel FIFO delivery", "random.choice replaced by a seeded generator"],
    budget=dict(quick=dict(max_paths=500, timeout_s=200), thorough=dict(max_paths=500, timeout_s=900)),
    desc="real GdbaComputation objects, every parameter variant: selected values stay in the domain, no handler raises",
)
