"""SyncBB (pydcop.algorithms.syncbb): C02 (terminates, held assignment optimal) and C10.
Real SyncBBComputation objects on the real ordered graph; binary constraint tables with
symbolic cells (non-negative when minimising: branch-and-bound's own premise)."""
import itertools
import random as _pyrandom

from pvc.contract import Contract
from pvc.explore import Raised
from pvc.sym import And, Or, Not, Implies, eq, lt, le, is_sym, smin, smax, ssum
from . import fx
from .net import Net, build_dcop, global_cost, HandlerRaised, get_spec, warm_up

SPECS = {
    "pair": dict(vars={"x1": [0, 1], "x2": ["a", "b"]}, cons=[["x1", "x2"]]),
    "pair3": dict(vars={"x2": [5, 0, 2], "x1": ["a", "b"]}, cons=[["x2", "x1"]]),
    "chain3": dict(vars={"x1": [0, 1], "x2": ["a", "b"], "x3": [7, 0]}, cons=[["x1", "x2"], ["x2", "x3"]]),
    "triangle": dict(vars={"x1": [0, 1], "x2": ["a", "b"], "x3": [7, 0]}, cons=[["x1", "x2"], ["x2", "x3"], ["x3", "x1"]]),
    "far": dict(vars={"x1": [0, 1], "x2": ["a", "b"], "x3": [7, 0]}, cons=[["x1", "x3"]]),          # x2 has no constraint
    "unordered": dict(vars={"xb": [0, 1], "xa": ["a", "b"], "xc": [7, 0]}, cons=[["xc", "xa"], ["xb", "xc"]]),
    "double": dict(vars={"x1": [0, 1], "x2": ["a", "b"]}, cons=[["x1", "x2"], ["x2", "x1"]]),
    "line4": dict(vars={"x1": [0, 1], "x2": ["a", "b"], "x3": [7, 0], "x4": ["u", "v"]}, cons=[["x1", "x2"], ["x2", "x3"], ["x3", "x4"]]),
    "chain4": dict(vars={"x1": [0, 1], "x2": ["a", "b"], "x3": [7, 0], "x4": ["u", "v"]}, cons=[["x1", "x2"], ["x2", "x3"], ["x3", "x4"], ["x1", "x4"]]),
}


def h_syncbb(env):
    p = env.params
    spec = get_spec(env, p, SPECS)
    mode = env.choice("mode", p.get("modes", ["min", "max"]))
    lo = 0 if mode == "min" else None
    if p.get("warm_up"):
        warm_up(env, "syncbb", mode, spec, {}, lo=lo)
    variables, cons, tabs, varcost = build_dcop(env, spec, lo=lo)
    try:
        net = Net(env, "syncbb", mode, variables, cons, {})
    except Exception as e:  # noqa
        import traceback
        tb = traceback.format_exc(limit=8)
        env.prove("syncbb.C02.computations-can-be-built", False, detail=lambda: tb)
        return
    order = list(net.comps)
    so = p.get("start_order", "fwd")
    if so == "rev":
        order.reverse()
    elif so == "explore":
        order = list(env.choice("start_order", list(itertools.permutations(order))))
    policy = p.get("policy", "fifo")
    rng = _pyrandom.Random(p.get("sched_seed", 0) * 7919 + p.get("_seed", 0))
    try:
        for n in order:
            net.start(n)
            if p.get("interleave_start"):
                net.run("fifo", max_steps=1, rng=rng)
        net.run(policy, max_steps=3000, rng=rng)
    except HandlerRaised as e:
        env.prove("syncbb.C02.no-handler-raises", False, detail=lambda: "%s\n%s" % (e, e.tb))
        return
    env.cover("ran")
    names = list(net.comps)
    env.prove("syncbb.C02.every-computation-finished-exactly-once", sorted(net.finished) == sorted(names),
              detail=lambda: dict(finished=net.finished, log=[str(x)[:90] for x in net.log[-8:]]))
    env.prove("syncbb.C02.no-message-left-undelivered", net.pending() == 0)
    asg = {n: net.comps[n].current_value for n in names}
    env.prove("syncbb.C10.selected-values-in-domain",
              all((not is_sym(v)) and (v is None or v in list(variables[n].domain)) for n, v, _, _ in net.value_events),
              detail=lambda: net.value_events)
    dom_ok = all((not is_sym(asg[n])) and asg[n] in list(variables[n].domain) for n in names)
    env.prove("syncbb.C02.values-held-at-termination-form-a-complete-assignment", dom_ok, detail=lambda: asg)
    if not dom_ok:
        return
    allv = [variables[n] for n in variables]
    costs = [global_cost(a, tabs, varcost, variables) for a in fx.assignments(allv)]
    opt = smin(costs) if mode == "min" else smax(costs)
    got = global_cost(asg, tabs, varcost, variables)
    env.prove("syncbb.C02.held-assignment-cost-equals-true-optimum", eq(got, opt),
              detail=lambda: dict(assignment=asg, cost=got, optimum=opt, mode=mode))


def _shapes(tier, prop=None):
    q = [dict(spec="pair"), dict(spec="pair3", modes=["min"]), dict(spec="chain3", modes=["min"]), dict(spec="chain3", modes=["max"]),
         dict(spec="far", modes=["min"]), dict(spec="unordered", modes=["min"], start_order="rev", interleave_start=True),
         dict(spec="double", modes=["min"]), dict(spec="triangle", modes=["max"])]
    # a first solve of another problem under the same names in the same process (state kept between runs)
    q += [dict(spec="chain3", modes=["min"], warm_up=True), dict(spec="triangle", modes=["max"], warm_up=True)]
    # 4 variables: a variable in the middle of the order backtracks under a finite bound (too many paths for the exact
    # exploration: decided by the sampled native pass, several parts in parallel)
    q += [dict(spec="line4", modes=["min"], sample_only=True, sample_factor=12, sample_part=i) for i in range(4)]
    q += [dict(spec="rand5", modes=["min"], sample_only=True, sample_factor=6, sample_part=6, unary=False, costkinds=["plain"], inst_to=60),
          dict(spec="rand5", modes=["max"], sample_only=True, sample_factor=4, sample_part=7, unary=False, costkinds=["plain"], connected=False, max_dom=2),
          dict(spec="rand6", modes=["min"], sample_only=True, sample_factor=4, sample_part=8, unary=False, costkinds=["plain"], max_dom=2, inst_to=60),
          dict(spec="rand5", modes=["min"], sample_only=True, sample_factor=4, sample_part=9, unary=False, costkinds=["plain"], same_dom=True)]
    q += [dict(spec="chain4", modes=["min"], sample_only=True, sample_factor=12, sample_part=4),
          dict(spec="line4", modes=["max"], sample_only=True, sample_factor=12, sample_part=5)]
    if prop == "C10" and tier == "quick":
        return [q[0], q[4], q[8]]
    if tier != "thorough" or prop == "C10":
        return q
    return q + [dict(spec="triangle", modes=["min"]), dict(spec="pair3", modes=["max"]), dict(spec="far", modes=["max"]),
                dict(spec="chain3", modes=["min"], start_order="rev"), dict(spec="chain4", modes=["max"]),
                dict(spec="unordered", modes=["max"], policy="lifo")]


Contract(
    "syncbb.run", ["C02", "C10"],
    ["pydcop.algorithms.syncbb:SyncBBComputation.on_start", "pydcop.algorithms.syncbb:SyncBBComputation.on_forward_message",
     "pydcop.algorithms.syncbb:SyncBBComputation.on_backward_msg", "pydcop.algorithms.syncbb:SyncBBComputation.on_terminate_message",
     "pydcop.algorithms.syncbb:get_next_assignment", "pydcop.algorithms.syncbb:get_value_candidates",
     "pydcop.algorithms.syncbb:constraints_for_variable", "pydcop.computations_graph.ordered_graph:build_computation_graph"],
    h_syncbb, _shapes, mode="B", must_cover=["ran"],
    trusted=["router: per-channel FIFO delivery, one computation per agent"],
    assumptions=["SyncBB: constraint costs are non-negative when minimising (pruning on partial sums is the algorithm's premise); no restriction when maximising",
                 "SyncBB: >= 2 variables, binary constraints, variables without own cost"],
    budget=dict(quick=dict(max_paths=40000, timeout_s=300), thorough=dict(max_paths=400000, timeout_s=3000)),
    desc="composite of real SyncBBComputation objects: terminate reaches everyone, held assignment complete and optimal",
)


# ---------------------------------------------------------------- the two pure helpers

def h_value_candidates(env):
    from pydcop.algorithms import syncbb as S
    from pydcop.dcop.objects import Variable
    p = env.params
    dom = p["domain"]
    x = Variable("x", fx.domain("d", dom))
    cur = env.choice("current", [None] + list(dom) + ["not-in-domain"])
    r = env.call(S.get_value_candidates, x, cur)
    if isinstance(r, Raised):
        env.prove("get_value_candidates.no-raise", False, detail=lambda: r.tb)
        return
    env.cover("post")
    if cur is None:
        exp = list(dom)
    elif cur in dom:
        exp = list(dom)[list(dom).index(cur) + 1:]
    else:
        exp = []
    env.prove("get_value_candidates.is-the-domain-suffix-strictly-after-the-current-value", r == exp, detail=lambda: (dom, cur, r))


Contract(
    "syncbb.get_value_candidates", ["C02"], ["pydcop.algorithms.syncbb:get_value_candidates"],
    h_value_candidates, lambda tier: [dict(domain=[10, 0, 5]), dict(domain=["b", "a"]), dict(domain=[0]), dict(domain=[3, 0, 7, 1])],
    mode="E", must_cover=["post"], desc="candidates = values strictly after the current one in domain order (whole domain when None)",
)


def h_next_assignment(env):
    """get_next_assignment against its specification: the returned candidate is the first one, in domain
    order after current_value, that is not soundly prunable, and its cost is the exact sum of its binary
    costs with every element of the path"""
    from pydcop.algorithms import syncbb as S
    from pydcop.dcop.objects import Variable
    p = env.params
    mode = env.choice("mode", p.get("modes", ["min", "max"]))
    lo = 0 if mode == "min" else None
    me = Variable("me", fx.domain("d", p["domain"]))
    path_vars = [Variable("p%d" % i, fx.domain("dp", ["u", "v"])) for i in range(p["path_len"])]
    cons, tabs = [], []
    for i, pv in enumerate(path_vars):
        if i in p.get("unconstrained", []):
            continue
        rel, tab = fx.table_relation(env, "c%d" % i, [pv, me] if i % 2 == 0 else [me, pv], ("fin",), lo)
        cons.append(rel)
        tabs.append((pv.name, tab))
    path = [(pv.name, "u", env.real("elt%d" % i, lo)) for i, pv in enumerate(path_vars)]
    cur = env.choice("current", [None] + list(p["domain"])[:-1])
    ubk = env.choice("ub", ["inf", "sym"])
    ub = (float("inf") if mode == "min" else -float("inf")) if ubk == "inf" else env.real("ub")
    r = env.call(S.get_next_assignment, me, cur, cons, list(path), ub, mode)
    if isinstance(r, Raised):
        env.prove("get_next_assignment.no-raise", False, detail=lambda: r.tb)
        return
    env.cover("post")
    dom = list(p["domain"])
    cands = dom if cur is None else dom[dom.index(cur) + 1:]

    def bc(c):
        return ssum([tab(**{pn: "u", "me": c}) for pn, tab in tabs])
    path_cost = ssum([e[2] for e in path])
    if r is None:
        env.cover("none")
        if path:
            for c in cands:
                if mode == "min":
                    # skipping a candidate is only allowed when it cannot beat the bound
                    env.prove("get_next_assignment.a-skipped-candidate-cannot-improve-the-bound",
                              le(ub, path_cost + bc(c)), detail=lambda: dict(skipped=c, path=path, ub=ub))
                else:
                    env.prove("get_next_assignment.no-candidate-is-skipped-when-maximising", False, detail=lambda: dict(skipped=c))
        else:
            env.prove("get_next_assignment.returns-None-only-without-candidates", not cands)
        return
    ok = isinstance(r, tuple) and len(r) == 2 and (not is_sym(r[0])) and r[0] in cands
    env.prove("get_next_assignment.returns-a-candidate-after-the-current-value", ok, detail=lambda: (r, cands))
    if not ok:
        return
    val, cost = r
    env.prove("get_next_assignment.returned-cost-is-the-exact-sum-over-the-path", eq(cost, bc(val)) if path else eq(cost, 0),
              detail=lambda: dict(returned=r, path=path))
    for c in cands[:cands.index(val)]:
        if mode == "min":
            env.prove("get_next_assignment.a-skipped-candidate-cannot-improve-the-bound",
                      le(ub, path_cost + bc(c)), detail=lambda: dict(skipped=c, returned=r, path=path, ub=ub))
        else:
            env.prove("get_next_assignment.no-candidate-is-skipped-when-maximising", False, detail=lambda: dict(skipped=c, returned=r))


Contract(
    "syncbb.get_next_assignment", ["C02"], ["pydcop.algorithms.syncbb:get_next_assignment", "pydcop.algorithms.syncbb:constraints_for_variable"],
    h_next_assignment,
    lambda tier: [dict(domain=[10, 0], path_len=0), dict(domain=[10, 0, 5], path_len=1), dict(domain=[10, 0], path_len=2),
                  dict(domain=[10, 0], path_len=2, unconstrained=[0])] + ([dict(domain=[10, 0, 5], path_len=3), dict(domain=[10, 0, 5], path_len=2, unconstrained=[1])] if tier == "thorough" else []),
    mode="B", must_cover=["post"],
    assumptions=["SyncBB: costs non-negative when minimising"],
    desc="returned candidate follows the current value, carries its exact binary cost with the whole path; skipped candidates are soundly pruned (min) / none skipped (max)",
)
