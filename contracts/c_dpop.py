"""DPOP (pydcop.algorithms.dpop): C01 (optimal assignment, all computations finish)
and C10 (values in domain).  Real DpopAlgo objects on the pseudo-tree the real
builder produces; UTIL tables hold symbolic cells (numpy model, DESIGN 3.4)."""
import itertools
import random as _pyrandom

from pvc.contract import Contract
from pvc.sym import And, Or, Not, Implies, eq, lt, le, is_sym, smin, smax
from . import fx
from .net import Net, build_dcop, global_cost, HandlerRaised, get_spec, warm_up

SPECS = {
    "chain3": dict(vars={"x1": [0, 1], "x2": ["a", "b"], "x3": [7, 0]}, cons=[["x1", "x2"], ["x2", "x3"]]),
    "chain3_cost": dict(vars={"x1": ([0, 1], "func"), "x2": (["a", "b"], "dict"), "x3": [7, 0]}, cons=[["x1", "x2"], ["x2", "x3"]]),
    "triangle": dict(vars={"x1": [0, 1], "x2": ["a", "b"], "x3": [7, 0]}, cons=[["x1", "x2"], ["x2", "x3"], ["x1", "x3"]]),
    "star": dict(vars={"x2": [0, 1], "x1": ["a", "b"], "x3": [7, 0]}, cons=[["x2", "x1"], ["x2", "x3"]]),
    "nary": dict(vars={"x1": [0, 1], "x2": ["a", "b"], "x3": [7, 0]}, cons=[["x1", "x2", "x3"]]),
    "nary_unary": dict(vars={"x1": ([0, 1], "func"), "x2": ["a", "b"], "x3": [7, 0]}, cons=[["x3", "x1", "x2"], ["x2"]]),
    "two_components": dict(vars={"x1": [0, 1], "x2": ["a", "b"], "x3": ([7, 0, 4], "dict"), "x4": ["u", "v"]},
                           cons=[["x1", "x2"], ["x3"]]),
    "pair3": dict(vars={"x1": [5, 0, 2], "x2": ["a", "b"]}, cons=[["x2", "x1"]]),
    "single": dict(vars={"x1": ([5, 0, 2], "func")}, cons=[]),
    "single_unary": dict(vars={"x1": [5, 0, 2]}, cons=[["x1"]]),
    # a variable nobody mentions, whose values cannot be ordered with one another (every value costs the same: a tie)
    "iso_mixed": dict(vars={"x1": [0, 1], "x2": ["a", "b"], "x3": ["auto", 1, 2.5]}, cons=[["x1", "x2"]]),
    "diamond": dict(vars={"x1": [0, 1], "x2": ["a", "b"], "x3": [7, 0], "x4": ["u", "v"]},
                    cons=[["x1", "x2"], ["x1", "x3"], ["x2", "x4"], ["x3", "x4"]]),
}


def h_dpop(env):
    p = env.params
    # 'rand<n>': a random instance per run (depth >= 3 pseudo-trees, pseudo-parents, forests, unary / ternary constraints)
    spec = get_spec(env, p, SPECS)
    mode = env.choice("mode", p.get("modes", ["min", "max"]))
    import pydcop.dcop.relations as R
    import pydcop.algorithms.dpop as DP
    fx.install_numpy_shim(env, R)
    if env.symbolic:
        from pvc.models import model_float
        DP.float = model_float
    if p.get("warm_up"):
        warm_up(env, "dpop", mode, spec, {})
    variables, cons, tabs, varcost = build_dcop(env, spec)
    try:
        net = Net(env, "dpop", mode, variables, cons, {})
    except Exception as e:  # building the pseudo-tree / computations
        import traceback
        tb = traceback.format_exc(limit=8)
        env.prove("dpop.C01.computations-can-be-built", False, detail=lambda: tb)
        return
    from pvc.models import RandomModel
    DP.choice = RandomModel(env, "dpopchoice").choice
    order = list(net.comps)
    so = p.get("start_order", "fwd")
    if so == "rev":
        order.reverse()
    elif so == "explore":
        order = list(env.choice("start_order", list(itertools.permutations(order))))
    policy = p.get("policy", "fifo")
    rng = _pyrandom.Random(p.get("sched_seed", 0) * 7919 + p.get("_seed", 0))
    try:
        for n in order:
            net.start(n)
            if p.get("interleave_start"):
                net.run("fifo" if policy == "explore" else policy, max_steps=p.get("between", 1), rng=rng)
        net.run(policy, max_steps=500, rng=rng)
    except HandlerRaised as e:
        env.prove("dpop.C01.no-handler-raises", False, detail=lambda: "%s\n%s" % (e, e.tb))
        return
    env.cover("ran")
    names = list(net.comps)
    env.prove("dpop.C01.every-computation-finished-exactly-once", sorted(net.finished) == sorted(names),
              detail=lambda: dict(finished=net.finished, log=[str(x)[:80] for x in net.log[-8:]]))
    asg = {n: net.comps[n].current_value for n in names}
    dom_ok = all((not is_sym(asg[n])) and asg[n] in list(variables[n].domain) for n in names)
    env.prove("dpop.C01.assignment-complete-and-in-domain", sorted(names) == sorted(variables) and dom_ok, detail=lambda: asg)
    env.prove("dpop.C10.selected-values-in-domain",
              all((not is_sym(v)) and (v is None or v in list(variables[n].domain)) for n, v, _, _ in net.value_events),
              detail=lambda: net.value_events)
    if not dom_ok or sorted(net.finished) != sorted(names):
        return
    allv = [variables[n] for n in variables]
    costs = [global_cost(a, tabs, varcost, variables) for a in fx.assignments(allv)]
    opt = smin(costs) if mode == "min" else smax(costs)
    got = global_cost(asg, tabs, varcost, variables)
    env.prove("dpop.C01.selected-assignment-cost-equals-true-optimum", eq(got, opt),
              detail=lambda: dict(assignment=asg, cost=got, optimum=opt, mode=mode))
    env.prove("dpop.C01.no-message-left-undelivered", net.pending() == 0)


def _shapes(tier, prop=None):
    q = [
        dict(spec="chain3"),
        dict(spec="chain3_cost", modes=["min"]),
        dict(spec="triangle", modes=["max"]),
        dict(spec="star", modes=["min"], start_order="rev", policy="lifo", interleave_start=True),
        dict(spec="nary", modes=["min"]),
        dict(spec="nary_unary", modes=["max"]),
        dict(spec="two_components", modes=["min"]),
        dict(spec="single"), dict(spec="single_unary"), dict(spec="iso_mixed", modes=["min"]),
        dict(spec="chain3", modes=["min"], policy="random", sched_seed=1, interleave_start=True, start_order="rev"),
        # one sibling's UTIL overtakes the other's / the leaves start before their parents
        dict(spec="star", modes=["max"], policy="favor:x3", start_order="rev"),
        dict(spec="triangle", modes=["min"], policy="starve:x1", interleave_start=True, between=2),
    ]
    q += [dict(spec="chain3", modes=["min"], warm_up=True), dict(spec="triangle", modes=["max"], warm_up=True)]
    # 4-6 variables: too many paths for the exact exploration, decided by the sampled native pass (several parts in parallel)
    big = [dict(spec="rand4", sample_only=True, sample_factor=4, sample_part=0, policy="random", sched_seed=1),
           dict(spec="rand5", sample_only=True, sample_factor=4, sample_part=1, inst_to=60),
           dict(spec="rand5", sample_only=True, sample_factor=4, sample_part=2, inst_to=60, nary=True, policy="random", sched_seed=2, start_order="rev"),
           dict(spec="rand6", sample_only=True, sample_factor=3, sample_part=3, inst_to=80, connected=False, policy="lifo", interleave_start=True)]
    big.append(dict(spec="rand5", same_dom=True, sample_only=True, sample_factor=4, sample_part=4, inst_to=60, policy="random", sched_seed=3))
    if prop == "C10" and tier == "quick":
        return [q[1], q[6], q[7], big[1]]
    q = q + big
    if tier != "thorough" or prop == "C10":
        return q
    return q + [
        dict(spec="triangle", modes=["min"]), dict(spec="chain3_cost", modes=["max"]), dict(spec="pair3"),
        dict(spec="diamond", modes=["min"]),
        dict(spec="star", modes=["max"], start_order="explore"),
        dict(spec="chain3", modes=["min"], policy="explore"),
        dict(spec="nary", modes=["max"]), dict(spec="two_components", modes=["max"]),
    ] + [dict(spec="triangle", modes=["min"], policy="random", sched_seed=i, interleave_start=bool(i % 2), start_order=("rev" if i % 3 else "fwd")) for i in range(2, 8)]


Contract(
    "dpop.run", ["C01", "C10"],
    ["pydcop.algorithms.dpop:DpopAlgo.__init__", "pydcop.algorithms.dpop:DpopAlgo.on_start", "pydcop.algorithms.dpop:DpopAlgo._on_util_message",
     "pydcop.algorithms.dpop:DpopAlgo._compute_utils_msg", "pydcop.algorithms.dpop:DpopAlgo._on_value_message",
     "pydcop.algorithms.dpop:DpopAlgo.select_value_and_finish", "pydcop.dcop.relations:join", "pydcop.dcop.relations:projection",
     "pydcop.dcop.relations:find_arg_optimal", "pydcop.dcop.relations:NAryMatrixRelation.slice",
     "pydcop.computations_graph.pseudotree:build_computation_graph", "pydcop.computations_graph.pseudotree:get_dfs_relations"],
    h_dpop, _shapes, mode="B", must_cover=["ran"],
    trusted=["numpy float64 arrays modelled as object arrays of exact reals", "float() of a cost is the identity (exact reals)",
             "router: per-channel FIFO delivery, one computation per agent", "random.choice modelled as explored choice"],
    assumptions=["DPOP: schedules = canonical / seeded random (+ exhaustive delivery and start orders on 3-node shapes in the thorough tier)",
                 "DPOP: <= 4 variables, domains <= 3"],
    budget=dict(quick=dict(max_paths=40000, timeout_s=300), thorough=dict(max_paths=400000, timeout_s=3000)),
    desc="composite of real DpopAlgo objects on the real pseudo-tree: every computation finishes, assignment complete/in domain, cost == brute-force optimum",
)
