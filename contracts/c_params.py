"""Contracts on parameter handling and agent definitions (C28, C29, C31).

C28  pydcop.algorithms: check_param_value / prepare_algo_params /
     AlgorithmDef.build_with_default_param and pydcop.commands._utils.build_algo_def,
     on the parameter definitions of EVERY shipped algorithm (read at run time) plus
     synthetic definitions (int/float with allowed values, str without).        mode E
C29  pydcop.commands.batch: regularize_parameters / parameters_configuration /
     build_option_for_parameters / build_option_string.                         mode E
     (+ frame: the definition, the regularized definition and a combination are read,
     not written; results do not share lists / dicts with their argument; a second
     expansion of the same definition is the same)
C31  pydcop.dcop.objects: AgentDef.route / hosting_cost / __getattr__ / extra_attr and
     create_agents, every cost a universally quantified real.                   mode B

Postconditions are taken from the property statements.  Where the statement is silent
(e.g. is 5.0 an acceptable value for an 'int' parameter?) the oracle accepts both
outcomes ("may"): rejected with an error, or accepted with a result of the declared type
that denotes the user's value.  See _classify."""
import collections
import contextlib
import importlib
import io
import itertools
import math
import re

from pvc.contract import Contract
from pvc.explore import Raised
from pvc.sym import eq, is_sym


class _Prover:
    """env.prove, but a label that failed once on this path is not stated again
    (one witness per label and path is enough; keeps the replay list short)"""

    def __init__(self, env):
        self.env = env
        self.failed = set()

    def __call__(self, label, cond, detail=None):
        if label in self.failed:
            return False
        ok = self.env.prove(label, cond, detail)
        if not ok:
            self.failed.add(label)
        return ok


# =====================================================================================
# C28  algorithm parameters
# =====================================================================================

# Which exceptions count as "rejected with an error": the documented ValueError, and the
# errors python's own int()/float() conversion raises for objects that cannot be converted
# (int(None) -> TypeError, int(inf) -> OverflowError).  Anything else (KeyError,
# AttributeError, ...) would be an accident, not a rejection, and is not accepted.
_REJECT = (ValueError, TypeError, OverflowError)


class _CliExit(Exception):
    """build_algo_def reports a rejection with _error(): message on stdout + sys.exit(2)"""

    def __init__(self, code, out):
        Exception.__init__(self, "sys.exit(%r)" % (code,))
        self.code = code
        self.out = out


def _call_cli(env, fn, *a, **kw):
    buf = io.StringIO()

    def run():
        with contextlib.redirect_stdout(buf):
            try:
                return fn(*a, **kw)
            except SystemExit as e:
                raise _CliExit(e.code, buf.getvalue())

    return env.call(run)


_INT_LIT = re.compile(r"[+-]?[0-9]+\Z")
_FLOAT_LIT = re.compile(r"[+-]?([0-9]+(\.[0-9]*)?|\.[0-9]+)([eE][+-]?[0-9]+)?\Z")


def _is_type(v, t):
    if t == "int":
        return isinstance(v, int) and not isinstance(v, bool)
    if t == "float":
        return isinstance(v, float)
    if t == "str":
        return isinstance(v, str)
    return False


def _same(a, b):
    if isinstance(a, float) and isinstance(b, float) and math.isnan(a) and math.isnan(b):
        return True
    try:
        return bool(a == b)
    except Exception:  # noqa
        return False


def _classify(val, ptype, allowed):
    """oracle, from the statement: -> (verdict, expected, exact)

    'ok'     : a value the declared type obviously admits (a value of that type, an int for
               a float parameter, or the plain decimal literal of one given as a string -
               "typed-as-string values"): must be accepted, result == expected, of the
               declared type.
    'reject' : no reading of the value in the declared type exists (None, 'abc', ''), or the
               converted value is not one of the allowed values: must raise.
    'may'    : the statement does not decide (bool for a number, 5.0 / '5.0' / '1e3' / ' 7 '
               for an int, a number for a str, ' 7 ' / 'inf' for a float): either rejected,
               or accepted with a result of the declared type equal to `expected`
               (exact=False: a non-integral float for an int, any int within 1 of it).
    """
    verdict, exp, exact = "reject", None, True
    if ptype == "str":
        if type(val) is str:
            verdict, exp = "ok", val
        elif val is not None:
            verdict, exp = "may", str(val)
    elif ptype == "int":
        if type(val) is int:
            verdict, exp = "ok", val
        elif isinstance(val, bool):
            verdict, exp = "may", int(val)
        elif isinstance(val, float):
            if math.isfinite(val):
                if val == int(val):
                    verdict, exp = "may", int(val)
                else:
                    verdict, exp, exact = "may", val, False
        elif isinstance(val, str):
            if _INT_LIT.match(val):
                verdict, exp = "ok", int(val)
            else:
                try:
                    verdict, exp = "may", int(val)
                except ValueError:
                    try:
                        f = float(val)
                        if math.isfinite(f) and f == int(f):
                            verdict, exp = "may", int(f)
                    except ValueError:
                        pass
    elif ptype == "float":
        if type(val) is float:
            verdict, exp = "ok", val
        elif type(val) is int:
            verdict, exp = "ok", float(val)
        elif isinstance(val, bool):
            verdict, exp = "may", float(val)
        elif isinstance(val, str):
            if _FLOAT_LIT.match(val):
                verdict, exp = "ok", float(val)
            else:
                try:
                    verdict, exp = "may", float(val)
                except ValueError:
                    pass
    if verdict != "reject" and allowed:
        if exact:
            if not any(_same(exp, a) and _is_type(a, ptype) for a in allowed):
                verdict = "reject"
        else:
            verdict = "may" if any(abs(a - exp) < 1 for a in allowed if _is_type(a, "int")) else "reject"
    return verdict, exp, exact


def _conforms(r, ptype, exp, exact, allowed):
    """an accepted value: of the declared type, denotes the user's value, allowed"""
    if not _is_type(r, ptype):
        return False
    if exact:
        if not _same(r, exp):
            return False
    elif not abs(r - exp) < 1:
        return False
    if allowed and not any(_same(r, a) for a in allowed):
        return False
    return True


_BASE_POOL = [5, "5", 5.0, "5.0", 5.5, "abc", "", True, False, None, -1, "-1", "1e3", " 7 ", 0, "0",
              0.0, ".5", "+3", "2.", "0x10", "1,5", math.inf, "inf", "nan", "1_0", "５", "None", "True"]


def _swapcase_or_pad(s):
    return [s.swapcase(), s + " ", " " + s, s[:-1], s + s[-1:]]


def _pool_for(ptype, allowed):
    """typed pool + every allowed value (as declared and typed-as-string) + near misses"""
    pool = list(_BASE_POOL)
    for a in allowed or []:
        pool.append(a)
        if not isinstance(a, str):
            pool.append(str(a))
            pool.append(a + 1)
        else:
            pool.extend(x for x in _swapcase_or_pad(a) if x not in (allowed or []))
    seen, out = [], []
    for v in pool:
        k = (type(v).__name__, repr(v))
        if k not in seen:
            seen.append(k)
            out.append(v)
    return out


# ---------------------------------------------------------------- check_param_value

_SYNTH_DEFS = [
    ("pi", "int", None, 7),
    ("pf", "float", None, 0.25),
    ("ps", "str", None, "x"),
    ("vi", "int", [1, 2, 5], 2),
    ("vf", "float", [0.5, 1.0, 5.0], 0.5),
    ("vs", "str", ["A", "b", "5", "none", ""], "b"),
    ("es", "str", [], "q"),
    ("v0", "int", [0, -1], 0),
]


def h_check_param_value(env):
    P = _Prover(env)
    A = env.call(importlib.import_module, "pydcop.algorithms")
    if isinstance(A, Raised):
        P("check_param_value.module-imports", False, detail=lambda: A.tb)
        return
    name, ptype, allowed, default = env.params["pdef"]
    pdef = A.AlgoParameterDef(name, ptype, allowed, default)
    pool = _pool_for(ptype, allowed)
    val = pool[env.choice("value", range(len(pool)))]
    verdict, exp, exact = _classify(val, ptype, allowed)
    r = env.call(A.check_param_value, val, pdef)
    env.cover(verdict)
    det = lambda: dict(value=val, definition=(name, ptype, allowed), expected=(verdict, exp), got=r)  # noqa
    if isinstance(r, Raised):
        P("check_param_value.valid-value-accepted", verdict != "ok", det)
        P("check_param_value.rejection-is-ValueError-or-conversion-error", isinstance(r.exc, _REJECT), det)
        return
    P("check_param_value.invalid-or-disallowed-value-rejected", verdict != "reject", det)
    if verdict != "reject":
        P("check_param_value.result-has-declared-type", _is_type(r, ptype), det)
        P("check_param_value.result-is-the-user-value-converted", _conforms(r, ptype, exp, exact, None), det)
        P("check_param_value.result-is-an-allowed-value", (not allowed) or any(_same(r, a) for a in allowed), det)


Contract(
    "params.check_param_value", ["C28"],
    ["pydcop.algorithms:check_param_value", "pydcop.algorithms:is_of_type_by_str"],
    h_check_param_value,
    lambda tier: [dict(pdef=list(d)) for d in _SYNTH_DEFS],
    mode="E", must_cover=["ok", "reject", "may"],
    desc="one value against one definition: accepted iff convertible to the declared type and allowed; result typed, equal, allowed; "
         "otherwise ValueError/TypeError/OverflowError",
)


# ---------------------------------------------------------------- prepare / build / cli over all algorithms

def _algo_names():
    try:
        from pydcop.algorithms import list_available_algorithms
        return list(list_available_algorithms())
    except BaseException:  # noqa  (becomes an obligation failure inside the harness)
        return [None]


_SYNTH_ALGO = [("n", "int", [1, 2, 3], 2), ("f", "float", [0.5, 1.0, 2.0], 0.5), ("s", "str", None, "x"), ("z", "int", None, None)]


def _shapes_algos(tier):
    step = 1 if tier == "thorough" else 6     # profiles handled per path
    out = [dict(algo=a, step=step) for a in _algo_names()]
    out.append(dict(algo=None, defs=[list(d) for d in _SYNTH_ALGO], step=step))
    return out


def _unknown_names(names):
    out = ["bogus", ""]
    for n in names[:2]:
        out += [n + " ", n.upper() if n.upper() != n else n.lower(), n[:-1], n + "s"]
    return [u for u in out if u not in names]


def _judge(P, tag, r, result_of, defs, user, unknown, extra_reject=()):
    """the C28 postcondition for one entry point.
    r: what the entry point returned (or Raised); result_of(r) -> the params dict"""
    names = [d.name for d in defs]
    cls = {d.name: _classify(user[d.name], d.type, d.values) for d in defs if d.name in user}
    must_reject = unknown is not None or any(c[0] == "reject" for c in cls.values())
    all_ok = unknown is None and all(c[0] == "ok" for c in cls.values())
    det = lambda: dict(user=user, unknown=unknown, oracle=cls, got=r, out=getattr(getattr(r, "exc", None), "out", None))  # noqa
    if isinstance(r, Raised):
        P(tag + ".valid-parameters-accepted", not all_ok, det)
        P(tag + ".rejection-is-a-proper-error", isinstance(r.exc, _REJECT + tuple(extra_reject))
          and (not isinstance(r.exc, _CliExit) or r.exc.code not in (0, None)), det)
        return None
    P(tag + ".unknown-parameter-rejected", unknown is None, det)
    P(tag + ".invalid-value-rejected", not any(c[0] == "reject" for c in cls.values()), det)
    if must_reject:
        return None
    res = result_of(r)
    ok = isinstance(res, dict)
    P(tag + ".result-is-a-dict-of-parameters", ok, det)
    if not ok:
        return None
    P(tag + ".result-has-exactly-the-declared-names", sorted(res.keys(), key=str) == sorted(names), lambda: dict(got=sorted(res.keys(), key=str), declared=names, user=user))
    for d in defs:
        if d.name not in res:
            continue
        got = res[d.name]
        if d.name in user:
            verdict, exp, exact = cls[d.name]
            P(tag + ".supplied-value-converted-to-declared-type", _is_type(got, d.type),
              lambda: dict(param=tuple(d), user=user[d.name], got=got))
            P(tag + ".supplied-value-kept", _conforms(got, d.type, exp, exact, None),
              lambda: dict(param=tuple(d), user=user[d.name], expected=exp, got=got))
            P(tag + ".supplied-value-is-allowed", (not d.values) or any(_same(got, a) for a in d.values),
              lambda: dict(param=tuple(d), user=user[d.name], got=got))
        else:
            P(tag + ".missing-parameter-gets-declared-default", type(got) is type(d.default_value) and _same(got, d.default_value),
              lambda: dict(param=tuple(d), got=got))
    return res


def h_algo_params(env):
    P = _Prover(env)
    p = env.params
    A = env.call(importlib.import_module, "pydcop.algorithms")
    if isinstance(A, Raised):
        P("params.algorithms-package-imports", False, detail=lambda: A.tb)
        return
    if p.get("algo") is None and not p.get("defs"):
        P("params.list_available_algorithms-works", False)
        return
    mod = None
    if p.get("algo"):
        algo = p["algo"]
        mod = env.call(A.load_algorithm_module, algo)
        if isinstance(mod, Raised):
            P("params.algorithm-module-loads", False, detail=lambda: (algo, mod.tb))
            return
        defs = list(mod.algo_params)
    else:
        algo = "synthetic"
        defs = [A.AlgoParameterDef(*d) for d in p["defs"]]
    wf = all(isinstance(d, A.AlgoParameterDef) and isinstance(d.name, str) and d.type in ("int", "float", "str") for d in defs)
    P("params.declarations-are-wellformed-AlgoParameterDef", wf and len({d.name for d in defs}) == len(defs), detail=lambda: defs)
    if not wf:
        return
    names = [d.name for d in defs]
    n = len(defs)

    mask = env.choice("supplied", range(2 ** n))
    supplied = [d for i, d in enumerate(defs) if (mask >> i) & 1]
    pools = {d.name: _pool_for(d.type, d.values) for d in supplied}
    valid = {d.name: [v for v in pools[d.name] if _classify(v, d.type, d.values)[0] == "ok"] for d in supplied}
    L = max([len(v) for v in pools.values()] + [2])
    step = p.get("step", 6)
    k0 = env.choice("profiles", range(0, L, step))
    unknowns = _unknown_names(names)
    for k in range(k0, min(k0 + step, L)):
        for family in ("mixed", "valid"):
            if family == "valid" and (not supplied or any(not valid[d.name] for d in supplied)):
                continue
            for unknown in ([None] + unknowns if (k < 2 and family == "mixed") else [None]):
                _algo_case(env, P, A, mod, algo, defs, supplied, pools if family == "mixed" else valid, mask, k, unknown)


def _dict_unchanged(d, before):
    return list(d.keys()) == list(before.keys()) and all(d[k] is before[k] for k in before)


def _algo_case(env, P, A, mod, algo, defs, supplied, pools, mask, k, unknown):
    """one user dict through the three entry points"""
    mode = ["min", "max"][(k + mask) % 2]
    user = {}
    if unknown is not None and k % 2 == 0:
        user[unknown] = 1
    order = list(enumerate(supplied))
    if (k // 2) % 2:
        order.reverse()
    for j, d in order:
        pool = pools[d.name]
        user[d.name] = pool[(k + 7 * j) % len(pool)]
    if unknown is not None and k % 2 == 1:
        user[unknown] = "A"
    given = dict(user)

    if unknown is not None:
        env.cover("unknown-name")
    elif not supplied:
        env.cover("defaults-only")
    elif all(_classify(user[d.name], d.type, d.values)[0] == "ok" for d in supplied):
        env.cover("all-valid")
        if len(supplied) > 1:
            env.cover("several-valid")
    elif any(_classify(user[d.name], d.type, d.values)[0] == "reject" for d in supplied):
        env.cover("some-invalid")

    # --- prepare_algo_params
    r = env.call(A.prepare_algo_params, user, defs)
    _judge(P, "prepare", r, lambda x: x, defs, given, unknown)
    # frame: what the user supplied is still what the user supplied (the same dict is typically reused for several
    # algorithms: a preparation that writes converted values / defaults back into it makes the next one reject it)
    P("prepare.frame.user-supplied-dict-unchanged", _dict_unchanged(user, given), lambda: (user, given))

    # --- AlgorithmDef.build_with_default_param (definitions loaded from the module, or explicit)
    explicit = mod is None or (k % 3 == 0)
    user2 = dict(given)
    if not supplied and unknown is None and k % 2:
        r2 = env.call(A.AlgorithmDef.build_with_default_param, algo, None, mode, defs if explicit else None)
    else:
        r2 = env.call(A.AlgorithmDef.build_with_default_param, algo, user2, mode, defs if explicit else None)
    res2 = _judge(P, "build", r2, lambda x: x.params if isinstance(x, A.AlgorithmDef) else x, defs, given, unknown)
    P("build.frame.user-supplied-dict-unchanged", _dict_unchanged(user2, given), lambda: (user2, given))
    if res2 is not None and isinstance(r2, A.AlgorithmDef):
        P("build.algo-and-mode-kept", r2.algo == algo and r2.mode == mode, lambda: (r2.algo, r2.mode, algo, mode))
        P("build.param_names-and-param_value-agree-with-params",
          sorted(r2.param_names(), key=str) == sorted(res2.keys(), key=str) and all(_same(r2.param_value(kk), vv) for kk, vv in res2.items()))

    # --- command line: 'name:value' strings (only module-backed algorithms, as the commands do)
    if mod is not None:
        U = importlib.import_module("pydcop.commands._utils")
        cli_user = {kk: (vv if isinstance(vv, str) else str(vv)) for kk, vv in given.items()}
        if any(":" in kk or ":" in vv for kk, vv in cli_user.items()):
            return
        cli = ["%s:%s" % (kk, vv) for kk, vv in cli_user.items()]
        if not cli and k % 2:
            cli = None
        r3 = _call_cli(env, U.build_algo_def, mod, algo, mode, cli)
        res3 = _judge(P, "cli", r3, lambda x: x.params if isinstance(x, A.AlgorithmDef) else x, defs, cli_user, unknown,
                      extra_reject=(_CliExit,))
        if res3 is not None and isinstance(r3, A.AlgorithmDef):
            P("cli.algo-and-objective-kept", r3.algo == algo and r3.mode == mode, lambda: (r3.algo, r3.mode, algo, mode))


Contract(
    "params.all-algorithms", ["C28"],
    ["pydcop.algorithms:prepare_algo_params", "pydcop.algorithms:check_param_value", "pydcop.algorithms:is_of_type_by_str",
     "pydcop.algorithms:AlgorithmDef.build_with_default_param", "pydcop.algorithms:load_algorithm_module",
     "pydcop.algorithms:list_available_algorithms", "pydcop.commands._utils:build_algo_def"],
    h_algo_params, _shapes_algos,
    mode="E", must_cover=["unknown-name", "defaults-only", "all-valid", "several-valid", "some-invalid"],
    assumptions=["C28: user values are drawn from a typed pool (ints, floats, bools, None, numeric / non-numeric / padded strings, every allowed "
                 "value and near misses); each supplied subset x each pool position is explored, not the full product of values",
                 "C28: where the statement does not decide whether a value denotes a value of the declared type (bool, 5.0 or '1e3' for an int, "
                 "a number for a str, padded strings) both rejection and a typed, equal result are accepted",
                 "C28: 'rejected with an error' = ValueError, TypeError or OverflowError (python conversion errors); sys.exit(!=0) for the command line"],
    budget=dict(quick=dict(max_paths=60000, timeout_s=300)),
    desc="for every shipped algorithm (and a synthetic definition list): every subset of declared parameters x typed value pool x unknown names, "
         "through prepare_algo_params, AlgorithmDef.build_with_default_param and build_algo_def('name:value'): result keys == declared names, "
         "supplied converted/typed/allowed, missing defaulted, unknown name / invalid value rejected",
)


# =====================================================================================
# C29  batch parameter expansion
# =====================================================================================

_B_NAMES = ["p2", "algo", "Z", "p10"]          # insertion order is not the sorted order ('Z' < 'algo' < 'p10' < 'p2')
_B_SUBNAMES = ["stop", "Var", "b1", "a"]
_B_VALUES = {
    "str": ["b", "", "a", "B", "10", "9", "x_y", "0"],
    "int": [10, 9, 0, 2, 100, -1, 33, 7],
    "mixed": [10, "b", 0, 2.5, "", True, "9", 0.1],
}


def _b_values(kind, k, off):
    vs = _B_VALUES[kind]
    return [vs[(off + i) % len(vs)] for i in range(k)]


def _b_build(spec, kind):
    """spec entry: int k -> list of k values | 's' -> scalar | list -> nested dict of such"""
    d = {}
    for i, e in enumerate(spec):
        name = _B_NAMES[i]
        if isinstance(e, (list, tuple)):
            sub = {}
            for j, se in enumerate(e):
                sub[_B_SUBNAMES[j]] = _b_values(kind, 1, i + j + 3)[0] if se == "s" else _b_values(kind, se, i + 2 * j + 1)
            d[name] = sub
        elif e == "s":
            d[name] = _b_values(kind, 1, i + 5)[0]
        else:
            d[name] = _b_values(kind, e, 2 * i)
    return d


def _b_leaf_lists(v):
    return [str(x) for x in v] if isinstance(v, list) else [str(v)]


def _b_expected(defn):
    """the cartesian product, as a set of frozen combinations"""
    axes = []
    for name, v in defn.items():
        if isinstance(v, dict):
            subaxes = [[(sn, x) for x in _b_leaf_lists(sv)] for sn, sv in v.items()]
            axes.append([(name, frozenset(c)) for c in itertools.product(*subaxes)])
        else:
            axes.append([(name, x) for x in _b_leaf_lists(v)])
    return [frozenset(c) for c in itertools.product(*axes)]


def _b_freeze(combo):
    out = []
    for k, v in combo.items():
        out.append((k, frozenset((sk, str(sv)) for sk, sv in v.items()) if isinstance(v, dict) else str(v)))
    return frozenset(out)


def _b_permuted(defn, perm, vrot):
    names = list(defn.keys())
    out = {}
    for i in perm:
        v = defn[names[i]]
        if isinstance(v, dict):
            items = list(v.items())
            if vrot:
                items.reverse()
            v = {sk: (list(reversed(sv)) if (isinstance(sv, list) and vrot == 1) else (sv[1:] + sv[:1] if isinstance(sv, list) and vrot == 2 else sv)) for sk, sv in items}
        elif isinstance(v, list):
            v = list(reversed(v)) if vrot == 1 else (v[1:] + v[:1] if vrot == 2 else list(v))
        out[names[i]] = v
    return out


def _b_parse(s):
    """rendered option string -> multiset of (option, value)"""
    pairs = []
    cur = None
    for tok in s.split():
        if tok.startswith("--"):
            if cur is not None:
                pairs.append((cur, ""))
            cur = tok[2:]
        else:
            pairs.append((cur, tok))
            cur = None
    if cur is not None:
        pairs.append((cur, ""))
    return collections.Counter(pairs)


def _b_wellformed(combo, defn):
    """one value for every declared parameter (and sub-parameter), nothing else"""
    if set(combo.keys()) != set(defn.keys()):
        return False
    for k, v in defn.items():
        if isinstance(v, dict):
            if not isinstance(combo[k], dict) or set(combo[k].keys()) != set(v.keys()):
                return False
            if any(isinstance(x, (dict, list)) for x in combo[k].values()):
                return False
        elif isinstance(combo[k], (dict, list)):
            return False
    return True


def _b_has_empty_dict(defn):
    return (not defn) or any(isinstance(v, dict) and not v for v in defn.values())


def _b_observe(d):
    """a parameters definition / a combination as its owner reads it: keys in order, every value by type and content,
    value lists and sub-definitions by identity too (a rebuilt but equal list is a write into the caller's dict)"""
    out = []
    for k, v in d.items():
        if isinstance(v, dict):
            out.append((k, "dict", id(v), tuple(_b_observe(v))))
        elif isinstance(v, list):
            out.append((k, "list", id(v), tuple((type(x).__name__, repr(x)) for x in v)))
        else:
            out.append((k, type(v).__name__, repr(v)))
    return out


def _b_scribble(x):
    """edit a returned structure in place, at every level"""
    if isinstance(x, dict):
        for v in list(x.values()):
            _b_scribble(v)
        x["zz_added"] = ["zz"]
    elif isinstance(x, list):
        for v in x:
            _b_scribble(v)
        x.append("zz_appended")
        x.reverse()


def h_batch(env):
    P = _Prover(env)
    p = env.params
    B = env.call(importlib.import_module, "pydcop.commands.batch")
    if isinstance(B, Raised):
        P("batch.module-imports", False, detail=lambda: B.tb)
        return
    spec = env.choice("spec", p["specs"])
    kind = env.choice("values", p.get("kinds", ["str", "int", "mixed"]))
    defn = _b_build(spec, kind)
    empty = _b_has_empty_dict(defn)

    def expand(d):
        return B.parameters_configuration(B.regularize_parameters(d))

    defn_before = _b_observe(defn)
    keep = [v for v in defn.values()]   # (keeps the observed objects alive: identities stay meaningful)
    r = env.call(expand, defn)
    det = lambda: dict(definition=defn, got=r)  # noqa
    # frame: the definition loaded from the batch file is read, not written (run_batch expands it once per problem set and
    # once more for the estimation)
    P("expand.frame.definition-unchanged", _b_observe(defn) == defn_before, lambda: dict(before=defn_before, after=_b_observe(defn)))
    if isinstance(r, Raised):
        if empty:
            P("expand.definition-without-parameters-has-exactly-one-empty-combination", False, det)
        else:
            P("expand.no-raise", False, lambda: (defn, r.tb))
        return
    env.cover("expanded")
    ok = isinstance(r, list) and all(isinstance(c, dict) for c in r)
    P("expand.returns-list-of-dicts", ok, det)
    if not ok:
        return
    names = set(defn.keys())
    P("expand.each-combination-assigns-exactly-the-declared-parameters", all(_b_wellformed(c, defn) for c in r), det)
    expected = _b_expected(defn)
    got = [_b_freeze(c) for c in r]
    eset, gset = set(expected), set(got)
    lab = "expand.definition-without-parameters-has-exactly-one-empty-combination" if empty else None
    P(lab or "expand.every-combination-is-listed", eset <= gset, lambda: dict(definition=defn, missing=[sorted(map(str, x)) for x in list(eset - gset)[:3]], n_got=len(got), n_expected=len(expected)))
    P(lab or "expand.only-combinations-of-declared-values-are-listed", gset <= eset, lambda: dict(definition=defn, extra=[sorted(map(str, x)) for x in list(gset - eset)[:3]]))
    P(lab or "expand.no-combination-is-listed-twice", len(got) == len(gset) and len(got) == len(expected), lambda: dict(definition=defn, n_got=len(got), n_distinct=len(gset), n_expected=len(expected)))

    # deterministic order: the same list, in the same order, for every order of the input dict and of the value lists
    n = len(defn)
    perms = list(itertools.permutations(range(n)))
    if len(perms) > 8:
        perms = perms[::3] + [perms[-1]]
    base_repr = repr(r)
    for perm in perms:
        for vrot in (0, 1, 2):
            if perm == tuple(range(n)) and vrot == 0:
                continue
            d2 = _b_permuted(defn, perm, vrot)
            r2 = env.call(expand, d2)
            if isinstance(r2, Raised):
                P("expand.no-raise-on-permuted-definition", False, lambda: (d2, r2.tb))
                break
            P("expand.order-of-combinations-independent-of-input-order", r2 == r, lambda: dict(definition=defn, permuted=d2, base=r[:6], got=r2[:6]))
            P("expand.text-of-combinations-independent-of-input-order", repr(r2) == base_repr, lambda: dict(definition=defn, permuted=d2, base=base_repr[:300], got=repr(r2)[:300]))

    P("expand.frame.definition-unchanged", _b_observe(defn) == defn_before, lambda: dict(before=defn_before, after=_b_observe(defn)))
    _b_frame_steps(env, P, B, defn, defn_before, r)

    # rendering: every chosen value exactly once, nothing else
    sample = r if len(r) <= 48 else r[:24] + r[-24:]
    for c in sample:
        c_before = _b_observe(c)
        s = env.call(B.build_option_for_parameters, c)
        P("render.frame.combination-unchanged", _b_observe(c) == c_before, lambda: dict(before=c_before, after=_b_observe(c)))
        if isinstance(s, Raised) or not isinstance(s, str):
            P("render.returns-a-string", False, lambda: (c, s))
            break
        want = collections.Counter()
        for k, v in c.items():
            if isinstance(v, dict):
                for sk, sv in v.items():
                    want[(k, "%s:%s" % (sk, sv))] += 1
            else:
                want[(k, str(v))] += 1
        have = _b_parse(s)
        env.cover("rendered")
        P("render.each-chosen-value-exactly-once", have == want, lambda: dict(combination=c, rendered=s, parsed=dict(have), expected=dict(want)))
        for k, v in c.items():
            if not isinstance(v, dict):
                one = env.call(B.build_option_string, k, v)
                P("render.single-option-is-name-then-value", isinstance(one, str) and _b_parse(one) == collections.Counter([(k, str(v))]), lambda: (k, v, one))


def _b_frame_steps(env, P, B, defn, defn_before, r):
    """the two steps of the expansion taken apart: each one reads its argument and returns a structure of its own"""
    reg = env.call(B.regularize_parameters, defn)
    if isinstance(reg, Raised) or not isinstance(reg, dict):
        return
    reg_before = _b_observe(reg)
    keep = list(reg.values())  # noqa
    r1 = env.call(B.parameters_configuration, reg)
    P("expand.frame.regularized-definition-unchanged-by-parameters_configuration", _b_observe(reg) == reg_before,
      lambda: dict(before=reg_before, after=_b_observe(reg)))
    if isinstance(r1, Raised):
        return
    # the combinations are the caller's (run_batch fills them into command lines, a caller may add defaults): editing them
    # reaches neither the regularized definition nor the next expansion of it
    r1_text = repr(r1)
    P("expand.frame.two-step-expansion-equals-the-one-step-expansion", r1 == r, lambda: dict(definition=defn, one_step=r[:6], two_steps=r1[:6]))
    for c in r1:
        _b_scribble(c)
    _b_scribble(r1)
    P("expand.frame.regularized-definition-unchanged-by-editing-the-combinations", _b_observe(reg) == reg_before,
      lambda: dict(before=reg_before, after=_b_observe(reg)))
    r2 = env.call(B.parameters_configuration, reg)
    P("expand.frame.second-expansion-of-the-same-regularized-definition-is-the-same", (not isinstance(r2, Raised)) and repr(r2) == r1_text,
      lambda: dict(definition=defn, first=r1_text[:300], second=repr(r2)[:300]))
    # the regularized definition is a structure of its own: editing it does not reach the definition it was made from
    _b_scribble(reg)
    P("expand.frame.definition-unchanged-by-editing-the-regularized-definition", _b_observe(defn) == defn_before,
      lambda: dict(before=defn_before, after=_b_observe(defn)))
    r3 = env.call(lambda: B.parameters_configuration(B.regularize_parameters(defn)))
    P("expand.frame.second-expansion-of-the-same-definition-is-the-same", (not isinstance(r3, Raised)) and r3 == r,
      lambda: dict(definition=defn, first=r[:6], second=(r3 if isinstance(r3, Raised) else r3[:6])))


def _b_flat_specs(sizes, nmax):
    out = []
    for n in range(1, nmax + 1):
        out += [list(c) for c in itertools.combinations_with_replacement(sizes, n)]
    return out


def _chunks(xs, k):
    return [xs[i:i + k] for i in range(0, len(xs), k)]


_B_NESTED_Q = [[[2]], [[2, 2]], [2, [2, "s"]], ["s", [3, 2], 2], [[1], [2]], [[2, 1, 2], "s"], [3, [0]], [[2, 0], 2], [0], [2, 0], [0, 0, "s"],
               [[3, "s", 2], 2, [2]], [4, [4]], ["s", "s", [2, 2], 3]]
_B_NESTED_T = [[[4, 4], 4, 4], [[4, 4, 4, 4]], [[2, 2, 2, 2], 2, 2, 2], [[3, 3], [3, 3], 3], [4, 4, 4, [4, "s"]], [[4], [4], [4], [4]]]
_B_EMPTY = [[], [[]], [2, []], [[], "s", 1]]


def _shapes_batch(tier):
    if tier == "thorough":
        flat = _b_flat_specs(["s", 1, 2, 3, 4], 4)
        nested = _B_NESTED_Q + _B_NESTED_T
    else:
        flat = _b_flat_specs(["s", 1, 2, 4], 4)
        nested = _B_NESTED_Q
    shapes = [dict(specs=c) for c in _chunks(flat, 8)] + [dict(specs=c) for c in _chunks(nested, 4)]
    shapes.append(dict(specs=_B_EMPTY, kinds=["str"]))
    return shapes


Contract(
    "batch.expand-and-render", ["C29"],
    ["pydcop.commands.batch:parameters_configuration", "pydcop.commands.batch:regularize_parameters",
     "pydcop.commands.batch:build_option_for_parameters", "pydcop.commands.batch:build_option_string"],
    h_batch, _shapes_batch,
    mode="E", must_cover=["expanded", "rendered"],
    assumptions=["C29: the values of one parameter are distinct after conversion to text (a list such as [1, '1'] is excluded)",
                 "C29: values contain no whitespace, ':' or leading '--' (the rendered string is compared as a multiset of (option, value) tokens)",
                 "C29: parameters_configuration is applied to regularize_parameters(definition), as run_batch and estimate_batch do"],
    budget=dict(quick=dict(max_paths=20000, timeout_s=240)),
    desc="regularize+expand: exactly the cartesian product (nested sub-parameters included), each combination once, same list for every "
         "order of the input dict / value lists; build_option_for_parameters renders exactly one '--name value' / '--name sub:value' per chosen value",
)


# =====================================================================================
# C31  agent definitions
# =====================================================================================

def _num_same(a, b):
    """equality obligation that never forks; non numeric values compared natively"""
    if is_sym(a) or is_sym(b):
        for x in (a, b):
            if not is_sym(x) and (isinstance(x, bool) or not isinstance(x, (int, float))):
                return False
        return eq(a, b)
    if type(a) is not type(b) and not (isinstance(a, (int, float)) and isinstance(b, (int, float))):
        return False
    return bool(a == b)


_AG_OTHERS = ["a10", "a1", "b", "A2", "a2 ", ""]
_AG_COMPS = ["c10", "c1", "x", "a2", ""]


def _extras(env, which):
    out = {}
    if "capacity" in which:
        out["capacity"] = env.real("capacity")
    if "foo" in which:
        out["foo"] = ""
    if "zone" in which:
        out["zone"] = 0
    if "tag" in which:
        out["tag"] = "bar"
    if "none" in which:
        out["nothing"] = None
    return out


def h_agentdef(env):
    P = _Prover(env)
    p = env.params
    O = env.call(importlib.import_module, "pydcop.dcop.objects")
    if isinstance(O, Raised):
        P("agentdef.module-imports", False, detail=lambda: O.tb)
        return
    name = "a2"
    kw = {}
    dr_given = env.choice("default_route", ["given", "omitted"])
    if dr_given == "given":
        kw["default_route"] = env.real("default_route")
    rkind = env.choice("routes", ["none", "others", "others+self", "empty"])
    routes = None
    if rkind != "none":
        routes = {}
        if rkind != "empty":
            for o in _AG_OTHERS[:p["n_routes"]]:
                routes[o] = env.real("route[%s]" % o)
            if rkind == "others+self":
                routes[name] = env.real("route[self]")
        kw["routes"] = routes
    dh_given = env.choice("default_hosting_cost", ["given", "omitted"])
    if dh_given == "given":
        kw["default_hosting_cost"] = env.real("default_hosting_cost")
    hkind = env.choice("hosting_costs", ["none", "some", "empty"])
    hosting = None
    if hkind != "none":
        hosting = {}
        if hkind == "some":
            for c in _AG_COMPS[:p["n_hosting"]]:
                hosting[c] = env.real("hosting[%s]" % c)
        kw["hosting_costs"] = hosting
    extras = _extras(env, p.get("extras", []))
    routes_before = dict(routes) if routes is not None else None
    hosting_before = dict(hosting) if hosting is not None else None
    a = env.call(O.AgentDef, name, **kw, **extras)
    if isinstance(a, Raised):
        P("agentdef.constructor-no-raise", False, detail=lambda: a.tb)
        return
    env.cover("post")
    exp_default_route = kw.get("default_route", 1)
    exp_default_host = kw.get("default_hosting_cost", 0)
    for other in [name] + _AG_OTHERS:
        got = env.call(a.route, other)
        if isinstance(got, Raised):
            P("route.no-raise", False, lambda: (other, got.tb))
            break
        if other == name:
            P("route.to-itself-is-0", _num_same(got, 0), lambda: (rkind, got))
        elif routes_before is not None and other in routes_before:
            P("route.specific-route-is-returned", _num_same(got, routes_before[other]), lambda: (other, got, routes_before))
        else:
            P("route.otherwise-the-default-route", _num_same(got, exp_default_route), lambda: (other, got, exp_default_route, dr_given))
    for c in _AG_COMPS + ["zz"]:
        got = env.call(a.hosting_cost, c)
        if isinstance(got, Raised):
            P("hosting_cost.no-raise", False, lambda: (c, got.tb))
            break
        if hosting_before is not None and c in hosting_before:
            P("hosting_cost.specific-cost-is-returned", _num_same(got, hosting_before[c]), lambda: (c, got, hosting_before))
        else:
            P("hosting_cost.otherwise-the-default-hosting-cost", _num_same(got, exp_default_host), lambda: (c, got, exp_default_host, dh_given))
    # frame: route() / hosting_cost() are observers. The tables handed in by the caller are not modified, and a second
    # definition built on the SAME tables (what create_agents does for a whole family) with its own defaults
    # still answers from its own cost model after the first one has been queried.
    if routes is not None:
        P("agentdef.frame.routes-table-of-the-caller-unchanged-by-queries",
          list(routes.keys()) == list(routes_before.keys()) and all(routes[k] is routes_before[k] for k in routes_before),
          lambda: (routes, routes_before))
    if hosting is not None:
        P("agentdef.frame.hosting-costs-table-of-the-caller-unchanged-by-queries",
          list(hosting.keys()) == list(hosting_before.keys()) and all(hosting[k] is hosting_before[k] for k in hosting_before),
          lambda: (hosting, hosting_before))
    kw2 = dict(kw)
    kw2["default_route"] = env.real("default_route_2")
    kw2["default_hosting_cost"] = env.real("default_hosting_cost_2")
    b = env.call(O.AgentDef, "a3", **kw2)
    if isinstance(b, Raised):
        P("agentdef.constructor-no-raise", False, detail=lambda: b.tb)
        return
    for c in _AG_COMPS + ["zz"]:
        got = env.call(b.hosting_cost, c)
        if isinstance(got, Raised):
            P("hosting_cost.no-raise", False, lambda: (c, got.tb))
            break
        want = hosting_before[c] if (hosting_before is not None and c in hosting_before) else kw2["default_hosting_cost"]
        P("hosting_cost.second-definition-on-the-same-table-answers-from-its-own-model", _num_same(got, want), lambda: (c, got, want))
    for other in _AG_OTHERS:
        if other == "a3":
            continue
        got = env.call(b.route, other)
        if isinstance(got, Raised):
            P("route.no-raise", False, lambda: (other, got.tb))
            break
        want = routes_before[other] if (routes_before is not None and other in routes_before) else kw2["default_route"]
        P("route.second-definition-on-the-same-table-answers-from-its-own-model", _num_same(got, want), lambda: (other, got, want))
    for k, v in extras.items():
        got = env.call(getattr, a, k)
        if isinstance(got, Raised):
            P("extra.attribute-readable", False, lambda: (k, got.tb))
            continue
        P("extra.attribute-readable", _num_same(got, v), lambda: (k, got, v))
    ea = env.call(a.extra_attr)
    P("extra.extra_attr-lists-exactly-the-extra-attributes", isinstance(ea, dict) and set(ea.keys()) == set(extras.keys())
      and all(_num_same(ea[k], v) is True or is_sym(v) for k, v in extras.items()), lambda: (ea, extras))
    if isinstance(ea, dict):
        for k, v in extras.items():
            if k in ea and is_sym(v):
                P("extra.extra_attr-lists-exactly-the-extra-attributes", _num_same(ea[k], v), lambda: (k, ea, extras))
    P("agentdef.name-kept", a.name == name)


Contract(
    "agents.AgentDef.costs", ["C31"],
    ["pydcop.dcop.objects:AgentDef.__init__", "pydcop.dcop.objects:AgentDef.route", "pydcop.dcop.objects:AgentDef.hosting_cost",
     "pydcop.dcop.objects:AgentDef.__getattr__", "pydcop.dcop.objects:AgentDef.extra_attr"],
    h_agentdef,
    lambda tier: [dict(n_routes=2, n_hosting=2, extras=["capacity", "foo", "zone"]), dict(n_routes=1, n_hosting=1, extras=[]),
                  dict(n_routes=6, n_hosting=5, extras=["tag", "none", "capacity"])]
    + ([dict(n_routes=4, n_hosting=4, extras=["capacity", "foo", "zone", "tag", "none"])] if tier == "thorough" else []),
    mode="B", must_cover=["post"],
    assumptions=["C31: extra attribute names are identifiers that are neither constructor parameters nor members of AgentDef",
                 "C31: when default_route / default_hosting_cost are not given the documented defaults 1 / 0 are 'the default'"],
    desc="route(self)=0 (even with an explicit route to itself), route(listed)=that route, else default route; hosting_cost(listed)=that cost "
         "else default; extra keyword attributes readable as attributes and through extra_attr(); all costs symbolic reals",
)


# ---------------------------------------------------------------- create_agents

_CA_INDEXES = {
    "list-str": (["3", "1", "2"], None),
    "list-int": ([3, 10], None),
    "list-one": (["x"], None),
    "range3": ("range:0:3", None),
    "range12": ("range:8:12", None),
    "range10": ("range:8:10", None),
    "range-empty": ("range:0:0", None),
    "tuple2x3": ("tuple", (["x2", "x1"], ["a1", "a3", "a2"])),
    "tuple1": ("tuple", (["k", "j"],)),
    "tuple3": ("tuple", (["u"], ["v", "w"], ["0", "1"])),
}


def _ca_indexes(kind):
    a, b = _CA_INDEXES[kind]
    if a == "tuple":
        return tuple(list(x) for x in b)
    if isinstance(a, str) and a.startswith("range:"):
        _, lo, hi = a.split(":")
        return range(int(lo), int(hi))
    return list(a)


def _ca_expected_names(prefix, kind, sep):
    """index -> (key, name), from create_agents' docstring"""
    idx = _ca_indexes(kind)
    if isinstance(idx, tuple):
        return [(tuple(c), prefix + sep.join(c)) for c in itertools.product(*idx)]
    if isinstance(idx, range):
        w = len(str(idx.stop - 1))
        return [(prefix + str(i).zfill(w), prefix + str(i).zfill(w)) for i in idx]
    return [(prefix + str(i), prefix + str(i)) for i in idx]


def h_create_agents(env):
    P = _Prover(env)
    p = env.params
    focus = p["focus"]
    O = env.call(importlib.import_module, "pydcop.dcop.objects")
    if isinstance(O, Raised):
        P("create_agents.module-imports", False, detail=lambda: O.tb)
        return
    kind = env.choice("indexes", p["index_kinds"])
    prefix = ["a", "m_"][p["index_kinds"].index(kind) % 2] if "prefixes" not in p else p["prefixes"][0]
    sep = env.choice("separator", ["default", "-", ""]) if kind.startswith("tuple") else "default"
    expected = _ca_expected_names(prefix, kind, "_" if sep == "default" else sep)
    exp_names = [n for _, n in expected]

    kw, ref_kw = {}, {}
    if env.choice("default_route", ["given", "omitted"]) == "given":
        kw["default_route"] = ref_kw["default_route"] = env.real("default_route")
    rkind = env.choice("routes", ["none", "some"])
    if rkind == "some":
        routes = {"zz": env.real("route[zz]")}
        if exp_names:
            routes[exp_names[-1]] = env.real("route[last]")   # a route to one of the created agents
        kw["routes"] = routes
        ref_kw["routes"] = dict(routes)
    if p["dhc"] == "given":
        # create_agents calls it default_hosting_costs, AgentDef default_hosting_cost: the same argument
        kw["default_hosting_costs"] = ref_kw["default_hosting_cost"] = env.real("default_hosting_costs")
    hkind = env.choice("hosting_costs", ["none", "some"])
    if hkind == "some":
        hosting = {"c1": env.real("hosting[c1]"), "c10": env.real("hosting[c10]")}
        kw["hosting_costs"] = hosting
        ref_kw["hosting_costs"] = dict(hosting)
    extras = _extras(env, p.get("extras", []))
    if sep != "default":
        kw["separator"] = sep

    r = env.call(O.create_agents, prefix, _ca_indexes(kind), **kw, **extras)
    if isinstance(r, Raised):
        P("create_agents.no-raise", False, detail=lambda: (kind, kw, r.tb))
        return
    env.cover("created")
    ok = isinstance(r, dict) and all(isinstance(a, O.AgentDef) for a in r.values())
    P("create_agents.returns-dict-of-AgentDef", ok, lambda: r)
    if not ok:
        return
    if focus == "names":
        P("create_agents.one-agent-per-index", len(r) == len(expected), lambda: (kind, list(r.keys()), expected))
        P("create_agents.agent-names-are-distinct", len({a.name for a in r.values()}) == len(r), lambda: [a.name for a in r.values()])
        P("create_agents.keys-and-names-are-prefix-plus-index", [(k, a.name) for k, a in r.items()] == expected,
          lambda: dict(got=[(k, a.name) for k, a in r.items()], expected=expected))
    probes = list(dict.fromkeys(exp_names + [a.name for a in r.values()] + ["zz", "other", ""]))
    comps = ["c1", "c10", "cz", ""] + exp_names[:1]
    for key, a in r.items():
        ref = O.AgentDef(a.name, **ref_kw, **extras)   # the individually built agent with the same arguments
        if focus == "routes":
            for o in probes:
                got, want = env.call(a.route, o), ref.route(o)
                P("create_agents.route-costs-as-individually-built", (not isinstance(got, Raised)) and _num_same(got, want),
                  lambda: dict(agent=a.name, other=o, got=got, individually=want))
        if focus == "hosting":
            for c in comps:
                got, want = env.call(a.hosting_cost, c), ref.hosting_cost(c)
                listed = c in (kw.get("hosting_costs") or {})
                P("create_agents.specific-hosting-cost-as-individually-built" if listed else "create_agents.default-hosting-cost-as-individually-built",
                  (not isinstance(got, Raised)) and _num_same(got, want),
                  lambda: dict(agent=a.name, computation=c, got=got, individually=want, args=sorted(kw)))
        if focus == "extras":
            for k, v in extras.items():
                got = env.call(getattr, a, k)
                P("create_agents.given-extra-attributes-readable-as-individually-built",
                  (not isinstance(got, Raised)) and _num_same(got, getattr(ref, k)), lambda: dict(agent=a.name, attr=k, got=got, individually=v))
        if focus == "extras-exact":
            ea, want = env.call(a.extra_attr), ref.extra_attr()
            P("create_agents.no-other-extra-attributes-than-individually-built",
              isinstance(ea, dict) and set(ea.keys()) == set(want.keys()), lambda: dict(agent=a.name, got=ea, individually=want))


_CA_ALL = list(_CA_INDEXES.keys())
_CA_Q = ["list-str", "list-int", "range3", "range12", "range10", "tuple2x3", "tuple1"]


def _shapes_create_agents(tier):
    kinds = _CA_ALL if tier == "thorough" else _CA_Q
    ex = ["capacity", "foo", "zone", "tag"]
    out = []
    out.append(dict(focus="names", dhc="omitted", index_kinds=_CA_ALL, extras=ex[:1]))
    for dhc in ("omitted", "given"):
        out.append(dict(focus="routes", dhc=dhc, index_kinds=kinds, extras=ex[:1]))
        out.append(dict(focus="hosting", dhc=dhc, index_kinds=kinds, extras=ex[:1]))
        out.append(dict(focus="extras", dhc=dhc, index_kinds=kinds, extras=ex))
    out.append(dict(focus="extras-exact", dhc="omitted", index_kinds=kinds[:3], extras=ex[:2], prefixes=["a"]))
    out.append(dict(focus="extras-exact", dhc="given", index_kinds=kinds[:3], extras=[], prefixes=["a"]))
    return out


Contract(
    "agents.create_agents", ["C31"],
    ["pydcop.dcop.objects:create_agents", "pydcop.dcop.objects:AgentDef.__init__", "pydcop.dcop.objects:AgentDef.route",
     "pydcop.dcop.objects:AgentDef.hosting_cost", "pydcop.dcop.objects:AgentDef.__getattr__", "pydcop.dcop.objects:AgentDef.extra_attr"],
    h_create_agents, _shapes_create_agents,
    mode="B", must_cover=["created"],
    assumptions=["C31: create_agents' default_hosting_costs is the mass-creation spelling of AgentDef's default_hosting_cost ('the same arguments')",
                 "C31: keys/names of mass-created agents follow create_agents' docstring (prefix + index, zero padded for a range, joined by the separator for a tuple)"],
    desc="every agent made by create_agents (list, range, tuple-of-lists indexes; any separator) has the route costs, hosting costs and extra "
         "attributes of AgentDef(name, same arguments); one agent per index, named prefix+index; all costs symbolic reals",
)
