"""Contracts on pydcop.dcop.relations / pydcop.dcop.dcop (C06, C12, C13; reused by C01, C03).

Postconditions are taken from the property statements; shapes and frames from the
code and its call sites.  B-mode: every cost cell is a universally quantified real
(optionally a concrete +/-inf, enumerated)."""
import itertools
import math

from pvc.contract import Contract
from pvc.explore import Raised
from pvc.sym import (And, Or, Not, Implies, Iff, eq, lt, le, ite, smin, smax, ssum, is_sym)
from . import fx


def _opt(mode, xs):
    return smin(xs) if mode == "min" else smax(xs)


def _concrete_list(vals):
    return all(not is_sym(v) for v in vals)


# ---------------------------------------------------------------- find_arg_optimal (C06)

def h_find_arg_optimal(env):
    from pydcop.dcop import relations as R
    from pydcop.dcop.objects import Variable
    p = env.params
    n = p["n"]
    mode = env.choice("mode", ["min", "max"])
    x = Variable("x", fx.domain("d", fx.values(n)))
    relkind = env.choice("relkind", p.get("relkinds", ["callable", "relation"]))
    if relkind == "callable":
        tab = fx.LazyTable(env, "c", [x], p.get("kinds", ("fin",)))
        rel = lambda v: tab.cell((v,))  # noqa
        cost = lambda d: tab.cell((d,))  # noqa
    else:
        rel, tab = fx.table_relation(env, "c", [x], p.get("kinds", ("fin",)))
        cost = lambda d: tab.cell((d,))  # noqa
    r = env.call(R.find_arg_optimal, x, rel, mode)
    costs = [cost(d) for d in x.domain]
    if isinstance(r, Raised):
        env.prove("find_arg_optimal.no-raise", False, detail=lambda: (r, costs))
        return
    vals, best = r
    opt = _opt(mode, costs)
    env.cover("post")
    env.prove("find_arg_optimal.cost-is-optimum", eq(best, opt), detail=lambda: dict(costs=costs, returned=best, mode=mode))
    ok = isinstance(vals, list) and _concrete_list(vals)
    env.prove("find_arg_optimal.values-are-domain-values", ok and all(v in list(x.domain) for v in vals))
    if ok:
        for d in x.domain:
            env.prove("find_arg_optimal.values-are-exactly-the-argopt",
                      Iff(d in vals, eq(cost(d), opt)), detail=lambda: dict(costs=costs, returned=vals, mode=mode))
        env.prove("find_arg_optimal.no-duplicates", len(set(vals)) == len(vals))


Contract(
    "relations.find_arg_optimal", ["C06", "C01"], ["pydcop.dcop.relations:find_arg_optimal"],
    h_find_arg_optimal,
    lambda tier: ([dict(n=1, kinds=("fin", "+inf", "-inf")), dict(n=2, kinds=("fin", "+inf", "-inf")), dict(n=3)]
                  + ([dict(n=3, kinds=("fin", "+inf", "-inf"), relkinds=["callable"]), dict(n=4, relkinds=["callable"])] if tier == "thorough" else [])),
    mode="B", must_cover=["post"],
    desc="for a non-empty domain returns (argopt set, opt) for any extended-real cost vector; no exception",
)


# ---------------------------------------------------------------- find_optimal (C06)

def h_find_optimal(env):
    from pydcop.dcop import relations as R
    p = env.params
    n = p["n"]
    mode = env.choice("mode", ["min", "max"])
    vkind = env.choice("vkind", p.get("vkinds", ["plain", "dict", "func"]))
    kinds = p.get("kinds", ("fin",))
    x, xcost = fx.make_variable(env, "x", fx.domain("d", fx.values(n)), vkind, kinds)
    others = [fx.make_variable(env, "y%d" % i, fx.domain("dy", range(2)), "plain")[0] for i in range(p.get("n_other", 1))]
    cons = []
    tabs = []
    for k in range(p.get("n_cons", 1)):
        scope = [x] + others[: 1 + (k % max(1, len(others)))] if others else [x]
        make = None
        if p.get("huge_ints") and not env.symbolic:
            # integer-valued constraints (python ints, as an integer function or an integer table gives them) beyond 2**53 that
            # differ by a few units: their exact values decide the optimum; a double cannot tell them apart
            mag = env.choice("magnitude:c%d" % k, [2 ** 53, 2 ** 60, -(2 ** 62), 2 ** 70])
            make = (lambda m: (lambda name: m + env.int(name, -3, 3)))(mag)
        rel, tab = fx.table_relation(env, "c%d" % k, scope, kinds, make=make)
        cons.append(rel)
        tabs.append(tab)
    asg = {o.name: env.choice("val_" + o.name, list(o.domain)) for o in others}
    asg_in = dict(asg)
    # mixing +inf and -inf terms is undefined (NaN): excluded by precondition
    for d in x.domain:
        a = dict(asg)
        a["x"] = d
        terms = [t(**{v.name: a[v.name] for v in t.variables}) for t in tabs] + [xcost(d)]
        if any(fx.is_inf(t) and t > 0 for t in terms) and any(fx.is_inf(t) and t < 0 for t in terms):
            env.assume(False)
    r = env.call(R.find_optimal, x, asg_in, cons, mode)

    def L(d):
        a = dict(asg)
        a["x"] = d
        return ssum([t(**{v.name: a[v.name] for v in t.variables}) for t in tabs]) + xcost(d)

    Ls = [L(d) for d in x.domain]
    if isinstance(r, Raised):
        env.prove("find_optimal.no-raise", False, detail=lambda: (r, Ls, mode, vkind))
        return
    vals, best = r
    opt = _opt(mode, Ls)
    env.cover("post")
    env.prove("find_optimal.cost-is-optimum-incl-own-variable-cost", eq(best, opt),
              detail=lambda: dict(L=Ls, returned=best, mode=mode, vkind=vkind))
    ok = isinstance(vals, list) and _concrete_list(vals)
    env.prove("find_optimal.values-are-domain-values", ok and all(v in list(x.domain) for v in vals),
              detail=lambda: dict(returned=vals))
    if ok:
        for d in x.domain:
            env.prove("find_optimal.values-are-exactly-the-argopt", Iff(d in vals, eq(L(d), opt)),
                      detail=lambda: dict(L=Ls, returned=vals, mode=mode, vkind=vkind))
    # frame: the other variables' values in the assignment are untouched
    env.prove("find_optimal.frame-other-values", all(asg_in.get(k) == v for k, v in asg.items()))


Contract(
    "relations.find_optimal", ["C06"], ["pydcop.dcop.relations:find_optimal", "pydcop.dcop.relations:assignment_cost"],
    h_find_optimal,
    lambda tier: ([dict(n=1, kinds=("fin", "+inf", "-inf"), n_cons=1), dict(n=2, n_cons=2), dict(n=2, kinds=("fin", "+inf"), n_cons=1), dict(n=3, n_cons=1, vkinds=["plain", "func"]),
                   dict(n=3, n_cons=2, vkinds=["plain"], huge_ints=True, sample_only=True), dict(n=4, n_cons=1, vkinds=["plain"], huge_ints=True, sample_only=True)]
                  + ([dict(n=3, n_cons=2, n_other=2), dict(n=2, kinds=("fin", "+inf", "-inf"), n_cons=2)] if tier == "thorough" else [])),
    mode="B", must_cover=["post"],
    assumptions=["find_optimal: a local cost that adds +inf and -inf terms is undefined and excluded"],
    desc="values = argopt_d [sum of constraints(asgt[x:=d]) + own cost(d)] as a set, cost = that optimum, any Variable kind",
)


# ---------------------------------------------------------------- optimal_cost_value (C06)

def h_optimal_cost_value(env):
    from pydcop.dcop import relations as R
    p = env.params
    n = p["n"]
    mode = env.choice("mode", ["min", "max"])
    vkind = env.choice("vkind", ["dict", "func", "plain"])
    # mixed: a legal domain whose values cannot be ordered with one another (a cost tie must not fall back on comparing them)
    dom = ["auto", 1, 2.5, None][:n] if p.get("mixed") else fx.values(n)
    x, xcost = fx.make_variable(env, "x", fx.domain("d", dom), vkind, p.get("kinds", ("fin",)))
    if env.symbolic or True:
        import pvc.models as M
        R.random = M.RandomModel(env)
    r = env.call(R.optimal_cost_value, x, mode)
    if isinstance(r, Raised):
        env.prove("optimal_cost_value.no-raise", False, detail=lambda: r)
        return
    val, cost = r
    env.cover("post")
    env.prove("optimal_cost_value.value-in-domain", (not is_sym(val)) and val in list(x.domain))
    if is_sym(val) or val not in list(x.domain):
        return
    costs = [xcost(d) for d in x.domain]
    opt = _opt(mode, costs)
    env.prove("optimal_cost_value.value-optimises-own-cost", eq(xcost(val), opt), detail=lambda: (costs, val, cost))
    if vkind != "plain":
        env.prove("optimal_cost_value.returned-cost-is-cost-of-value", eq(cost, opt), detail=lambda: (costs, val, cost))


Contract(
    "relations.optimal_cost_value", ["C06"], ["pydcop.dcop.relations:optimal_cost_value"],
    h_optimal_cost_value,
    lambda tier: [dict(n=1), dict(n=2, kinds=("fin", "+inf", "-inf")), dict(n=3), dict(n=3, mixed=True)] + ([dict(n=4), dict(n=4, mixed=True)] if tier == "thorough" else []),
    mode="B", must_cover=["post"],
    trusted=["random.choice modelled as an explored choice of every element"],
    desc="returned value is in the domain and optimises the variable's own cost; returned cost is that cost",
)


# ---------------------------------------------------------------- matrix set_value (C12)

def _names(vs):
    return [v.name for v in vs]


def h_set_value(env):
    from pydcop.dcop import relations as R
    from pydcop.dcop.objects import Variable
    p = env.params
    fx.install_numpy_shim(env, R)
    shape = p["shape"]
    vs = [Variable("v%d" % i, fx.domain("d%d" % i, ["a", "b", "c"][:s] if i % 2 else list(range(s)))) for i, s in enumerate(shape)]
    rel, cells = fx.matrix_relation(env, "m", vs, p.get("kinds", ("fin",)))
    before = {k: v for k, v in cells.items()}
    form = env.choice("form", ["dict", "list"])
    keys = list(cells.keys())
    target = env.choice("target", keys)
    newv = env.ext_real("new", p.get("kinds", ("fin",)))
    arg = list(target) if form == "list" else {v.name: target[i] for i, v in enumerate(vs)}
    r = env.call(rel.set_value_for_assignment, arg, newv)
    if isinstance(r, Raised):
        env.prove("set_value.no-raise[%s]" % form, False, detail=lambda: r.tb)
        return
    env.cover("post")
    env.prove("set_value.returns-new-matrix-relation", isinstance(r, R.NAryMatrixRelation) and r is not rel)
    env.prove("set_value.keeps-name-and-dimensions", r.name == rel.name and _names(r.dimensions) == _names(vs))
    for k in keys:
        a = {v.name: k[i] for i, v in enumerate(vs)}
        got = env.call(r.get_value_for_assignment, a)
        if isinstance(got, Raised):
            env.prove("set_value.result-readable", False, detail=lambda: got.tb)
            return
        if k == target:
            env.prove("set_value.result-at-assignment-is-new-value[%s]" % form, eq(got, newv), detail=lambda: (k, got, newv))
        else:
            env.prove("set_value.result-elsewhere-unchanged[%s]" % form, eq(got, before[k]), detail=lambda: (k, got, before[k]))
        orig = rel.get_value_for_assignment(a)
        env.prove("set_value.original-unchanged[%s]" % form, eq(orig, before[k]), detail=lambda: (k, orig, before[k]))


Contract(
    "relations.NAryMatrixRelation.set_value_for_assignment", ["C12"],
    ["pydcop.dcop.relations:NAryMatrixRelation.set_value_for_assignment", "pydcop.dcop.relations:NAryMatrixRelation._slice_matrix",
     "pydcop.dcop.relations:NAryMatrixRelation.get_value_for_assignment"],
    h_set_value,
    lambda tier: [dict(shape=[2]), dict(shape=[2, 3]), dict(shape=[2, 2, 2])] + ([dict(shape=[3, 2, 2, 2]), dict(shape=[2, 2], kinds=("fin", "+inf", "-inf"))] if tier == "thorough" else []),
    mode="B", must_cover=["post"],
    trusted=["numpy float64 arrays modelled as object arrays of exact reals (zeros/array/copy/indexing/item)"],
    desc="new relation differs from the original exactly at the assignment (dict or list form); original untouched",
)


# ---------------------------------------------------------------- join (C12)

def _mk_operand(env, name, vs, kind, kinds, dtype=None):
    if kind == "matrix":
        rel, cells = fx.matrix_relation(env, name, vs, kinds, dtype=dtype)
        return rel, (lambda a: cells[tuple(a[v.name] for v in vs)])
    rel, tab = fx.table_relation(env, name, vs, kinds)
    return rel, (lambda a: tab(**{v.name: a[v.name] for v in vs}))


def _operand_unchanged(env, label, u, vs, f):
    """frame: an operand still has its scope and evaluates as before on every assignment of its own scope"""
    ok = _names(u.dimensions) == _names(vs)
    env.prove(label, ok, detail=lambda: (_names(u.dimensions), _names(vs)))
    if not ok:
        return
    for a in fx.assignments(vs):
        got = env.call(lambda: u(**a)) if vs else env.call(lambda: u.get_value_for_assignment({}))
        if isinstance(got, Raised):
            env.prove(label, False, detail=lambda: got.tb)
            return
        if hasattr(got, "item") and not is_sym(got):
            got = got.item()
        exp = f(a)
        env.prove(label, eq(got, exp), detail=lambda: (a, got, exp))


def h_join(env):
    from pydcop.dcop import relations as R
    from pydcop.dcop.objects import Variable
    p = env.params
    fx.install_numpy_shim(env, R)
    pool = {n: Variable(n, fx.domain("d" + n, range(s))) for n, s in p["vars"].items()}
    s1 = [pool[n] for n in p["u1"]]
    s2 = [pool[n] for n in p["u2"]]
    k1 = env.choice("kind1", p.get("opkinds", ["matrix", "func"]))
    k2 = env.choice("kind2", p.get("opkinds", ["matrix", "func"]))
    kinds = p.get("kinds", ("fin",))
    dtype = env.choice("table-dtype", p["int_tables"]) if p.get("int_tables") and not env.symbolic else None
    u1, f1 = _mk_operand(env, "u1", s1, k1, kinds, dtype)
    u2, f2 = _mk_operand(env, "u2", s2, k2, kinds, dtype)
    r = env.call(R.join, u1, u2)
    if isinstance(r, Raised):
        env.prove("join.no-raise", False, detail=lambda: r.tb)
        return
    env.cover("post")
    union = list(p["u1"]) + [n for n in p["u2"] if n not in p["u1"]]
    env.prove("join.scope-is-union", sorted(_names(r.dimensions)) == sorted(union), detail=lambda: _names(r.dimensions))
    env.prove("join.dimension-order-u1-then-new-of-u2", _names(r.dimensions) == union, detail=lambda: _names(r.dimensions))
    if sorted(_names(r.dimensions)) != sorted(union):
        return
    for a in fx.assignments([pool[n] for n in union]):
        exp1, exp2 = f1(a), f2(a)
        if fx.is_inf(exp1) and fx.is_inf(exp2) and exp1 != exp2:
            continue
        got = env.call(lambda: r(**a))
        if isinstance(got, Raised):
            env.prove("join.result-evaluates", False, detail=lambda: got.tb)
            return
        exp = exp1 + exp2
        if dtype is not None and abs(exp) > 2 ** 53:
            exp = float(exp)     # the joined table holds doubles: the mathematical sum of two integers, correctly rounded
        env.prove("join.value-is-sum-on-every-assignment", eq(got, exp), detail=lambda: (a, got, exp1, exp2))
    # frame: the operands are not modified by the join (DPOP joins the same constraint into several tables)
    _operand_unchanged(env, "join.frame.first-operand-unchanged", u1, s1, f1)
    _operand_unchanged(env, "join.frame.second-operand-unchanged", u2, s2, f2)


_JOIN_SHAPES = [
    dict(vars=dict(x=2, y=2), u1=["x"], u2=["y"]),
    dict(vars=dict(x=2, y=3), u1=["x", "y"], u2=["y"]),
    dict(vars=dict(x=2, y=2, z=2), u1=["x", "y"], u2=["y", "z"]),
    dict(vars=dict(x=2, y=2), u1=["x", "y"], u2=["y", "x"]),
    dict(vars=dict(x=2), u1=[], u2=["x"], opkinds=["matrix"]),
    # operands of three variables whose order is a rotation of the joined scope's (an axis permutation that is not its own inverse)
    dict(vars=dict(a=2, b=2, c=2), u1=["c"], u2=["a", "b", "c"], opkinds=["matrix"]),
    dict(vars=dict(a=2, b=3, c=2), u1=["b", "c", "a"], u2=["a", "b", "c"], opkinds=["matrix"], sample_only=True, sample_factor=2),
    # tables given as integer-typed numpy arrays (np.int8 ... np.int64) with cells near the ends of the type's range: the joined
    # value is the mathematical sum, not the sum in the operands' machine type
    dict(vars=dict(x=2, y=2), u1=["x", "y"], u2=["y"], opkinds=["matrix"], int_tables=["int8", "int16", "int32", "int64"], sample_only=True),
    dict(vars=dict(x=2, y=2), u1=["x"], u2=["y"], opkinds=["matrix"], int_tables=["int8", "int64"], sample_only=True),
]
_JOIN_SHAPES_T = [
    dict(vars=dict(x=2, y=2, z=2, w=2), u1=["x", "y", "z"], u2=["w", "y"]),
    dict(vars=dict(x=3, y=3, z=2), u1=["z", "x"], u2=["x", "y"]),
    dict(vars=dict(x=2, y=2), u1=["x", "y"], u2=["y"], kinds=("fin", "+inf")),
]

Contract(
    "relations.join", ["C12", "C01"], ["pydcop.dcop.relations:join", "pydcop.dcop.relations:generate_assignment_as_dict",
                                      "pydcop.dcop.relations:filter_assignment_dict"],
    h_join, lambda tier: _JOIN_SHAPES + (_JOIN_SHAPES_T if tier == "thorough" else []),
    mode="B", must_cover=["post"],
    trusted=["numpy float64 arrays modelled as object arrays of exact reals (zeros/array/copy/indexing/item)"],
    desc="join(u1,u2): scope = union (u1's dims then u2's new ones), value = u1 + u2 on every assignment, matrix and function operands",
)


# ---------------------------------------------------------------- projection (C12, C06)

def h_projection(env):
    from pydcop.dcop import relations as R
    from pydcop.dcop.objects import Variable
    p = env.params
    fx.install_numpy_shim(env, R)
    pool = [Variable(n, fx.domain("d" + n, range(s))) for n, s in p["vars"]]
    kinds = p.get("kinds", ("fin",))
    kind = env.choice("kind", p.get("opkinds", ["matrix", "func"]))
    u, f = _mk_operand(env, "u", pool, kind, kinds)
    mode = env.choice("mode", ["min", "max"])
    xi = p["elim"]
    x = pool[xi]
    r = env.call(R.projection, u, x, mode)
    if isinstance(r, Raised):
        env.prove("projection.no-raise", False, detail=lambda: r.tb)
        return
    env.cover("post")
    rest = [v for v in pool if v is not x]
    env.prove("projection.scope-is-scope-minus-variable", _names(r.dimensions) == _names(rest), detail=lambda: _names(r.dimensions))
    if sorted(_names(r.dimensions)) != sorted(_names(rest)):
        return
    for a in fx.assignments(rest):
        vals = []
        for d in x.domain:
            b = dict(a)
            b[x.name] = d
            vals.append(f(b))
        got = env.call(lambda: r(**a)) if rest else env.call(lambda: r.get_value_for_assignment({}))
        if isinstance(got, Raised):
            env.prove("projection.result-evaluates", False, detail=lambda: got.tb)
            return
        if not rest and hasattr(got, "item"):
            got = got.item()
        env.prove("projection.cell-is-optimum-over-variable", eq(got, _opt(mode, vals)), detail=lambda: (a, got, vals, mode))
    _operand_unchanged(env, "projection.frame.projected-relation-unchanged", u, pool, f)


_PROJ = [
    dict(vars=[("x", 2), ("y", 2)], elim=0),
    dict(vars=[("x", 2), ("y", 2)], elim=1),
    dict(vars=[("x", 3)], elim=0, opkinds=["matrix"]),
    dict(vars=[("x", 2), ("y", 2), ("z", 2)], elim=1, opkinds=["matrix"]),
]
_PROJ_T = [
    dict(vars=[("x", 3), ("y", 3)], elim=0),
    dict(vars=[("x", 2), ("y", 2), ("z", 2)], elim=2),
    dict(vars=[("x", 2), ("y", 2)], elim=0, kinds=("fin", "+inf", "-inf"), opkinds=["matrix"]),
    dict(vars=[("x", 2), ("y", 3), ("z", 2)], elim=1, opkinds=["matrix"]),
]

Contract(
    "relations.projection", ["C12", "C06", "C01"], ["pydcop.dcop.relations:projection", "pydcop.dcop.relations:find_arg_optimal",
                                                   "pydcop.dcop.relations:NAryMatrixRelation.slice"],
    h_projection, lambda tier: _PROJ + (_PROJ_T if tier == "thorough" else []),
    mode="B", must_cover=["post"],
    trusted=["numpy float64 arrays modelled as object arrays of exact reals (zeros/array/copy/indexing/item)"],
    desc="projection(u,x,mode): scope(u) minus x; each cell = min/max over x",
)


# ---------------------------------------------------------------- assignment_cost (C13)

def h_assignment_cost(env):
    from pydcop.dcop import relations as R
    p = env.params
    kinds = p.get("kinds", ("fin",))
    vkind = env.choice("vkind", ["plain", "dict", "func"])
    names = p["vars"]
    vs = {}
    vcost = {}
    for n in names:
        vs[n], vcost[n] = fx.make_variable(env, n, fx.domain("d", range(2)), vkind, kinds)
    tabs = []
    cons = []
    for k, scope in enumerate(p["scopes"]):
        rel, tab = fx.table_relation(env, "c%d" % k, [vs[n] for n in scope], kinds)
        cons.append(rel)
        tabs.append(tab)
    consider = env.choice("consider_variable_cost", [False, True])
    asg = {n: env.choice("val_" + n, [0, 1]) for n in names}
    extra = {}
    given = dict(asg)
    if p.get("kwargs_for"):
        n = p["kwargs_for"]
        del given[n]
        extra[n] = asg[n]
        if consider:
            # variable cost needs the value in the assignment itself (code reads assignment[v_name])
            env.assume(False)
    given_before, cons_before = dict(given), list(cons)
    r = env.call(R.assignment_cost, given, cons, consider, **extra)
    # frame: the caller's assignment and constraint list are observed, not modified (algorithms call it once per candidate value)
    env.prove("assignment_cost.frame.assignment-and-constraint-list-unchanged",
              list(given.items()) == list(given_before.items()) and len(cons) == len(cons_before) and all(a is b for a, b in zip(cons, cons_before)),
              detail=lambda: (given, given_before))
    if isinstance(r, Raised):
        env.prove("assignment_cost.no-raise", False, detail=lambda: r.tb)
        return
    env.cover("post")
    exp = ssum([t(**{v.name: asg[v.name] for v in t.variables}) for t in tabs])
    if consider:
        in_scope = []
        for sc in p["scopes"]:
            for n in sc:
                if n not in in_scope:
                    in_scope.append(n)
        exp = exp + ssum([vcost[n](asg[n]) for n in in_scope])
    env.prove("assignment_cost.is-sum-of-constraints-plus-variable-costs-once", eq(r, exp), detail=lambda: (r, exp, consider, vkind))


Contract(
    "relations.assignment_cost", ["C13", "C06"], ["pydcop.dcop.relations:assignment_cost"],
    h_assignment_cost,
    lambda tier: [dict(vars=["x", "y"], scopes=[["x", "y"], ["x"]]), dict(vars=["x", "y", "z"], scopes=[["x", "y"], ["y", "z"], ["z", "x"]]),
                  dict(vars=["x", "y"], scopes=[["x", "y"]], kwargs_for="y"), dict(vars=["x"], scopes=[])]
    + ([dict(vars=["x", "y", "z"], scopes=[["x", "y", "z"], ["y"]], kinds=("fin", "+inf"))] if tier == "thorough" else []),
    mode="B", must_cover=["post"],
    desc="sum of constraint values; plus each scoped variable's own cost exactly once when requested; kwargs only for missing names",
)


# ---------------------------------------------------------------- solution_cost (C13)

def h_solution_cost(env):
    from pydcop.dcop import dcop as D
    from pydcop.dcop.dcop import DCOP
    from pydcop.dcop.objects import ExternalVariable
    p = env.params
    vkind = env.choice("vkind", ["plain", "dict", "func"])
    names = p["vars"]
    vs, vcost = {}, {}
    for n in names:
        vs[n], vcost[n] = fx.make_variable(env, n, fx.domain("d", range(2)), vkind)
    ext = None
    if p.get("external"):
        ext = ExternalVariable("e", fx.domain("d", range(2)), value=env.choice("ext_val", [0, 1]))
    tabs, cons = [], []
    for k, scope in enumerate(p["scopes"]):
        sv = [vs[n] if n != "e" else ext for n in scope]
        rel, tab = fx.table_relation(env, "c%d" % k, sv)
        cons.append(rel)
        tabs.append(tab)
    infk = env.choice("infinity", p.get("infinities", ["inf", "symbolic"]))
    infinity = float("inf") if infk == "inf" else env.real("INFINITY")
    asg = {n: env.choice("val_" + n, [0, 1]) for n in names}
    missing = env.choice("missing", [None] + list(names))
    given = {k: v for k, v in asg.items() if k != missing}
    via = env.choice("via", ["function", "DCOP"])
    if via == "function":
        allv = list(vs.values()) + ([ext] if ext else [])
        full = dict(given)
        if ext:
            full["e"] = ext.value
        full_before = dict(full)
        r = env.call(D.solution_cost, cons, allv, full, infinity)
        env.prove("solution_cost.frame.assignment-unchanged", list(full.items()) == list(full_before.items()), detail=lambda: (full, full_before))
    else:
        # built the way pydcop.dcop.yamldcop.load_dcop builds a DCOP with external variables
        dcop = DCOP("t", "min")
        dcop.variables = dict(vs)
        if ext:
            dcop.external_variables = {"e": ext}
        dcop._constraints = {c.name: c for c in cons}
        if ext is not None and missing is None and env.choice("stale_entry_for_the_external_variable", [False, True]):
            # the caller's dict still carries an old reading of the external variable: its CURRENT value is what counts
            given = dict(given)
            given["e"] = 1 - ext.value
            env.cover("stale-external-entry")
        given_before = dict(given)
        r = env.call(dcop.solution_cost, given, infinity)
        env.prove("solution_cost.frame.assignment-unchanged", list(given.items()) == list(given_before.items()), detail=lambda: (given, given_before))
    if missing is not None:
        env.cover("incomplete")
        env.prove("solution_cost.incomplete-assignment-rejected-with-ValueError",
                  isinstance(r, Raised) and isinstance(r.exc, ValueError), detail=lambda: r)
        return
    if isinstance(r, Raised):
        env.prove("solution_cost.no-raise-on-complete-assignment", False, detail=lambda: r.tb)
        return
    env.cover("post")
    full = dict(asg)
    if ext:
        full["e"] = ext.value
    terms = [t(**{v.name: full[v.name] for v in t.variables}) for t in tabs]
    terms += [vcost[n](asg[n]) for n in names]
    if ext:
        terms.append(0)  # the external variable is a variable too: its own cost term is 0
    hard = ssum([ite(eq(t, infinity), 1, 0) for t in terms])
    soft = ssum([ite(eq(t, infinity), 0, t) for t in terms])
    ok = isinstance(r, tuple) and len(r) == 2
    env.prove("solution_cost.returns-pair", ok)
    if ok:
        env.prove("solution_cost.first-is-count-of-infinity-terms", eq(r[0], hard), detail=lambda: (r, terms, infinity))
        env.prove("solution_cost.second-is-sum-of-other-terms", eq(r[1], soft), detail=lambda: (r, terms, infinity))
    if ok and via == "DCOP":
        # second use of the same DCOP object after it has been extended through its public dicts (the only way to declare an
        # external variable; what the yaml loader does): the evaluation follows the DCOP as it is now, not as it was
        e2 = ExternalVariable("e2", fx.domain("d", range(2)), value=1)
        dcop.external_variables["e2"] = e2
        w, wcost = fx.make_variable(env, "w", fx.domain("d", range(2)), vkind)
        dcop.variables["w"] = w
        wval = env.choice("val_w", [0, 1])
        given2 = dict(given)
        given2["w"] = wval
        r2 = env.call(dcop.solution_cost, given2, infinity)
        if isinstance(r2, Raised):
            env.prove("solution_cost.second-evaluation-after-extending-the-dcop.no-raise", False, detail=lambda: r2.tb)
            return
        terms2 = terms + [wcost(wval), 0]
        hard2 = ssum([ite(eq(t, infinity), 1, 0) for t in terms2])
        soft2 = ssum([ite(eq(t, infinity), 0, t) for t in terms2])
        ok2 = isinstance(r2, tuple) and len(r2) == 2
        env.prove("solution_cost.second-evaluation-after-extending-the-dcop.counts-the-new-variable",
                  ok2 and And(eq(r2[0], hard2), eq(r2[1], soft2)), detail=lambda: (r2, terms2, infinity))


Contract(
    "dcop.solution_cost", ["C13"], ["pydcop.dcop.dcop:solution_cost", "pydcop.dcop.dcop:DCOP.solution_cost"],
    h_solution_cost,
    lambda tier: [dict(vars=["x", "y"], scopes=[["x", "y"], ["x"]]), dict(vars=["x"], scopes=[["x", "e"]], external=True),
                  dict(vars=["x", "y"], scopes=[], infinities=["inf"])]
    + ([dict(vars=["x", "y", "z"], scopes=[["x", "y"], ["y", "z"], ["x", "e"]], external=True)] if tier == "thorough" else []),
    mode="B", must_cover=["post", "incomplete"],
    assumptions=["solution_cost: assignment keys are names of the DCOP's variables (no foreign keys), values are not None"],
    desc="(#terms == infinity, sum of the others) over constraint values then variable costs; ValueError iff a variable has no value",
)
