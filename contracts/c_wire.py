"""C15 - everything sent between agents survives the wire and process spawn.

Functions under contract: pydcop.utils.simple_repr (simple_repr / from_repr / SimpleRepr mixin),
every custom _simple_repr/_from_repr (MaxSumMessage, Mgm2OfferMessage, PseudoTreeLink, OrderLink,
FactorGraphLink, AlgorithmDef, ExpressionFunction, NAryMatrixRelation, message_type products),
HttpCommunicationLayer.send_msg / MPCHttpHandler.do_POST and AgentDef.__getstate__/__setstate__.

Oracle (from the statement): the object obtained after  encode -> JSON text -> decode  has the same
fields, links, neighbours and relation values as the original.  "Same" is checked by a deep walk of
vars() (never by the classes' own __eq__, which are shallow) plus behavioural probes in the
statement's vocabulary (relation value on every assignment, variable cost on every value, links as a
set, neighbours as a set, route(other), hosting_cost(c), ...).

Mode E: every case is an enumerated choice (message class x content profile x variant x route; graph
model x DCOP spec x algorithm x node x route; AgentDef build x routes x costs x attributes x pickle
protocol).  Message classes are discovered mechanically (walk of pydcop.algorithms, .infrastructure,
.replication, .reparation for Message subclasses, message_type products included)."""
import importlib
import inspect
import io
import itertools
import json
import logging
import math
import numbers
import pickle
import pkgutil
import types

from pvc.contract import Contract
from pvc.explore import Raised

INF = float("inf")


# ====================================================================== deep comparison

def _np():
    import numpy
    return numpy


def _isbool(x):
    return isinstance(x, (bool, _np().bool_))


def _isnum(x):
    return isinstance(x, numbers.Number) and not _isbool(x)


def _isfunc(x):
    return isinstance(x, (types.FunctionType, types.MethodType, types.BuiltinFunctionType, types.LambdaType))


def _is_msgtype_product(o):
    init = getattr(type(o), "__init__", None)
    return getattr(init, "__qualname__", "").startswith("message_type.")


def _clsname(o):
    if _is_msgtype_product(o):
        return "message_type:%s" % getattr(o, "type", "?")
    return "%s.%s" % (type(o).__module__, type(o).__qualname__)


def _mro_names(o):
    return {c.__name__ for c in type(o).__mro__}


# (class name in the MRO, attribute): not part of what is transmitted
#  - ExternalVariable._cb : run-time subscriptions of the local process
#  - VariableNoisyCostFunc._costs : noise drawn again by the constructor (checked separately, within the noise bounds)
IGNORED_ATTRS = {("ExternalVariable", "_cb"), ("VariableNoisyCostFunc", "_costs")}
# links and neighbours are sets in the statement's vocabulary
UNORDERED_ATTRS = {("ComputationNode", "_links"), ("ComputationNode", "_neighbors")}


def _fields(o):
    names = _mro_names(o)
    out = {}
    for k, v in vars(o).items():
        if any((n, k) in IGNORED_ATTRS for n in names):
            continue
        out[k] = v
    return out


def key(o):
    """canonical text of a value; used to match the elements of unordered collections"""
    np = _np()
    if o is None or isinstance(o, str) or _isbool(o):
        return "%s:%r" % (type(o).__name__ if not _isbool(o) else "bool", o if not _isbool(o) else bool(o))
    if _isnum(o):
        try:
            f = float(o)
            if f == o and f.is_integer() and abs(f) < 2 ** 53:
                return "num:%d" % int(f)
        except (OverflowError, TypeError, ValueError):
            pass
        return "num:%r" % (o if isinstance(o, int) else float(o),)
    if isinstance(o, np.ndarray):
        return "nd:" + key(o.tolist())
    if isinstance(o, tuple):
        return "T[" + ",".join(key(e) for e in o) + "]"
    if isinstance(o, list):
        return "L[" + ",".join(key(e) for e in o) + "]"
    if isinstance(o, (set, frozenset)):
        return "S{" + ",".join(sorted(key(e) for e in o)) + "}"
    if isinstance(o, dict):
        return "D{" + ",".join(sorted(key(k) + "=" + key(v) for k, v in o.items())) + "}"
    if _isfunc(o):
        return "fn"
    if hasattr(o, "__dict__"):
        return "O<%s>{%s}" % (_clsname(o), ",".join(sorted("%s=%s" % (k, key(v)) for k, v in _fields(o).items() if v is not None)))
    return "R:%r" % (o,)


def _num_eq(a, b):
    try:
        if a == b:
            return True
        return a != a and b != b  # nan
    except Exception:  # noqa
        return False


def deep_diff(a, b, path="", out=None, seen=None, skip=()):
    """differences between the original ``a`` and the decoded ``b`` (list of texts; empty = same);
    ``skip``: (class name, attribute) pairs decided by another obligation"""
    np = _np()
    out = [] if out is None else out
    seen = set() if seen is None else seen
    if len(out) > 12:
        return out

    def bad(msg):
        out.append("%s: %s" % (path or "<root>", msg))
        return out

    if a is None or b is None:
        if not (a is None and b is None):
            bad("original %r, decoded %r" % (_short(a), _short(b)))
        return out
    if _isbool(a):
        if not (_isbool(b) and bool(a) == bool(b)):
            bad("original %r, decoded %r" % (a, _short(b)))
        return out
    if _isnum(a):
        if not (_isnum(b) and _num_eq(a, b)):
            bad("original number %r, decoded %r" % (a, _short(b)))
        return out
    if isinstance(a, str):
        if not (isinstance(b, str) and a == b):
            bad("original %r, decoded %r" % (a, _short(b)))
        return out
    if isinstance(a, np.ndarray):
        if not isinstance(b, np.ndarray):
            return bad("original ndarray, decoded %s" % type(b).__name__)
        if a.shape != b.shape:
            return bad("matrix shape %r, decoded %r" % (a.shape, b.shape))
        return deep_diff(a.tolist(), b.tolist(), path + ".cells", out, seen, skip)
    if isinstance(a, tuple):
        if not isinstance(b, tuple):
            return bad("original tuple %s, decoded %s %s" % (_short(a), type(b).__name__, _short(b)))
        if hasattr(a, "_fields") and type(a) is not type(b):
            return bad("named tuple class %s, decoded %s" % (type(a).__name__, type(b).__name__))
        if len(a) != len(b):
            return bad("tuple length %d, decoded %d (%s / %s)" % (len(a), len(b), _short(a), _short(b)))
        for i, (x, y) in enumerate(zip(a, b)):
            deep_diff(x, y, "%s[%d]" % (path, i), out, seen, skip)
        return out
    if isinstance(a, list):
        if not isinstance(b, list):
            return bad("original list %s, decoded %s %s" % (_short(a), type(b).__name__, _short(b)))
        if len(a) != len(b):
            return bad("list length %d, decoded %d (%s / %s)" % (len(a), len(b), _short(a), _short(b)))
        for i, (x, y) in enumerate(zip(a, b)):
            deep_diff(x, y, "%s[%d]" % (path, i), out, seen, skip)
        return out
    if isinstance(a, (set, frozenset)):
        # simple_repr documents that sets travel as lists: same elements required, container kind is not
        if not isinstance(b, (set, frozenset, list, tuple)):
            return bad("original set, decoded %s" % type(b).__name__)
        return _unordered(list(a), list(b), path, out)
    if isinstance(a, dict):
        if not isinstance(b, dict):
            return bad("original dict, decoded %s" % type(b).__name__)
        ka = {key(k): k for k in a}
        kb = {key(k): k for k in b}
        if set(ka) != set(kb):
            return bad("dict keys %s, decoded %s" % (_short(sorted(a, key=key)), _short(sorted(b, key=key))))
        for kk in sorted(ka):
            deep_diff(a[ka[kk]], b[kb[kk]], "%s[%r]" % (path, ka[kk]), out, seen, skip)
        return out
    if _isfunc(a):
        if not callable(b):
            bad("original callable, decoded %s" % type(b).__name__)
        return out
    if hasattr(a, "__dict__"):
        if (id(a), id(b)) in seen:
            return out
        seen.add((id(a), id(b)))
        if not hasattr(b, "__dict__"):
            return bad("original %s, decoded %s %s" % (_clsname(a), type(b).__name__, _short(b)))
        if _is_msgtype_product(a) and _is_msgtype_product(b):
            if getattr(a, "type", None) != getattr(b, "type", None):
                return bad("message type %r, decoded %r" % (a.type, getattr(b, "type", None)))
        elif type(a) is not type(b):
            return bad("class %s, decoded %s" % (_clsname(a), _clsname(b)))
        fa, fb = _fields(a), _fields(b)
        names = _mro_names(a)
        for k in sorted(set(fa) | set(fb)):
            # an attribute that is missing counts as None (NAryMatrixRelation._matrix scratch attribute)
            va, vb = fa.get(k), fb.get(k)
            p = "%s.%s" % (path, k)
            if any((n, k) in skip for n in names):
                continue
            if k not in fb and va is not None:
                out.append("%s: field lost (original %s)" % (p, _short(va)))
                continue
            if k not in fa and vb is not None:
                out.append("%s: field appeared (decoded %s)" % (p, _short(vb)))
                continue
            if any((n, k) in UNORDERED_ATTRS for n in names) and isinstance(va, (list, tuple, set, frozenset)) \
                    and isinstance(vb, (list, tuple, set, frozenset)):
                _unordered(list(va), list(vb), p, out)
            else:
                deep_diff(va, vb, p, out, seen, skip)
        return out
    try:
        if a != b:
            bad("original %r, decoded %r" % (_short(a), _short(b)))
    except Exception as e:  # noqa
        bad("cannot compare %s: %r" % (type(a).__name__, e))
    return out


def _unordered(la, lb, path, out):
    ka = sorted(key(e) for e in la)
    kb = sorted(key(e) for e in lb)
    if ka != kb:
        lost = list(ka)
        extra = []
        for k in kb:
            if k in lost:
                lost.remove(k)
            else:
                extra.append(k)
        out.append("%s: as a set, lost %s, unexpected %s" % (path or "<root>", _short(lost), _short(extra)))
    return out


def _short(x, n=160):
    try:
        s = repr(x)
    except Exception as e:  # noqa
        s = "<repr failed %r>" % (e,)
    return s if len(s) <= n else s[:n] + "..."


def has_nonfinite(r):
    """does a simple representation contain inf/nan"""
    if isinstance(r, float):
        return math.isinf(r) or math.isnan(r)
    if isinstance(r, dict):
        return any(has_nonfinite(v) for v in r.values())
    if isinstance(r, (list, tuple)):
        return any(has_nonfinite(v) for v in r)
    return False


# ====================================================================== the two wire routes

def route_json(env, obj):
    """pyDCOP's JSON wire format: simple_repr -> JSON text -> from_repr; returns (stage, result)"""
    from pydcop.utils.simple_repr import simple_repr, from_repr
    r = env.call(simple_repr, obj)
    if isinstance(r, Raised):
        return "encode", r, None
    txt = env.call(json.dumps, r)
    if isinstance(txt, Raised):
        return "encode", txt, r
    d = env.call(lambda: from_repr(json.loads(txt)))
    if isinstance(d, Raised):
        return "decode", d, r
    return "ok", d, r


class _Captured(list):
    pass


def route_http(env, src_comp, dest_comp, msg, msg_type):
    """the real HttpCommunicationLayer.send_msg on the sender, the body/headers prepared by the real
    ``requests`` library, parsed by http.client.parse_headers and handled by the real MPCHttpHandler.do_POST
    of the receiver.  Only the socket is replaced by an in-memory hand-over."""
    from pydcop.infrastructure import communication as C
    import requests as real_requests
    import http.client
    from urllib.parse import urlparse

    captured = _Captured()

    class _Messaging:
        def post_msg(self, src, dest, m, mtype=None, on_error=None):
            captured.append((src, dest, m, mtype))

    class _Discovery:
        def agent_address(self, agt):
            return "127.0.0.1", 9017

    def layer():
        lay = object.__new__(C.HttpCommunicationLayer)  # no server thread, no port
        C.CommunicationLayer.__init__(lay, "fail")
        lay._address = ("127.0.0.1", 9017)
        lay.logger = logging.getLogger("c15.http")
        return lay

    sender, receiver = layer(), layer()
    sender.discovery = _Discovery()
    receiver.messaging = _Messaging()
    errors = []

    class _Requests:
        """stand-in for the ``requests`` module inside communication.py"""
        exceptions = real_requests.exceptions
        ConnectionError = real_requests.exceptions.ConnectionError

        @staticmethod
        def post(url, data=None, json=None, **kw):  # noqa (shadows json on purpose: requests' own signature)
            prep = real_requests.Request("POST", url, headers=kw.get("headers"), data=data, json=json).prepare()
            body = prep.body
            if body is None:
                body = b""
            if isinstance(body, str):
                body = body.encode("utf-8")
            raw = "".join("%s: %s\r\n" % (k, v) for k, v in prep.headers.items()) + "\r\n"
            h = object.__new__(C.MPCHttpHandler)
            h.headers = http.client.parse_headers(io.BytesIO(raw.encode("iso-8859-1")))
            h.rfile = io.BytesIO(body)
            h.wfile = io.BytesIO()
            h.path = urlparse(url).path
            h.command = "POST"
            h.request_version = "HTTP/1.1"
            h.requestline = "POST %s HTTP/1.1" % h.path
            h.client_address = ("127.0.0.1", 0)
            h.close_connection = True
            h.server = types.SimpleNamespace(comm=receiver)
            try:
                h.do_POST()
            except Exception as e:  # the receiving side failed: the sender only sees a broken connection
                import traceback
                errors.append(Raised(e, traceback.format_exc(limit=6)))
                return types.SimpleNamespace(status_code=500)
            try:
                status = int(h.wfile.getvalue().split(b" ", 2)[1])
            except Exception:  # noqa
                status = 200
            return types.SimpleNamespace(status_code=status)

        def __getattr__(self, item):
            return getattr(real_requests, item)

    old = C.requests
    C.requests = _Requests()
    try:
        full = C.ComputationMessage(src_comp, dest_comp, msg, msg_type)
        r = env.call(sender.send_msg, "agt_src", "agt_dest", full)
    finally:
        C.requests = old
    if isinstance(r, Raised):
        return "encode", r
    if errors:
        return "decode", errors[0]
    if len(captured) != 1:
        return "decode", Raised(RuntimeError("receiver got %d messages" % len(captured)), "")
    return "ok", captured[0]


# ====================================================================== message discovery

PACKAGES = ["pydcop.algorithms", "pydcop.infrastructure", "pydcop.replication", "pydcop.reparation"]
_DISCOVERY = {}


def discover_messages():
    """{ 'pkg-short.module.Attr' : class } for every Message subclass reachable as a module attribute, plus
    the set of module names whose computations stamp messages through SynchronousComputationMixin"""
    if _DISCOVERY:
        return _DISCOVERY["classes"], _DISCOVERY["sync_modules"], _DISCOVERY["import_errors"]
    from pydcop.infrastructure.computations import Message, SynchronousComputationMixin
    by_id = {}
    sync_modules = set()
    import_errors = {}
    for pk in PACKAGES:
        pkg = importlib.import_module(pk)
        names = [pk] + sorted(pk + "." + m.name for m in pkgutil.iter_modules(pkg.__path__))
        for mn in names:
            try:
                mod = importlib.import_module(mn)
            except BaseException as e:  # noqa
                import_errors[mn] = repr(e)
                continue
            for an, obj in sorted(vars(mod).items()):
                if not isinstance(obj, type):
                    continue
                if issubclass(obj, SynchronousComputationMixin) and obj is not SynchronousComputationMixin \
                        and obj.__module__ == mn:
                    sync_modules.add(mn)
                if issubclass(obj, Message):
                    if id(obj) not in by_id:
                        by_id[id(obj)] = (obj, [])
                    by_id[id(obj)][1].append((mn, an))
    classes = {}
    for obj, where in by_id.values():
        # home = the module that defines it (plain class) or the first module holding it (message_type product)
        home = [w for w in where if w[0] == obj.__module__] or sorted(where, key=lambda w: (w[0].endswith("orchestratedagents"), w[0]))
        mn, an = home[0]
        classes["%s.%s" % (mn[len("pydcop."):], an)] = (obj, [w[0] for w in where])
    _DISCOVERY.update(classes=classes, sync_modules=sync_modules, import_errors=import_errors)
    return classes, sync_modules, import_errors


def msgtype_fields(cls):
    init = cls.__init__
    if getattr(init, "__qualname__", "").startswith("message_type."):
        return list(inspect.getclosurevars(init).nonlocals["fields"])
    return None


# ====================================================================== generated contents

PROFILES = {
    # domain values that are not their own index and include a falsy one; costs int / float / +-inf / huge
    "int-values.int-costs": dict(vals=[10, 0, 5], costs=[3, 0, -7]),
    "str-values.float-costs": dict(vals=["b", "a", "R"], costs=[0.5, -2.25, 0.001]),
    "float-values.plus-inf-costs": dict(vals=[0.5, 2.0, -1.0], costs=[INF, 1.5, 0]),
    "bool-values.minus-inf-costs": dict(vals=[True, False], costs=[-INF, 2, 0.0]),
    "int-values.huge-costs": dict(vals=[3, 1, 2], costs=[2 ** 60 + 1, -(2 ** 53) - 1, 1e300]),
}

VALUE_F = {"value"}
COST_F = {"cost", "ub", "upper_bound", "lower_bound", "gain", "current_eval", "improve"}
POSCOST_F = {"budget", "spent", "footprint"}
INT_F = {"termination_counter", "k", "cycle", "replica_count"}
FLOAT_F = {"random_nb"}
BOOL_F = {"go", "accept", "stop", "subscribe", "publish", "is_offering"}
STR_F = {"agent": "a7", "agents": "a7", "computation": "x2", "replica": "c_12", "rep_msg_type": "replicate_request"}
STRLIST_F = {"computations", "selected_computations", "visited", "hosts"}
POOL_F = VALUE_F | COST_F | POSCOST_F | {"costs", "offers", "current_path", "paths", "content", "comp_def", "computation_def"}


def _rot(xs, i):
    i %= len(xs)
    return xs[i:] + xs[:i]


def _metrics(i):
    if i % 2:
        return {}
    return {"count_ext_msg": {"x2": 12, "_replication_a7": 3}, "size_ext_msg": {"x2": 48, "_replication_a7": 0},
            "activity_ratio": 0.375, "cycles": {"x2": 7, "x10": 0}}


def small_comp_def(P, i=0):
    """a real ComputationDef (constraints hypergraph node, function + matrix constraint) over the profile's values"""
    from pydcop.dcop.objects import Variable, Domain
    from pydcop.dcop.relations import NAryMatrixRelation, constraint_from_str
    from pydcop.computations_graph.constraints_hypergraph import VariableComputationNode
    from pydcop.algorithms import AlgorithmDef, ComputationDef
    vals = _rot(P["vals"], i)
    costs = P["costs"]
    d = Domain("d_w", "wire", vals)
    x2 = Variable("x2", d, vals[1])
    x10 = Variable("x10", d)
    cells = [[costs[(r + c) % len(costs)] for c in range(len(vals))] for r in range(len(vals))]
    c_m = NAryMatrixRelation([x2, x10], cells, name="c_m")
    c_e = constraint_from_str("c_e", "7 if x2 == x10 else 0.5", [x2, x10])
    node = VariableComputationNode(x2, [c_e, c_m])
    return ComputationDef(node, AlgorithmDef.build_with_default_param("dsa", {"variant": "C", "stop_cycle": 9}, mode="max"))


def gen_field(name, P, i):
    """contents of one message field, by the field's name (what the call sites of pyDCOP put there)"""
    vals, costs = _rot(P["vals"], i + 1), _rot(P["costs"], i)
    if name in VALUE_F:
        return vals[0]
    if name in COST_F:
        return costs[0]
    if name in POSCOST_F:
        c = costs[0]
        return abs(c)
    if name in INT_F:
        return [0, 7][i % 2]
    if name in FLOAT_F:
        return [0.0, 0.8125][i % 2]
    if name in BOOL_F:
        return [False, True][i % 2]
    if name in STR_F:
        return STR_F[name] if i % 2 == 0 else "*"
    if name in STRLIST_F:
        return [["x10", "x2", "c_12"], []][i % 2]
    if name == "mode":
        return ["period", "value_change"][i % 2]
    if name == "period":
        return [0.25, None][i % 2]
    if name == "address":
        return [("127.0.0.1", 9001), None][i % 2]
    if name == "metrics":
        return _metrics(i)
    if name == "current_path":
        return [("x10", vals[0], costs[0]), ("x2", vals[-1], costs[-1])][: 2 - (i % 2)]
    if name == "costs":
        return {v: costs[k % len(costs)] for k, v in enumerate(vals)}
    if name == "offers":
        return {(v, w): costs[(k + j) % len(costs)] for k, v in enumerate(vals) for j, w in enumerate(vals[:2])}
    if name == "repair_info":
        return {"x2": (["a7", "a10"], {"x10": "a3"}, {"c_12": ["a10", "a1"], "x5": []}), "c_12": ([], {}, {})}
    if name == "replica_hosts":
        return {"x2": {"a10", "a3"}, "c_12": set()}
    if name in ("comp_def", "computation_def"):
        return small_comp_def(P, i)
    if name == "rq_path":
        return [("a7", "a10", "a3"), ("a7",)][i % 2]
    if name == "paths":
        return [(costs[0] if not isinstance(costs[0], float) or costs[0] > -INF else 0, ("a7", "a10")),
                (1.5, ("a7", "a10", "a3"))][: 2 - (i % 2)]
    return None  # unknown field name


class Case:
    def __init__(self, label, build, tags=()):
        self.label = label
        self.build = build
        self.tags = tuple(tags)


def explicit_cases(cname, cls, P):
    """classes that cannot be instantiated from field names alone: how pyDCOP's own call sites build them"""
    short = cname.rsplit(".", 1)[-1]
    vals, costs = P["vals"], P["costs"]
    if short == "DpopMessage":
        def util(i):
            def b():
                from pydcop.dcop.objects import Variable, Domain
                from pydcop.dcop.relations import NAryMatrixRelation, join, projection
                d = Domain("d_w", "wire", vals)
                x, y, z = Variable("x2", d), Variable("x10", d, vals[-1]), Variable("x1", d)
                n = len(vals)
                r1 = NAryMatrixRelation([x, y], [[costs[(r + c + i) % len(costs)] for c in range(n)] for r in range(n)], name="r1")
                r2 = NAryMatrixRelation([y, z], [[(r - c) * 0.5 for c in range(n)] for r in range(n)], name="r2")
                return cls("UTIL", projection(join(r1, r2), z, "min"))  # what DpopAlgo._compute_utils_msg sends
            return b

        def value(i):
            def b():
                from pydcop.dcop.objects import Variable, VariableWithCostFunc, Domain
                from pydcop.utils.expressionfunction import ExpressionFunction
                d = Domain("d_w", "wire", vals)
                x = Variable("x2", d, vals[1])
                y = VariableWithCostFunc("x10", d, ExpressionFunction("1.5 if x10 == %r else 0" % (vals[0],)))
                vs = [x, y][: 2 - i]
                return cls("VALUE", (vs, [_rot(vals, k + 1)[0] for k in range(len(vs))]))
            return b
        return [Case("UTIL", util(0)), Case("UTIL-rotated", util(1)), Case("VALUE-2vars", value(0)), Case("VALUE-1var", value(1))]
    if short == "Mgm2ResponseMessage":
        return [Case("reject", lambda: cls(False)),
                Case("accept", lambda: cls(True, _rot(vals, 1)[0], costs[0])),
                Case("accept-other", lambda: cls(True, vals[0], costs[-1]))]
    if short == "Mgm2OfferMessage":
        return [Case("not-offering", lambda: cls(dict(), False)),
                # an offerer whose best joint move is the current one sends an empty offer that still asks for an answer
                Case("offering-nothing", lambda: cls(dict(), True)),
                Case("offering", lambda: cls(gen_field("offers", P, 0), True)),
                Case("offering-single", lambda: cls({(vals[1], vals[0]): costs[0]}, True))]
    if short == "SyncBBTerminateMessage":
        return [Case("as-sent-by-syncbb(no-argument)", lambda: cls(), tags=("fields-unset",)),
                Case("with-fields", lambda: cls(gen_field("current_path", P, 0), costs[0]))]
    if short == "UCSReplicateMessage":
        def mk(i):
            def b():
                args = {n: gen_field(n, P, i) for n in list(inspect.signature(cls.__init__).parameters)[1:]}
                args["rep_msg_type"] = ["replicate_request", "replicate_answer"][i % 2]
                return cls(**args)
            return b
        return [Case("request", mk(0)), Case("answer", mk(1))]
    if short == "Message":  # the base class is used directly for VARIABLE_VALUE (ExternalVariableComputation)
        return [Case("VARIABLE_VALUE", lambda: cls("VARIABLE_VALUE", _rot(vals, 1)[0])),
                Case("no-content", lambda: cls("SUBSCRIBE", None))]
    return None


def cases_for(cname, cls, P):
    """[Case] for one discovered class; None when it cannot be instantiated generically"""
    ex = explicit_cases(cname, cls, P)
    if ex is not None:
        return ex, True
    fields = msgtype_fields(cls)
    positional = fields is not None
    if fields is None:
        try:
            fields = [p for p in list(inspect.signature(cls.__init__).parameters)[1:]]
        except (TypeError, ValueError):
            return None, False
    if any(f in ("args", "kwargs") for f in fields):
        return None, False
    unknown = [f for f in fields if gen_field(f, PROFILES["int-values.int-costs"], 0) is None and f not in ("period", "address")]
    uses_pools = bool(set(fields) & POOL_F)

    def mk(i, kw):
        def b():
            vals = [gen_field(f, P, i) for f in fields]
            for k, f in enumerate(fields):
                if f in unknown:
                    vals[k] = _rot(P["vals"], i)[0]
            if kw:
                return cls(**dict(zip(fields, vals)))
            return cls(*vals)
        return b

    if not fields:
        return [Case("no-field", mk(0, False))], False
    out = [Case("v0", mk(0, False)), Case("v1", mk(1, True))]

    def falsy(v):
        # zero / False / '' for the scalar fields: legal but falsy values (truth tests in custom encoders and decoders)
        if isinstance(v, bool):
            return False
        if isinstance(v, (int, float)):
            return type(v)(0)
        if isinstance(v, str):
            return ""
        return v          # containers stay as generated: whether an empty one is a legal message depends on the class

    def mk_falsy():
        vals = [falsy(gen_field(f, P, 0)) for f in fields]
        for k, f in enumerate(fields):
            if f in unknown:
                vals[k] = falsy(_rot(P["vals"], 0)[0])
        return cls(*vals)
    try:
        mk_falsy()       # some constructors refuse empty values: then there is no such message to send
        out.append(Case("falsy-fields", mk_falsy))
    except Exception:  # noqa
        pass
    if unknown:
        for c in out:
            c.tags += ("generic-content:%s" % ",".join(unknown),)
    return out, uses_pools


def _group_of(cname):
    top = cname.split(".")[0]
    return {"algorithms": "algorithms", "infrastructure": "infrastructure"}.get(top, "replication")


MSG_TYPE_OF_GROUP = {"algorithms": 20, "infrastructure": 10, "replication": 20}


def sync_stamp(msg, cycle):
    """hand the message to the real SynchronousComputationMixin.post_msg and return what it passes to the
    lower layer (today: the same object with a ``cycle_id`` attribute)"""
    from pydcop.infrastructure.computations import SynchronousComputationMixin

    class _Sink:
        def post_msg(self, target, m, prio=None, on_error=None):
            self.sent.append((target, m))

    class _Stub(SynchronousComputationMixin, _Sink):
        def __init__(self):  # noqa (deliberately not running the computation machinery)
            self.name = "x2"
            self.logger = logging.getLogger("c15.sync")
            self._current_cycle = cycle
            self.cycle_message_sent = []
            self.sent = []

    st = _Stub()
    st.post_msg("x10", msg)
    assert len(st.sent) == 1
    return st.sent[0][1]


_FAILED = set()


def prove1(env, label, cond, detail=None):
    """first witness per label and job: once a label has a failing witness in this worker process the
    following instances are not re-reported (each witness is replayed natively in a fresh process)"""
    if label in _FAILED:
        return bool(cond) if isinstance(cond, bool) else False
    ok = env.prove(label, cond, detail=detail)
    if not ok:
        _FAILED.add(label)
    return ok


def _tag(tags):
    return "[%s]" % ",".join(tags) if tags else ""


def h_messages(env):
    p = env.params
    group, route = p["group"], p["route"]
    r = env.call(discover_messages)
    if isinstance(r, Raised):
        env.prove("wire.msg.message-modules-import", False, detail=lambda: r.tb)
        return
    classes, sync_modules, import_errors = r
    env.prove("wire.msg.message-modules-import", not import_errors, detail=lambda: import_errors)
    if group == "infrastructure":
        from pydcop.infrastructure.computations import Message
        classes = dict(classes)
        classes.setdefault("infrastructure.computations.Message", (Message, ["pydcop.infrastructure.computations"]))
    names = sorted(n for n in classes if _group_of(n) == group)
    env.prove("wire.msg.discovery-finds-message-classes", len(names) > 0, detail=lambda: sorted(classes))
    if not names:
        return
    cname = env.choice("class", names)
    cls, where = classes[cname]
    probe, uses_pools = cases_for(cname, cls, PROFILES["int-values.int-costs"])
    if probe is None:
        env.note("UNCOVERED message class (cannot be instantiated generically): %s" % cname)
        env.cover("uncovered-class:" + cname)
        return
    pname = env.choice("profile", list(PROFILES) if uses_pools else ["int-values.int-costs"])
    P = PROFILES[pname]
    cases, _ = cases_for(cname, cls, P)
    case = env.choice("variant", cases)
    # messages of synchronous computations are stamped with the cycle by SynchronousComputationMixin.post_msg
    # (the classes *defined* in a module that has a synchronous computation; message_type products are defined
    #  where they are bound)
    defined_in = where if msgtype_fields(cls) is not None else [cls.__module__]
    stamped_by = [m for m in defined_in if m in sync_modules]
    is_sync_msg = cname.endswith(".SynchronizationMsg")
    stamp = env.choice("sender", ["plain", "synchronous-computation"]) if (stamped_by or is_sync_msg) else "plain"
    tags = list(case.tags)
    m = env.call(case.build)
    if isinstance(m, Raised):
        # the generator, not pyDCOP, is at fault: checker error rather than a violation
        raise RuntimeError("cannot build %s/%s: %s" % (cname, case.label, m.tb))
    if stamp != "plain":
        m = sync_stamp(m, 3)
        tags.append("cycle-stamped-by-SynchronousComputationMixin")
    env.cover("class:" + cname)
    what = "%s %s %s" % (cname, case.label, pname)

    from pydcop.utils.simple_repr import simple_repr
    rep = env.call(simple_repr, m)
    nonfinite = (not isinstance(rep, Raised)) and has_nonfinite(rep)
    if route == "json":
        stage, d, _ = route_json(env, m)
        T = _tag(tags)
        prove1(env, "wire.msg.json.encodes-to-json-text" + T, stage != "encode", detail=lambda: (what, d))
        if stage == "encode":
            return
        prove1(env, "wire.msg.json.decodes" + T, stage != "decode", detail=lambda: (what, d))
        if stage != "ok":
            return
    else:
        if nonfinite:
            tags.append("non-finite-number")
        T = _tag(tags)
        mt = MSG_TYPE_OF_GROUP[group]
        stage, got = route_http(env, "x2", "x10", m, mt)
        prove1(env, "wire.msg.http.send_msg-posts-the-message" + T, stage != "encode", detail=lambda: (what, got))
        if stage == "encode":
            return
        prove1(env, "wire.msg.http.do_POST-decodes-the-message" + T, stage != "decode", detail=lambda: (what, got))
        if stage != "ok":
            return
        src, dest, d, mtype = got
        prove1(env, "wire.msg.http.envelope-keeps-source-destination-and-priority",
               (src, dest, mtype) == ("x2", "x10", mt), detail=lambda: (what, src, dest, mtype))
    env.cover("post")
    T = _tag([t for t in tags if t != "non-finite-number"])
    R = "wire.msg.%s." % route
    prove1(env, R + "same-message-type" + T, getattr(d, "type", None) == m.type,
           detail=lambda: (what, m.type, getattr(d, "type", None)))
    if not _is_msgtype_product(m):
        prove1(env, R + "same-class" + T, type(d) is type(m), detail=lambda: (what, type(m), type(d)))
    diffs = deep_diff(m, d)
    prove1(env, R + "same-fields-deep" + T, not diffs, detail=lambda: (what, diffs))
    # behavioural probes: the public accessors give the same answers
    acc = [a for a in dir(type(m)) if isinstance(getattr(type(m), a, None), property)]
    for f in (msgtype_fields(cls) or []):
        if f not in acc and hasattr(m, f):
            acc.append(f)
    bad = []
    for a in sorted(acc):
        va = env.call(lambda: getattr(m, a))
        if isinstance(va, Raised):
            continue
        vb = env.call(lambda: getattr(d, a))
        if isinstance(vb, Raised):
            bad.append("%s: decoded raises %r" % (a, vb))
        else:
            df = deep_diff(va, vb, a)
            bad.extend(df)
    prove1(env, R + "public-accessors-give-same-answers" + T, not bad, detail=lambda: (what, bad))


def _msg_shapes(tier):
    return [dict(group=g, route=r) for g in ("algorithms", "infrastructure", "replication") for r in ("json", "http")]


Contract(
    "wire.messages", ["C15"],
    ["pydcop.utils.simple_repr:simple_repr", "pydcop.utils.simple_repr:from_repr",
     "pydcop.utils.simple_repr:SimpleRepr._simple_repr", "pydcop.utils.simple_repr:SimpleRepr._from_repr",
     "pydcop.infrastructure.computations:message_type",
     "pydcop.infrastructure.computations:SynchronousComputationMixin.post_msg",
     "pydcop.infrastructure.communication:HttpCommunicationLayer.send_msg",
     "pydcop.infrastructure.communication:MPCHttpHandler.do_POST",
     "pydcop.algorithms.maxsum:MaxSumMessage._simple_repr", "pydcop.algorithms.maxsum:MaxSumMessage._from_repr",
     "pydcop.algorithms.mgm2:Mgm2OfferMessage._simple_repr", "pydcop.algorithms.mgm2:Mgm2OfferMessage._from_repr",
     "pydcop.dcop.relations:NAryMatrixRelation._simple_repr"],
    h_messages, _msg_shapes, mode="E", must_cover=["post"],
    budget=dict(all_failures=True, quick=dict(max_paths=6000, timeout_s=120), thorough=dict(max_paths=6000, timeout_s=600)),
    trusted=["HTTP route: the TCP socket between requests.post and http.server is replaced by an in-memory hand-over; "
             "body and headers are produced by the installed requests library (Request.prepare) and parsed by http.client.parse_headers",
             "json.dumps/json.loads of the standard library"],
    assumptions=["a set/frozenset field may come back as a list with the same elements (simple_repr documents sets as lists)",
                 "message contents follow pyDCOP's own call sites: domain values int/str/float/bool, costs int/float/+-inf/huge, "
                 "names are plain ASCII identifiers"],
    desc="every discovered Message class (algorithms, orchestration, discovery, replication), generated contents: decoded "
         "message has the same type, class and fields (deep) through JSON and through send_msg/do_POST",
)


# ====================================================================== computation definitions

GRAPH_MODELS = ["constraints_hypergraph", "factor_graph", "pseudotree", "ordered_graph"]

YAML_SPEC = """
name: wire
objective: max
domains:
  d1:
    values: [10, 0, 5]
    type: lvl
  d2:
    values: [R, G]
variables:
  va:
    domain: d1
    initial_value: 5
  vb:
    domain: d2
    cost_function: "1.5 if vb == 'R' else 0"
  vc:
    domain: d1
    cost_function: vc * 0.25
    noise_level: 0.1
external_variables:
  ve:
    domain: d2
    initial_value: G
constraints:
  ext:
    type: extensional
    variables: [va, vb]
    default: 7
    values:
      2: 10 R | 0 G
      -1.5: 5 R
  multi:
    type: intention
    function: |
      if va == vc:
          return 100
      return va - vc
  withext:
    type: intention
    function: 10 if ve == vb else vc
agents: [a1, a2]
"""


def build_spec(spec):
    from pydcop.dcop.dcop import DCOP
    from pydcop.dcop.objects import (Variable, Domain, BinaryVariable, VariableWithCostFunc, VariableNoisyCostFunc,
                                     VariableWithCostDict)
    from pydcop.dcop.relations import NAryMatrixRelation, constraint_from_str
    from pydcop.utils.expressionfunction import ExpressionFunction
    if spec == "yaml":
        from pydcop.dcop.yamldcop import load_dcop
        return load_dcop(YAML_SPEC)
    dcop = DCOP(spec, "min")
    if spec == "mixed":
        d_int = Domain("levels", "lvl", [10, 0, 5])
        d_str = Domain("colors", "color", ["b", "a"])
        x1 = Variable("x1", d_int, 0)
        x2 = VariableWithCostFunc("x2", d_str, ExpressionFunction("0.5 if x2 == 'a' else 2"), "a")
        x3 = VariableNoisyCostFunc("x3", d_int, ExpressionFunction("x3 * 0.1"), initial_value=5, noise_level=0.05)
        x0 = BinaryVariable("x0", 1)
        allv = [x0, x1, x2, x3]
        dcop.add_constraint(constraint_from_str("c_e", "(3 if x2 == 'a' else x1 * 0.5) + x0", allv))
        dcop.add_constraint(NAryMatrixRelation([x2, x3], [[1, INF, 2.5], [0, -3, 4]], name="c_m"))
        dcop.add_constraint(constraint_from_str("c_u", "abs(x3 - 4)", allv))
        dcop.add_constraint(constraint_from_str("c_t", "float('-inf') if x1 == x3 and x0 else x1 - x3 * 2", allv))
        return dcop
    if spec == "chain":
        # names whose sorted order is neither creation order nor numeric order; int matrices; an isolated variable
        d = Domain("d", "", [7, 0, 3])
        v9, v10, v2 = Variable("v9", d), Variable("v10", d, 3), Variable("v2", d, 0)
        dcop.add_constraint(NAryMatrixRelation([v9, v10], [[1, 2, 3], [4, 5, 6], [7, 8, 9]], name="k1"))
        dcop.add_constraint(NAryMatrixRelation([v10, v2], [[0, -1, 2 ** 40], [3, 0, 1], [5, 5, 0]], name="k0"))
        dcop.add_constraint(constraint_from_str("k2", "v2 * 10 + v9", [v9, v10, v2]))
        dcop.add_variable(Variable("w", Domain("dw", "", ["only"])))
        # more than ten values: positions 10, 11 of the encoded tuple must not sort as text
        dcop.add_variable(Variable("w12", Domain("d12", "", list(range(20, 8, -1))), 9))
        return dcop
    if spec in ("costdict-str-domain", "costdict-int-domain"):
        vals = ["b", "a", "c"] if spec == "costdict-str-domain" else [10, 0, 5]
        d = Domain("d", "", vals)
        y1 = VariableWithCostDict("y1", d, {vals[0]: 1.5, vals[1]: 0, vals[2]: -2}, vals[1])
        y2 = VariableWithCostDict("y2", d, {vals[2]: 4})
        dcop.add_constraint(constraint_from_str("q", "1 if y1 == y2 else 0", [y1, y2]))
        return dcop
    if spec == "other-relations":
        # the remaining relation classes that carry the SimpleRepr mixin
        from pydcop.dcop.relations import UnaryBooleanRelation, NeutralRelation, ConditionalRelation
        d = Domain("d", "", [10, 0, 5])
        r1, r2, r3 = Variable("r1", d, 0), Variable("r2", d), Variable("r3", d, 5)
        dcop.add_constraint(UnaryBooleanRelation("ub", r1))
        dcop.add_constraint(NeutralRelation([r1, r2], "neutral"))
        dcop.add_constraint(ConditionalRelation(UnaryBooleanRelation("cond", r3), constraint_from_str("then", "r2 * 2 + r3", [r1, r2, r3]),
                                                name="cr"))
        return dcop
    if spec == "sliced":
        # a constraint obtained by slicing (partial ExpressionFunction with fixed variables) and a sliced matrix
        d = Domain("d", "", [10, 0, 5])
        ds = Domain("ds", "", ["b", "a"])
        s1, s2, s3 = Variable("s1", d), Variable("s2", ds, "b"), Variable("s3", d)
        full = constraint_from_str("f", "s1 + s3 if s2 == 'a' else s1 * s3", [s1, s2, s3])
        dcop.add_constraint(full.slice({"s2": "a"}))
        m = NAryMatrixRelation([s1, s2, s3], [[[r + 10 * c + 0.5 * k for k in range(3)] for c in range(2)] for r in range(3)], name="m3")
        dcop.add_constraint(m.slice({"s3": 0}))
        dcop.add_variable(s2)
        dcop.add_variable(s3)
        return dcop
    raise ValueError(spec)


def algos_for(model):
    from pydcop.algorithms import list_available_algorithms, load_algorithm_module
    out = []
    for a in sorted(list_available_algorithms()):
        try:
            mod = load_algorithm_module(a)
        except BaseException:  # noqa
            continue
        if getattr(mod, "GRAPH_TYPE", None) == model:
            out.append(a)
    return out


def algo_def(algo, custom):
    from pydcop.algorithms import AlgorithmDef, load_algorithm_module
    if not custom:
        return AlgorithmDef.build_with_default_param(algo, mode="min")
    params = {}
    for pd in load_algorithm_module(algo).algo_params:
        if pd.values:
            params[pd.name] = pd.values[-1]
        elif pd.type == "int":
            params[pd.name] = 7
        elif pd.type == "float":
            params[pd.name] = 0.3125
    return AlgorithmDef.build_with_default_param(algo, params, mode="max")


def _assignments(dims):
    names = [v.name for v in dims]
    for vals in itertools.product(*[list(v.domain) for v in dims]):
        yield dict(zip(names, vals))


def relation_diff(env, ra, rb, where):
    """relation values on every assignment (+ name, scope)"""
    out = []
    if ra.name != rb.name:
        out.append("%s: name %r, decoded %r" % (where, ra.name, rb.name))
    da, db = [v.name for v in ra.dimensions], [v.name for v in rb.dimensions]
    if da != db:
        out.append("%s: scope %r, decoded %r" % (where, da, db))
        if sorted(da) != sorted(db):
            return out
    for a in _assignments(ra.dimensions):
        va = env.call(lambda: ra(**a)) if a else env.call(lambda: ra.get_value_for_assignment({}))
        vb = env.call(lambda: rb(**a)) if a else env.call(lambda: rb.get_value_for_assignment({}))
        if isinstance(va, Raised):
            continue  # the original itself has no value there
        if isinstance(vb, Raised):
            out.append("%s%r: original %r, decoded raises %r" % (where, a, va, vb))
        elif not (_isnum(vb) or _isbool(vb)) or not _num_eq(va, vb):
            out.append("%s%r: original %r, decoded %r" % (where, a, va, vb))
        if len(out) > 6:
            break
    return out


def variable_diff(env, va, vb, where):
    out = []
    if type(va) is not type(vb):
        return ["%s: class %s, decoded %s" % (where, type(va).__name__, type(vb).__name__)]
    if va.name != vb.name:
        out.append("%s: name %r, decoded %r" % (where, va.name, vb.name))
    out += deep_diff(va.domain, vb.domain, where + ".domain")
    out += deep_diff(va.initial_value, vb.initial_value, where + ".initial_value")
    if hasattr(va, "value"):
        out += deep_diff(va.value, getattr(vb, "value", None), where + ".value")
    noisy = hasattr(va, "noise_level")
    if noisy:
        out += deep_diff(va.noise_level, vb.noise_level, where + ".noise_level")
    for d in va.domain:
        if noisy:
            # the noise is drawn again on the receiving side: same cost function, decoded cost within the noise bounds
            base_a = env.call(lambda: va._cost_func(**{va.name: d}))
            base_b = env.call(lambda: vb._cost_func(**{vb.name: d}))
            cb = env.call(vb.cost_for_val, d)
            if isinstance(base_b, Raised) or isinstance(cb, Raised) or not _num_eq(base_a, base_b) \
                    or not (base_a - 1e-9 <= cb <= base_a + va.noise_level + 1e-9):
                out.append("%s.cost(%r): base %r noise %r, decoded base %r cost %r" % (where, d, base_a, va.noise_level, base_b, cb))
            continue
        ca = env.call(va.cost_for_val, d)
        cb = env.call(vb.cost_for_val, d)
        if isinstance(ca, Raised):
            continue
        if isinstance(cb, Raised) or not _num_eq(ca, cb):
            out.append("%s.cost(%r): original %r, decoded %r" % (where, d, ca, cb))
    return out


def h_compdef(env):
    p = env.params
    model, route = p["model"], p["route"]
    spec = env.choice("spec", p["specs"])
    L = "wire.compdef.%s." % model
    # trait of the generated DCOP that gets its own obligation labels (one label = one root cause)
    VT = "[VariableWithCostDict,non-string-domain-values]" if spec == "costdict-int-domain" else ""
    gm = env.call(importlib.import_module, "pydcop.computations_graph." + model)
    if isinstance(gm, Raised):
        env.prove(L + "graph-module-imports", False, detail=lambda: gm.tb)
        return
    from pydcop.algorithms import ComputationDef
    dcop = build_spec(spec)
    cg = env.call(gm.build_computation_graph, dcop)
    if isinstance(cg, Raised):
        raise RuntimeError("cannot build %s graph for spec %s: %s" % (model, spec, cg.tb))
    algos = algos_for(model)
    if p.get("algos") and spec in p.get("algos_only_for", [spec]):
        algos = [a for a in algos if a in p["algos"]] or algos
    env.prove(L + "some-algorithm-uses-this-graph-model", bool(algos))
    if not algos:
        return
    algo = env.choice("algo", algos)
    custom = env.choice("algo-params", ["default-min", "custom-max"]) == "custom-max"
    node_name = env.choice("node", sorted(n.name for n in cg.nodes))
    node = cg.computation(node_name)
    cd = ComputationDef(node, algo_def(algo, custom))
    what = "%s/%s node=%s algo=%s" % (model, spec, node_name, algo)
    if route == "json":
        stage, d, _ = route_json(env, cd)
        prove1(env, L + "json.encodes-to-json-text", stage != "encode", detail=lambda: (what, d))
        if stage == "encode":
            return
        prove1(env, L + "json.decodes", stage != "decode", detail=lambda: (what, d))
        if stage != "ok":
            return
    else:
        from pydcop.infrastructure.orchestrator import DeployMessage
        from pydcop.utils.simple_repr import simple_repr
        rep = env.call(simple_repr, cd)
        T = "[non-finite-number]" if (not isinstance(rep, Raised) and has_nonfinite(rep)) else ""
        stage, got = route_http(env, "_mgt_orchestrator", "_mgt_a1", DeployMessage(cd), 10)
        prove1(env, L + "http.send_msg-posts-the-deploy-message" + T, stage != "encode", detail=lambda: (what, got))
        if stage == "encode":
            return
        prove1(env, L + "http.do_POST-decodes-the-deploy-message" + T, stage != "decode", detail=lambda: (what, got))
        if stage != "ok":
            return
        d = getattr(got[2], "comp_def", None)
    env.cover("post")
    ok = isinstance(d, ComputationDef)
    prove1(env, L + "decoded-is-a-ComputationDef", ok, detail=lambda: (what, type(d)))
    if not ok:
        return
    dn = d.node
    prove1(env, L + "node-same-class-name-and-type",
           type(dn) is type(node) and dn.name == node.name and dn.type == node.type,
           detail=lambda: (what, type(node), type(dn), node.name, dn.name, node.type, dn.type))
    if type(dn) is not type(node):
        return
    # algorithm definition
    prove1(env, L + "algorithm-definition-equal", not deep_diff(cd.algo, d.algo)
           and (d.algo.algo, d.algo.mode, d.algo.params) == (cd.algo.algo, cd.algo.mode, cd.algo.params),
           detail=lambda: (what, deep_diff(cd.algo, d.algo), cd.algo, d.algo))
    # links and neighbours, as sets
    ldiff = _unordered(list(node.links), list(dn.links), "links", [])
    prove1(env, L + "links-equal", not ldiff, detail=lambda: (what, ldiff, list(node.links), list(dn.links)))
    # the link classes carry their own wire format (PseudoTreeLink, OrderLink, FactorGraphLink custom reprs): every
    # link of the node, encoded and decoded on its own, is the same link (class, type, nodes, source/target, name)
    lbad = []
    for lk in node.links:
        st, dl, _ = route_json(env, lk)
        if st != "ok":
            lbad.append("%r: %s fails: %r" % (lk, st, dl))
        else:
            lbad += deep_diff(lk, dl, repr(lk))
    prove1(env, L + "every-link-of-the-node-survives-on-its-own", not lbad, detail=lambda: (what, lbad))
    ndiff = _unordered(list(node.neighbors), list(dn.neighbors), "neighbors", [])
    prove1(env, L + "neighbours-equal", not ndiff and len(set(dn.neighbors)) == len(list(dn.neighbors)),
           detail=lambda: (what, ndiff, list(node.neighbors), list(dn.neighbors)))
    # model specific navigation built on the links
    nav = []
    if model == "ordered_graph":
        nav = [(f, env.call(getattr(node, f)), env.call(getattr(dn, f))) for f in ("get_next", "get_previous")]
    if model == "pseudotree":
        nav = [("get_dfs_relations", env.call(gm.get_dfs_relations, node), env.call(gm.get_dfs_relations, dn))]
    navbad = [(f, a, b) for f, a, b in nav if isinstance(b, Raised) or isinstance(a, Raised) or deep_diff(_sorted_lists(a), _sorted_lists(b))]
    if nav:
        prove1(env, L + "position-in-the-graph-equal(next/previous,parent/children)", not navbad, detail=lambda: (what, navbad))
    # variable
    if hasattr(node, "variable"):
        vdiff = variable_diff(env, node.variable, dn.variable, "variable")
        prove1(env, L + "variable-equal(name,domain,initial-value,cost-of-every-value)" + VT, not vdiff, detail=lambda: (what, vdiff))
    if hasattr(node, "variables") and not hasattr(node, "variable"):
        va, vb = list(node.variables), list(dn.variables)
        vdiff = ["variables: %r, decoded %r" % (va, vb)] if [v.name for v in va] != [v.name for v in vb] else []
        for x, y in zip(va, vb):
            vdiff += variable_diff(env, x, y, "variables[%s]" % x.name)
        prove1(env, L + "factor-variables-equal" + VT, not vdiff, detail=lambda: (what, vdiff))
    if hasattr(node, "constraints_names"):
        prove1(env, L + "constraints-names-equal", sorted(node.constraints_names) == sorted(dn.constraints_names),
               detail=lambda: (what, node.constraints_names, dn.constraints_names))
    # relations: same names, same scope, same value on every assignment; scope variables equal
    if hasattr(node, "constraints"):
        ca = {c.name: c for c in node.constraints}
        cb = {c.name: c for c in dn.constraints}
        rdiff = []
        if sorted(ca) != sorted(cb) or len(list(node.constraints)) != len(list(dn.constraints)):
            rdiff.append("constraints %r, decoded %r" % (sorted(ca), sorted(cb)))
        sdiff = []
        for n in sorted(set(ca) & set(cb)):
            if type(ca[n]) is not type(cb[n]):
                rdiff.append("%s: class %s, decoded %s" % (n, type(ca[n]).__name__, type(cb[n]).__name__))
            rdiff += relation_diff(env, ca[n], cb[n], n)
            for x, y in zip(ca[n].dimensions, cb[n].dimensions):
                sdiff += variable_diff(env, x, y, "%s.scope[%s]" % (n, x.name))
        prove1(env, L + "relation-values-equal-on-every-assignment", not rdiff, detail=lambda: (what, rdiff))
        prove1(env, L + "relation-scope-variables-equal" + VT, not sdiff, detail=lambda: (what, sdiff))
    # and everything else: deep walk of all fields (links / neighbours are decided above)
    diffs = deep_diff(cd, d, skip=UNORDERED_ATTRS)
    prove1(env, L + "same-fields-deep(all-other-fields)" + VT, not diffs, detail=lambda: (what, diffs))


def _sorted_lists(x):
    if isinstance(x, tuple):
        return tuple(_sorted_lists(e) for e in x)
    if isinstance(x, list):
        return sorted(x, key=key)
    return x


SPECS = ["mixed", "yaml", "chain", "sliced", "other-relations", "costdict-str-domain", "costdict-int-domain"]


def _compdef_shapes(tier):
    out = []
    for model in GRAPH_MODELS:
        for route in ("json", "http"):
            sh = dict(model=model, route=route, specs=list(SPECS))
            if tier != "thorough":
                if route == "http":
                    sh["specs"] = ["mixed", "chain", "yaml"]
                if model == "constraints_hypergraph":
                    # every algorithm of the model on the first spec, three of them on the others
                    sh["algos"] = ["dsa", "mgm2", "dsatuto"]
                    sh["algos_only_for"] = [x for x in SPECS if x != "mixed"]
            out.append(sh)
    return out


Contract(
    "wire.computation_defs", ["C15"],
    ["pydcop.algorithms:ComputationDef", "pydcop.algorithms:AlgorithmDef._simple_repr", "pydcop.algorithms:AlgorithmDef._from_repr",
     "pydcop.computations_graph.objects:ComputationNode._simple_repr", "pydcop.computations_graph.objects:Link",
     "pydcop.computations_graph.constraints_hypergraph:VariableComputationNode",
     "pydcop.computations_graph.constraints_hypergraph:ConstraintLink",
     "pydcop.computations_graph.factor_graph:FactorComputationNode", "pydcop.computations_graph.factor_graph:VariableComputationNode",
     "pydcop.computations_graph.factor_graph:FactorGraphLink._simple_repr", "pydcop.computations_graph.factor_graph:FactorGraphLink._from_repr",
     "pydcop.computations_graph.pseudotree:PseudoTreeNode", "pydcop.computations_graph.pseudotree:PseudoTreeLink._simple_repr",
     "pydcop.computations_graph.pseudotree:PseudoTreeLink._from_repr",
     "pydcop.computations_graph.ordered_graph:VariableComputationNode", "pydcop.computations_graph.ordered_graph:OrderLink._simple_repr",
     "pydcop.computations_graph.ordered_graph:OrderLink._from_repr", "pydcop.computations_graph.ordered_graph:OrderedConstraintGraph",
     "pydcop.utils.expressionfunction:ExpressionFunction._simple_repr", "pydcop.utils.expressionfunction:ExpressionFunction._from_repr",
     "pydcop.dcop.relations:NAryMatrixRelation._simple_repr", "pydcop.dcop.relations:NAryFunctionRelation",
     "pydcop.dcop.objects:Variable", "pydcop.dcop.objects:Domain", "pydcop.dcop.objects:VariableWithCostFunc._simple_repr",
     "pydcop.dcop.objects:VariableWithCostDict", "pydcop.dcop.objects:VariableNoisyCostFunc", "pydcop.dcop.objects:ExternalVariable",
     "pydcop.utils.simple_repr:simple_repr", "pydcop.utils.simple_repr:from_repr",
     "pydcop.infrastructure.communication:HttpCommunicationLayer.send_msg", "pydcop.infrastructure.communication:MPCHttpHandler.do_POST"],
    h_compdef, _compdef_shapes, mode="E", must_cover=["post"],
    budget=dict(all_failures=True, quick=dict(max_paths=4000, timeout_s=120), thorough=dict(max_paths=20000, timeout_s=900)),
    trusted=["HTTP route: the TCP socket between requests.post and http.server is replaced by an in-memory hand-over"],
    assumptions=["VariableNoisyCostFunc: the noise is drawn again by the receiving constructor; required: same cost function and "
                 "noise level, decoded costs within [cost, cost + noise_level]",
                 "ExternalVariable run-time subscriptions (_cb) are local to a process and not part of what is transmitted",
                 "links and neighbours are compared as sets"],
    desc="ComputationDef of every node of the four graph models built from generated DCOPs (expression, matrix, sliced constraints; "
         "plain, binary, cost-function, noisy, cost-dict, external variables), every algorithm of the model: decoded definition has the "
         "same node, links, neighbours, variable costs, relation values on every assignment and algorithm parameters; "
         "also UnaryBoolean/Neutral/Conditional relations, a 12-value domain, yaml-loaded DCOP with an external variable",
)


# ====================================================================== AgentDef pickling

AGENT_YAML = """
name: agents
objective: min
domains:
  d: {values: [0, 1]}
variables:
  v1: {domain: d}
constraints:
  c1: {type: intention, function: v1 * 2}
agents:
  a7: {capacity: 100, zone: north}
  a10: {capacity: 0}
  a3: {}
routes:
  default: 2.5
  a7: {a10: 7, a3: 0}
hosting_costs:
  default: 4
  a7:
    default: 0.5
    computations: {v1: 0, c1: 12}
"""


def h_agentdef(env):
    from pydcop.dcop.objects import AgentDef
    build = env.choice("built-by", ["constructor", "constructor-defaults", "yaml"])
    if build == "yaml":
        from pydcop.dcop.yamldcop import load_dcop
        a = load_dcop(AGENT_YAML).agents["a7"]
        others, comps = ["a10", "a3"], ["v1", "c1"]
    elif build == "constructor-defaults":
        a = AgentDef("a7")
        others, comps = [], []
    else:
        routes = env.choice("routes", [{}, {"a10": 7, "a3": 0, "a2": 0.25}, {"a10": INF}])
        default_route = env.choice("default_route", [1, 0, 2.5])
        hosting = env.choice("hosting_costs", [{}, {"x1": 5, "c_12": 0, "x10": 0.5}])
        default_hosting = env.choice("default_hosting_cost", [0, 3.5])
        extra = env.choice("extra", [{}, {"capacity": 100, "zone": "north", "w": 0.5, "flag": False}])
        a = AgentDef("a7", default_route=default_route, routes=dict(routes), default_hosting_cost=default_hosting,
                     hosting_costs=dict(hosting), **extra)
        others, comps = sorted(routes), sorted(hosting)
    proto = env.choice("pickle-protocol", [pickle.DEFAULT_PROTOCOL, 0, pickle.HIGHEST_PROTOCOL])
    # run_local_process_dcop hands the AgentDef to multiprocessing.Process(args=[...]): pickled on spawn
    b = env.call(lambda: pickle.loads(pickle.dumps(a, protocol=proto)))
    prove1(env, "wire.agentdef.pickles-and-unpickles", not isinstance(b, Raised), detail=lambda: b)
    if isinstance(b, Raised):
        return
    env.cover("post")
    prove1(env, "wire.agentdef.is-an-AgentDef-with-the-same-name", type(b) is AgentDef and env.call(lambda: b.name) == a.name,
           detail=lambda: (a, b))

    def same(f, label):
        va = env.call(f, a)
        vb = env.call(f, b)
        if isinstance(va, Raised):
            return []
        if isinstance(vb, Raised):
            return ["%s: original %r, unpickled raises %r" % (label, va, vb)]
        return deep_diff(va, vb, label)

    ex = same(lambda x: x.extra_attr(), "extra_attr()")
    for k in sorted(a.extra_attr()):
        ex += same(lambda x: getattr(x, k), "attribute " + k)
    prove1(env, "wire.agentdef.extra-attributes-kept", not ex, detail=lambda: (a, ex))

    hc = same(lambda x: x.default_hosting_cost, "default_hosting_cost") + same(lambda x: x.hosting_costs, "hosting_costs")
    for c in comps + ["unknown_computation"]:
        hc += same(lambda x: x.hosting_cost(c), "hosting_cost(%s)" % c)
    prove1(env, "wire.agentdef.hosting-costs-kept", not hc, detail=lambda: (a, hc))

    rc = same(lambda x: x.default_route, "default_route") + same(lambda x: x.routes, "routes")
    for o in others + ["unknown_agent", a.name]:
        rc += same(lambda x: x.route(o), "route(%s)" % o)
    prove1(env, "wire.agentdef.route-costs-kept", not rc, detail=lambda: (a, rc))

    diffs = deep_diff(a, b)
    prove1(env, "wire.agentdef.same-fields-deep", not diffs, detail=lambda: (a, diffs))


Contract(
    "wire.agentdef_pickle", ["C15"],
    ["pydcop.dcop.objects:AgentDef.__getstate__", "pydcop.dcop.objects:AgentDef.__setstate__", "pydcop.dcop.objects:AgentDef.route",
     "pydcop.dcop.objects:AgentDef.hosting_cost", "pydcop.dcop.objects:AgentDef.extra_attr"],
    h_agentdef, lambda tier: [dict()], mode="E", must_cover=["post"],
    budget=dict(all_failures=True),
    trusted=["multiprocessing hands Process arguments to a spawned child with pickle.dumps/pickle.loads"],
    desc="AgentDef (constructor, defaults, yaml-loaded) with arbitrary routes, hosting costs and extra attributes keeps name, "
         "attributes, hosting costs and route costs (default_route, routes, route(other)) through pickle, every protocol",
)
