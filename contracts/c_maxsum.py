"""Max-Sum / A-Max-Sum: C05 (exact on acyclic factor graphs, damping 0, noise 0), C08 (rounds), C10.

Function contracts (symbolic, B-mode) on the three message functions: they are the
exact min-/max-marginal updates.  Composite (E-mode, concrete seeded integer tables
with a unique optimum): the real computations on the real factor graph converge to
that optimum.  Convergence for ALL cost tables is a limit statement with no per-call
contract: decided only on the enumerated instances (stated in the level note)."""
import itertools
import random as _pyrandom

from pvc.contract import Contract
from pvc.explore import Raised
from pvc.sym import And, Or, Not, Implies, eq, lt, le, is_sym, smin, smax, ssum, close
from . import fx
from .net import Net, build_dcop, global_cost, HandlerRaised, warm_up


def _opt(mode, xs):
    return smin(xs) if mode == "min" else smax(xs)


# ---------------------------------------------------------------- factor -> variable marginals

def h_factor_costs(env):
    from pydcop.algorithms import maxsum as M
    from pydcop.dcop.objects import Variable
    p = env.params
    mode = env.choice("mode", ["min", "max"])
    vs = [Variable(n, fx.domain("d" + n, d)) for n, d in p["vars"]]
    factor, tab = fx.table_relation(env, "f", vs)
    target = vs[p["target"]]
    recv = {}
    for v in vs:
        if v is target:
            continue
        have = env.choice("recv_" + v.name, p.get("recv_kinds", ["full", "none"]))
        if have == "full":
            recv[v.name] = {d: env.real("q_%s[%s]" % (v.name, d)) for d in v.domain}
        elif have == "partial":
            recv[v.name] = {d: env.real("q_%s[%s]" % (v.name, d)) for d in list(v.domain)[:1]}
    recv_in = {k: dict(v) for k, v in recv.items()}
    r = env.call(M.factor_costs_for_var, factor, target, recv, mode)
    if isinstance(r, Raised):
        env.prove("factor_costs_for_var.no-raise", False, detail=lambda: r.tb)
        return
    env.cover("post")
    env.prove("factor_costs_for_var.one-entry-per-domain-value", isinstance(r, dict) and list(r.keys()) == list(target.domain), detail=lambda: r)
    if not (isinstance(r, dict) and set(r.keys()) == set(target.domain)):
        return
    others = [v for v in vs if v is not target]
    for d in target.domain:
        cands = []
        for a in fx.assignments(others):
            full = dict(a)
            full[target.name] = d
            cands.append(tab(**full) + ssum([recv.get(v.name, {}).get(a[v.name], 0) for v in others]))
        env.prove("factor_costs_for_var.entry-is-the-marginal-optimum-over-the-other-variables",
                  eq(r[d], _opt(mode, cands)), detail=lambda: dict(d=d, got=r[d], mode=mode))
    env.prove("factor_costs_for_var.frame-received-costs-untouched", recv.keys() == recv_in.keys())


Contract(
    "maxsum.factor_costs_for_var", ["C05"], ["pydcop.algorithms.maxsum:factor_costs_for_var"],
    h_factor_costs,
    lambda tier: [dict(vars=[("x", [10, 0])], target=0), dict(vars=[("x", [10, 0]), ("y", ["a", "b"])], target=1),
                  dict(vars=[("x", [10, 0]), ("y", ["a", "b"])], target=0, recv_kinds=["full", "partial"])]
    + ([dict(vars=[("x", [10, 0, 5]), ("y", ["a", "b"])], target=0), dict(vars=[("x", [10, 0]), ("y", ["a", "b"]), ("z", [7, 3])], target=1)] if tier == "thorough" else []),
    mode="B", must_cover=["post"],
    desc="for every value d of the target variable: opt over the other variables of factor + received costs (missing entries count 0)",
)


# ---------------------------------------------------------------- variable -> factor messages

def h_costs_for_factor(env):
    from pydcop.algorithms import maxsum as M
    p = env.params
    vkind = env.choice("vkind", ["plain", "func"])
    x, xcost = fx.make_variable(env, "x", fx.domain("d", p["domain"]), vkind)
    factors = p["factors"]
    target = factors[p["target"]]
    costs = {}
    for f in factors:
        have = env.choice("have_" + f, p.get("have", ["full", "none"]))
        if have == "full":
            costs[f] = {d: env.real("r_%s[%s]" % (f, d)) for d in x.domain}
    r = env.call(M.costs_for_factor, x, target, list(factors), costs)
    if isinstance(r, Raised):
        env.prove("costs_for_factor.no-raise", False, detail=lambda: r.tb)
        return
    env.cover("post")
    env.prove("costs_for_factor.one-entry-per-domain-value", isinstance(r, dict) and set(r.keys()) == set(x.domain), detail=lambda: r)
    if not (isinstance(r, dict) and set(r.keys()) == set(x.domain)):
        return
    base = {d: xcost(d) + ssum([costs[f][d] for f in factors if f != target and f in costs]) for d in x.domain}
    d0 = list(x.domain)[0]
    for d in x.domain:
        # exact up to the (value independent) normalisation constant
        env.prove("costs_for_factor.message-is-own-cost-plus-costs-of-the-other-factors-up-to-a-constant",
                  close(r[d] - r[d0], base[d] - base[d0], 1e-9, 1e-6), detail=lambda: dict(d=d, msg=r, base=base))


Contract(
    "maxsum.costs_for_factor", ["C05"], ["pydcop.algorithms.maxsum:costs_for_factor"],
    h_costs_for_factor,
    lambda tier: [dict(domain=[10, 0], factors=["f", "g"], target=0), dict(domain=[10, 0, 5], factors=["f", "g", "h"], target=1),
                  dict(domain=[10, 0], factors=["f"], target=0)],
    mode="B", must_cover=["post"], budget=dict(sample_max_mag=2 ** 20),
    assumptions=["costs_for_factor divides by the domain size: the sampled native pass uses magnitudes <= 2**20 and a 1e-6 tolerance (float rounding is not a property violation); the symbolic pass is exact"],
    desc="msg[d] = own_cost(d) + sum of the costs received from the OTHER factors, up to a constant shift",
)


# ---------------------------------------------------------------- value selection

def h_select_value(env):
    from pydcop.algorithms import maxsum as M
    p = env.params
    mode = env.choice("mode", ["min", "max"])
    vkind = env.choice("vkind", ["plain", "dict"])
    x, xcost = fx.make_variable(env, "x", fx.domain("d", p["domain"]), vkind)
    costs = {f: {d: env.real("r_%s[%s]" % (f, d)) for d in x.domain} for f in p["factors"]}
    r = env.call(M.select_value, x, costs, mode)
    if isinstance(r, Raised):
        env.prove("select_value.no-raise", False, detail=lambda: r.tb)
        return
    env.cover("post")
    val, c = r
    ok = (not is_sym(val)) and val in list(x.domain)
    env.prove("select_value.C10.value-in-domain", ok, detail=lambda: r)
    env.prove("select_value.value-in-domain", ok, detail=lambda: r)
    if not ok:
        return
    tot = {d: xcost(d) + ssum([costs[f][d] for f in p["factors"]]) for d in x.domain}
    opt = _opt(mode, list(tot.values()))
    env.prove("select_value.value-optimises-own-cost-plus-all-factor-costs", eq(tot[val], opt), detail=lambda: (r, tot))
    env.prove("select_value.returned-cost-is-that-optimum", eq(c, opt), detail=lambda: (r, tot))


Contract(
    "maxsum.select_value", ["C05", "C10"], ["pydcop.algorithms.maxsum:select_value"],
    h_select_value,
    lambda tier: [dict(domain=[10, 0], factors=[]), dict(domain=[10, 0, 5], factors=["f"]), dict(domain=[10, 0], factors=["f", "g"])],
    mode="B", must_cover=["post"],
    desc="selected value is an argopt of own cost + all received factor costs, returned with that cost",
)


def h_damping(env):
    from pydcop.algorithms import maxsum as M
    dom = [10, 0, 5]
    c = {d: env.real("c[%s]" % d) for d in dom}
    prevk = env.choice("prev", ["none", "some"])
    prev = None if prevk == "none" else {d: env.real("p[%s]" % d) for d in dom}
    r = env.call(M.apply_damping, c, prev, 0)
    if isinstance(r, Raised):
        env.prove("apply_damping.no-raise", False, detail=lambda: r.tb)
        return
    env.cover("post")
    env.prove("apply_damping.damping-0-is-the-identity", And(*[eq(r[d], c[d]) for d in dom]) if set(r) == set(dom) else False, detail=lambda: r)
    lam = env.real("lambda", 0, 1)
    r2 = env.call(M.apply_damping, c, prev, lam)
    if prev is not None and not isinstance(r2, Raised):
        env.prove("apply_damping.is-the-convex-combination", And(*[eq(r2[d], lam * prev[d] + (1 - lam) * c[d]) for d in dom]), detail=lambda: r2)


Contract("maxsum.apply_damping", ["C05"], ["pydcop.algorithms.maxsum:apply_damping"], h_damping, lambda tier: [dict()], mode="B",
         must_cover=["post"], budget=dict(no_sampling=True), desc="damping 0 leaves messages unchanged; damping l is l*prev + (1-l)*new")


# ---------------------------------------------------------------- composite: convergence to the unique optimum on trees

TREES = {
    "chain2": dict(vars={"x1": [10, 0], "x2": ["a", "b"]}, cons=[["x1", "x2"]]),
    "chain3": dict(vars={"x1": [10, 0], "x2": ["a", "b"], "x3": [7, 3, 0]}, cons=[["x1", "x2"], ["x2", "x3"]]),
    "chain3_unary": dict(vars={"x1": ([10, 0], "dict"), "x2": ["a", "b"], "x3": [7, 3]}, cons=[["x1", "x2"], ["x2", "x3"], ["x2"]]),
    "star_nary": dict(vars={"x1": [10, 0], "x2": ["a", "b"], "x3": [7, 3], "x4": ["u", "v"]}, cons=[["x1", "x2", "x3"], ["x3", "x4"]]),
    "forest": dict(vars={"x1": [10, 0], "x2": ["a", "b"], "x3": ([7, 3, 0], "dict"), "x4": ["u", "v"]}, cons=[["x1", "x2"], ["x3", "x4"]]),
}


def _hub_cells(informative):
    """hub h with leaves y1..y6: all factors but one are 'colouring' constraints whose marginal on h is flat; only
    factor number ``informative`` tells h which value is best (unique optimum)"""
    def cells(k, vals, mode):
        h, y = vals
        same = (h == y)
        if k == informative:
            if mode == "min":
                return (3 if h == 0 else 0) + (1 if y == 10 else 0)
            return (3 if h == 10 else 0) + (1 if y == 0 else 0)
        return (5 if same else 0) if mode == "min" else (0 if same else 5)
    return cells


TREES["hub6"] = dict(vars=dict([("h", [10, 0])] + [("y%d" % i, [10, 0]) for i in range(1, 7)]),
                     cons=[["h", "y%d" % i] for i in range(1, 7)], cells=_hub_cells(4))


def h_tree(env):
    p = env.params
    algo = p["algo"]
    seed = p["inst_seed"]
    if p["spec"].startswith("randtree"):
        # a random tree / forest of n variables (+ unary factors): deeper and wider than the named shapes
        spec = fx.random_spec(seed, int(p["spec"][8:]), tree=True, connected=p.get("connected", True), max_dom=p.get("max_dom", 3))
    else:
        spec = TREES[p["spec"]]
    mode = env.choice("mode", ["min", "max"])
    rng = _pyrandom.Random(seed * 1009 + p.get("_seed", 0))
    pool = p.get("pool", list(range(0, 12)))

    def cell(env_, name):
        if "cells" in spec:   # structured instance: the cell value is a function of (constraint index, values)
            k = int(name[1:name.index("[")])
            raw = name[name.index("[") + 1:-1].split(",")
            doms = [spec["vars"][v] if not isinstance(spec["vars"][v], tuple) else spec["vars"][v][0] for v in spec["cons"][k]]
            vals = [next(d for d in dom if str(d) == r) for dom, r in zip(doms, raw)]
            return spec["cells"](k, vals, mode)
        return rng.choice(pool)
    spec2 = {k_: v_ for k_, v_ in spec.items() if k_ != "cells"}
    spec2["cell_maker"] = cell
    import pydcop.dcop.relations as R
    # concrete instance: integer tables drawn from the seeded pool; variable costs too
    class _E:  # minimal env for build_dcop: concrete numbers only
        symbolic = False

        def ext_real(self, name, kinds=None, lo=None, hi=None):
            return rng.choice(pool)
    variables, cons, tabs, varcost = build_dcop(_E(), spec2)
    allv = [variables[n] for n in variables]
    # force evaluation of every cell now (deterministic order), then look for a unique optimum
    scored = []
    for a in fx.assignments(allv):
        scored.append((global_cost(a, tabs, varcost, variables), a))
    best = min(s[0] for s in scored) if mode == "min" else max(s[0] for s in scored)
    winners = [a for c, a in scored if c == best]
    if len(winners) != 1:
        env.assume(False)   # the property is about instances with a unique optimum
    ap = dict(damping=0, noise=0)
    ap.update(p.get("algo_params", {}))
    if p.get("warm_up"):
        warm_up(env, algo, mode, {k_: v_ for k_, v_ in spec.items() if k_ in ("vars", "cons")}, ap, max_steps=400)
    try:
        net = Net(env, algo, mode, variables, cons, ap, patch_random=False)
    except Exception:  # noqa
        import traceback
        tb = traceback.format_exc(limit=8)
        env.prove("%s.C05.computations-can-be-built" % algo, False, detail=lambda: tb)
        return
    order = list(net.comps)
    srng = _pyrandom.Random(p.get("sched_seed", 0))
    if p.get("start_order") == "rev":
        order.reverse()
    elif p.get("start_order") == "shuffle":
        srng.shuffle(order)
    policy = p.get("policy", "fifo")
    try:
        for n in order:
            net.start(n)
            if p.get("interleave_start"):
                net.run(policy, max_steps=1, rng=srng)
        if policy == "lifo" and algo == "maxsum":
            policy = "rr"   # the synchronous version never quiesces: only fair schedules make sense
        if p.get("pause_resume_after") is not None:
            # the hosting agent pauses every computation in the middle of the run and resumes them (management operation)
            net.run(policy, max_steps=p["pause_resume_after"], rng=srng)
            for c in net.comps.values():
                c.pause(True)
            for c in net.comps.values():
                c.pause(False)
        steps = net.run(policy, max_steps=p.get("max_steps", 1500 if algo == "maxsum" else 4000), rng=srng)
    except HandlerRaised as e:
        env.prove("%s.C08.no-cycle-error-or-handler-exception" % algo, False, detail=lambda: "%s\n%s" % (e, e.tb))
        return
    env.cover("ran")
    env.prove("%s.C08.no-cycle-error-or-handler-exception" % algo, True)
    vals = {n: net.comps[n].current_value for n in variables}
    env.prove("%s.C10.selected-values-in-domain" % algo,
              all(v is None or v in list(variables[n].domain) for n, v, _, _ in net.value_events), detail=lambda: net.value_events[-6:])
    env.prove("%s.C05.selected-assignment-is-the-unique-optimum" % algo, vals == winners[0],
              detail=lambda: dict(selected=vals, optimum=winners[0], best=best, mode=mode, deliveries=steps, pending=net.pending(), inst_seed=seed))


def _tree_shapes(algo):
    def f(tier, prop=None):
        q = []
        n_inst = 6 if tier == "quick" else 40
        for spec in (["chain2", "chain3", "chain3_unary", "star_nary", "forest"]):
            for i in range(n_inst):
                d = dict(algo=algo, spec=spec, inst_seed=i)
                if i % 3 == 1:
                    d.update(start_order="rev", policy="lifo", interleave_start=True)
                if i % 3 == 2:
                    d.update(start_order="shuffle", policy="random", sched_seed=i)
                if i % 4 == 3:
                    d["algo_params"] = dict(start_messages="all")
                if i % 5 == 4:
                    d["algo_params"] = dict(start_messages="leafs_vars")
                q.append(d)
        for i in range(8 if tier == "quick" else 60):
            d = dict(algo=algo, spec="randtree%d" % (5 + i % 4), inst_seed=200 + i, connected=bool(i % 3), pool=list(range(0, 40)))
            if i % 2:
                d.update(start_order="shuffle", policy="random", sched_seed=i)
            if i % 4 == 2:
                d["algo_params"] = dict(start_messages=("all", "leafs_vars")[(i // 4) % 2])
            q.append(d)
        q.append(dict(algo=algo, spec="chain3_unary", inst_seed=300, warm_up=True))
        q.append(dict(algo=algo, spec="star_nary", inst_seed=301, warm_up=True, policy="random", sched_seed=3))
        if algo == "amaxsum":
            for i, spec in enumerate(["chain3", "star_nary", "forest", "chain3_unary"]):
                q.append(dict(algo=algo, spec=spec, inst_seed=100 + i, pause_resume_after=2 + i))
            # a hub whose informative factor speaks last / first / at random
            for i, pol in enumerate(["starve:c4", "favor:c4", "random", "random", "random", "fifo"] + (["random"] * 12 if tier == "thorough" else [])):
                q.append(dict(algo=algo, spec="hub6", inst_seed=0, policy=pol, sched_seed=i, start_order="shuffle" if i % 2 else "fwd"))
        if prop in ("C10", "C08") and tier == "quick":
            return q[::5] + [d for d in q if d.get("pause_resume_after") is not None][:2]
        return q
    return f


for _algo in ("maxsum", "amaxsum"):
    Contract(
        "%s.tree" % _algo, ["C05", "C10"] + (["C08"] if _algo == "maxsum" else []),
        ["pydcop.algorithms.%s:MaxSumFactorComputation.on_start" % _algo, "pydcop.algorithms.%s:MaxSumVariableComputation.on_start" % _algo]
        + (["pydcop.algorithms.maxsum:MaxSumFactorComputation.on_new_cycle", "pydcop.algorithms.maxsum:MaxSumVariableComputation.on_new_cycle",
            "pydcop.infrastructure.computations:SynchronousComputationMixin._sync_message_handler",
            "pydcop.infrastructure.computations:SynchronousComputationMixin._switch_cycle"] if _algo == "maxsum" else
           ["pydcop.algorithms.amaxsum:MaxSumFactorComputation._on_maxsum_msg", "pydcop.algorithms.amaxsum:MaxSumVariableComputation._on_maxsum_msg"])
        + ["pydcop.algorithms.maxsum:approx_match", "pydcop.computations_graph.factor_graph:build_computation_graph"],
        h_tree, _tree_shapes(_algo), mode="E", must_cover=["ran"],
        trusted=["router: per-channel FIFO delivery, one computation per agent"],
        assumptions=["Max-Sum convergence is decided on enumerated instances only: seeded integer cost tables (values 0..11) with a unique optimum on 5 tree/forest shapes; "
                     "no contract quantifies over all cost tables for the limit behaviour (stability cut-off approx_match / SAME_COUNT)"],
        budget=dict(quick=dict(max_paths=50, timeout_s=120), thorough=dict(max_paths=50, timeout_s=600)),
        desc="real %s computations on the real factor graph, damping 0 / noise 0, run to quiescence: selected assignment == unique optimum" % _algo,
    )


# ---------------------------------------------------------------- stability cut-off

def h_approx_match(env):
    """approx_match(costs, prev, coef): the cut-off may only declare two cost tables 'the same' when every
    entry is equal or within the relative tolerance; a table that differs by more (including an exact sign
    flip, where the relative difference is unbounded) must be sent again, otherwise exactness on trees is lost"""
    from pydcop.algorithms import maxsum as M
    p = env.params
    dom = p["domain"]
    coef = p.get("coef", 0.1)
    c = {d: env.real("c[%s]" % d) for d in dom}
    prevk = env.choice("prev", ["none", "some"])
    prev = None if prevk == "none" else {d: env.real("p[%s]" % d) for d in dom}
    r = env.call(M.approx_match, c, prev, coef)
    if isinstance(r, Raised):
        env.prove("approx_match.no-raise", False, detail=lambda: r.tb)
        return
    env.cover("post")
    if prev is None:
        env.prove("approx_match.nothing-matches-when-no-previous-message", r is False or r == False, detail=lambda: r)  # noqa
        return
    from pvc.sym import ite
    conds = []
    for d in dom:
        s_ = prev[d] + c[d]
        dl = prev[d] - c[d]
        adl = ite(lt(dl, 0), -dl, dl)
        as_ = ite(lt(s_, 0), -s_, s_)
        conds.append(Or(eq(prev[d], c[d]), And(Not(eq(s_, 0)), lt(2 * adl, coef * as_))))
    exp = And(*conds)
    got = r if isinstance(r, bool) else r
    env.prove("approx_match.true-exactly-when-every-entry-is-equal-or-within-the-relative-tolerance",
              exp == got if isinstance(exp, bool) and isinstance(got, bool) else _iff(exp, got), detail=lambda: dict(costs=c, prev=prev, returned=r))


def _iff(a, b):
    from pvc.sym import Iff
    return Iff(a, b)


Contract("maxsum.approx_match", ["C05"], ["pydcop.algorithms.maxsum:approx_match"], h_approx_match,
         lambda tier: [dict(domain=[10, 0]), dict(domain=[10, 0, 5], coef=0.1)] + ([dict(domain=[10, 0], coef=0.5)] if tier == "thorough" else []),
         mode="B", must_cover=["post"], budget=dict(sample_max_mag=2 ** 20),
         desc="the stability cut-off declares a match exactly when all entries are equal or relatively close (never on an exact sign flip)")
