"""C11 - relations evaluate and slice consistently with their definition.

Every relation kind of pydcop.dcop.relations (matrix, python function, expression,
unary function, unary boolean, zero-ary, neutral, conditional) is built from real
pyDcop objects over <= 4 small-domain variables and checked against its *definition*
(the table / python function / expression / condition it was built from):

* eval  : keyword arguments, positional arguments in ``dimensions`` order, an
          assignment dict (and the list form of ``get_value_for_assignment``) all give
          the defined value on every full assignment;
* slice : for every partial assignment, given in one step or cut into several steps
          (every ordered partition of the sliced variables, both key orders inside a
          step, with and without empty steps), ``slice`` yields a relation whose
          scope is exactly the remaining variables and whose value on every completion
          is the defined value of the original.

In-process contracts (mode B): cost cells are symbolic reals.  The hash-seed part of
the quantifier: ``relkinds.under-hash-seeds`` re-executes the same harnesses (and the
expression-string harness, which exists only there because ``ExpressionFunction``
keeps its variables in a ``set``) concretely in a subprocess per ``PYTHONHASHSEED``
value; the parent turns the enumerated cases of the subprocess into its paths (in chunks,
so that a job stays below the engine's slice size) and replays a failing chunk in a fresh
subprocess under the same seed.

Labels: ``<kind>[<how built>].<eval|slice-in-one-step|slice-in-several-steps>.<what>[<variant>]``.
Variants that isolate the regions where the unchanged tree is known to fail carry a tag
(``[list-order-differs-from-argument-order]``, ``[shared-variables]``, ``[return_neutral]``,
``[ignore_extra_vars]``).  A label is witnessed at most once per process (``_prove``).
"""
import functools
import hashlib
import itertools
import json
import os
import subprocess
import sys
import time

from pvc.explore import Raised
from pvc.sym import And, eq, PathAbort, SymNum
from . import fx


# ------------------------------------------------------------------ small helpers

_FAILED = set()      # labels already witnessed failing in this process (one witness each)


def _prove(env, label, cond, detail=None):
    if label in _FAILED:
        return True
    ok = env.prove(label, cond, detail)
    if ok is False:
        _FAILED.add(label)
    return ok


def _names(vs):
    return [v.name for v in vs]


def _same(got, exp):
    if isinstance(got, Raised):
        return False
    try:
        import numpy as _np
        if isinstance(got, _np.ndarray) and got.shape == ():
            got = got.item()
    except ImportError:  # pragma: no cover
        pass
    if isinstance(got, SymNum) and isinstance(exp, SymNum) and got.t.eq(exp.t):
        return True      # the very same term: no solver needed
    return eq(got, exp)


# ------------------------------------------------------------------ frame (aliasing) helpers
#
# What a caller can observe of the objects it hands to the functions under contract: the
# items of a dict (keys in order, values by identity), the members of a list (by identity),
# the dimension names of a relation and its value on every assignment.  No private
# attribute is looked at (a property-preserving change may memoise).

def _items(d):
    return list(d.items()) if isinstance(d, dict) else list(d)


def _unchanged(before, now):
    """the dict / list ``now`` still has exactly the items recorded in ``before``"""
    now = _items(now)
    if len(before) != len(now):
        return False
    for b, n in zip(before, now):
        if isinstance(b, tuple) and isinstance(n, tuple) and len(b) == 2 and len(n) == 2:
            if b[0] != n[0] or b[1] is not n[1]:
                return False
        elif b is not n:
            return False
    return True


def _dim_names(env, rel):
    d = env.call(lambda: [v.name for v in rel.dimensions])
    return d if not isinstance(d, Raised) else "raised: %r" % (d.exc,)


def _frame_sweep(env, label, rel, scope, oracle, names_before, sfx="", same=None):
    """after the calls of this path: the relation the caller handed in still has the scope
    it had and still gives the defined value on every full assignment"""
    now = _dim_names(env, rel)
    ok = now == names_before
    _prove(env, label + ".dimensions-unchanged" + sfx, ok, detail=lambda: dict(before=names_before, now=now))
    if not ok:
        return
    for a in fx.assignments(scope):
        exp = oracle(a)
        got = env.call(lambda: rel(**a))
        _prove(env, label + ".values-unchanged" + sfx, (same or _same)(got, exp),
               detail=lambda: dict(assignment=a, got=got, defined=exp, tb=getattr(got, "tb", None)))


def _frame_variable_list(env, tag, rel, given, before, sfx=""):
    """the list of variables given to the constructor is not modified, and the relation does
    not keep it: a caller that goes on using its list (here: appends a variable, as for a
    second, wider relation) does not change the scope of the relation already built"""
    if getattr(env, "dry", False):
        return
    from pydcop.dcop.objects import Variable
    _prove(env, "%s.frame.variable-list-unchanged%s" % (tag, sfx), _unchanged(before, given),
           detail=lambda: dict(before=_names(before), now=_names(given)))
    names = _dim_names(env, rel)
    given.append(Variable("later", fx.domain("d_later", [4, 0])))
    now = _dim_names(env, rel)
    _prove(env, "%s.frame.scope-independent-of-the-variable-list-given%s" % (tag, sfx), now == names,
           detail=lambda: dict(before=names, after_caller_appended_to_its_own_list=now))


# names are not in sorted order; no domain value is its own index; every domain holds a falsy value
_POOL = [("q", [10, 0, 5]), ("b", ["n", "", "k"]), ("m", [1, 0, 2]), ("a", [7, 0, 3])]
_FOREIGN = {"zz": 99, "a0": "k"}     # variables that are not in any scope (ignore_extra_vars)


def _doms(env, p):
    """domain sizes of this run: fixed by the shape, or one of the shape's list (enumerated)"""
    if "doms_any" in p:
        return env.choice("domain-sizes", p["doms_any"])
    return p["doms"]


def _mk_vars(doms, pool=_POOL):
    from pydcop.dcop.objects import Variable
    return [Variable(pool[i][0], fx.domain("d_" + pool[i][0], pool[i][1][:s])) for i, s in enumerate(doms)]


def _ordered_partitions(items):
    """every ordered set partition (list of non-empty blocks) of ``items``"""
    if not items:
        yield []
        return
    first, rest = items[0], items[1:]
    for part in _ordered_partitions(rest):
        for i in range(len(part)):
            yield part[:i] + [[first] + part[i]] + part[i + 1:]
        for i in range(len(part) + 1):
            yield part[:i] + [[first]] + part[i:]


def _chains(names, steps, key_orders="both"):
    """slicing sequences: a chain is a list of steps, a step the list of variable names
    given (in that key order) to one ``slice`` call.
    steps='one'    : every subset (the empty and the full one included) in one call
    steps='several': every ordered partition of every subset into >= 2 calls, both key
                     orders inside a call, plus chains with an empty call in them"""
    names = list(names)
    out = []
    for k in range(0, len(names) + 1):
        for sub in itertools.combinations(names, k):
            if steps == "one":
                if k == 0:
                    out.append([[]])
                elif key_orders == "all":
                    out += [[list(o)] for o in itertools.permutations(sub)]
                else:
                    out.append([list(sub)])
                    if k > 1:
                        out.append([list(reversed(sub))])
                continue
            if k == 0:
                out.append([[], []])
                continue
            for part in _ordered_partitions(list(sub)):
                if len(part) == 1:
                    out.append([[], part[0]])
                    out.append([part[0], []])
                    continue
                out.append(part)
                rev = [list(reversed(b)) for b in part]
                if rev != part:
                    out.append(rev)
                if len(part) == 2:
                    out.append([part[0], [], part[1]])
    return out


def _with_extras(chains):
    """one-step chains whose dict also names one or two variables outside the scope,
    at every position (NAryMatrixRelation.slice(..., ignore_extra_vars=True))"""
    out = []
    for ch in chains:
        keys = ch[0]
        for extras in (["zz"], ["zz", "a0"], ["a0", "zz"]):
            n = len(keys) + len(extras)
            for pos in itertools.combinations(range(n), len(extras)):
                step, ki, ei = [], 0, 0
                for i in range(n):
                    if i in pos:
                        step.append(extras[ei])
                        ei += 1
                    else:
                        step.append(keys[ki])
                        ki += 1
                out.append([step])
    return out


# ------------------------------------------------------------------ the two checks

def _check_eval(env, tag, rel, scope, oracle, sfx=""):
    """the three (four) evaluation forms give the defined value on every full assignment"""
    dims = env.call(lambda: list(rel.dimensions))
    ok = (not isinstance(dims, Raised)) and sorted(_names(dims)) == sorted(_names(scope))
    _prove(env, "%s.eval.scope-is-the-declared-variables%s" % (tag, sfx), ok,
           detail=lambda: dict(dimensions=dims, declared=_names(scope)))
    if not ok:
        return
    names_before = _names(dims)
    for a in fx.assignments(dims):
        exp = oracle(a)
        pos = [a[v.name] for v in dims]
        d_arg, l_arg = dict(a), list(pos)      # the caller's own dict / list (FRAME: observed after the call)
        d_before, l_before = _items(d_arg), _items(l_arg)
        forms = [("keyword", lambda: rel(**a)), ("positional", lambda: rel(*pos)),
                 ("dict", lambda: rel.get_value_for_assignment(d_arg)),
                 ("list", lambda: rel.get_value_for_assignment(l_arg))]
        for fname, thunk in forms:
            got = env.call(thunk)
            _prove(env, "%s.eval.%s-form-gives-the-defined-value%s" % (tag, fname, sfx), _same(got, exp),
                   detail=lambda: dict(assignment=a, dimensions=_names(dims), got=got, defined=exp,
                                       tb=getattr(got, "tb", None)))
        _prove(env, "%s.frame.eval.assignment-dict-unchanged%s" % (tag, sfx), _unchanged(d_before, d_arg),
               detail=lambda: dict(before=d_before, now=_items(d_arg)))
        _prove(env, "%s.frame.eval.assignment-list-unchanged%s" % (tag, sfx), _unchanged(l_before, l_arg),
               detail=lambda: dict(before=l_before, now=_items(l_arg)))
    # FRAME: evaluating does not change the relation (second pass over every assignment)
    _frame_sweep(env, "%s.frame.eval.relation" % tag, rel, dims, oracle, names_before, sfx)


def _check_chain(env, tag, rel, scope, oracle, chain, sfx="", slice_kw=None, zeroed_ok=None):
    """slice along ``chain`` for every value of the sliced variables; the result is over
    exactly the remaining variables and gives the defined value on every completion.

    FRAME (labels ``<kind>.frame.slice.*``): the dict given to each ``slice`` call is not
    modified; the relations sliced (the original and every intermediate result) keep their
    scope; the same dict used for a second ``slice`` of the original gives the same relation
    again; modifying the result (``set_value_for_assignment``, where the kind of the result
    has it) changes neither the result (documented: "returns a new relation ... DOES NOT
    modify the current relation") nor the original; after all of this the original still
    gives the defined value on every full assignment."""
    calls = [b for b in chain]
    lab = "%s.%s" % (tag, "slice-in-one-step" if len(calls) == 1 else "slice-in-several-steps")
    flab = "%s.frame.slice" % tag
    byname = {v.name: v for v in scope}
    sliced = [n for blk in chain for n in blk if n in byname]
    rest = [v for v in scope if v.name not in sliced]
    names_before = _dim_names(env, rel)
    all_vals = list(itertools.product(*[list(byname[n].domain) for n in sliced]))
    for vi, vals in enumerate(all_vals):
        p = dict(zip(sliced, vals))
        cur = rel
        failed = None
        done = {}
        zeroed = False
        taken = []       # (relation sliced, its dimension names before, the dict given, the result)
        for blk in calls:
            step = {n: (p[n] if n in byname else _FOREIGN[n]) for n in blk}
            step_before = _items(step)
            src, src_names = cur, (names_before if cur is rel else _dim_names(env, cur))
            nxt = env.call(cur.slice, step, **(slice_kw or {}))
            _prove(env, flab + ".partial-assignment-unchanged" + sfx, _unchanged(step_before, step),
                   detail=lambda: dict(chain=chain, given=step_before, now=_items(step)))
            if isinstance(nxt, Raised):
                failed = (step, nxt)
                break
            cur = nxt
            taken.append((src, src_names, step, nxt))
            done.update({n: p[n] for n in blk if n in byname})
            if zeroed_ok and zeroed_ok(done) and list(cur.dimensions) == []:
                zeroed = True      # documented constant-0 result: there is nothing left to slice
                break
        _prove(env, lab + ".no-exception" + sfx, failed is None,
               detail=lambda: dict(chain=chain, values=p, step=failed[0], raised=repr(failed[1]), tb=failed[1].tb))
        if failed is not None:
            continue
        dims = env.call(lambda: list(cur.dimensions))
        zeroed = zeroed or bool(zeroed_ok and zeroed_ok(p) and dims == [])
        ok = (not isinstance(dims, Raised)) and (zeroed or sorted(_names(dims)) == sorted(_names(rest)))
        _prove(env, lab + ".scope-is-exactly-the-remaining-variables" + sfx, ok,
               detail=lambda: dict(chain=chain, values=p, result=repr(cur), result_dimensions=dims, remaining=_names(rest)))
        if not ok:
            continue
        for c in fx.assignments(rest):
            full = dict(p)
            full.update(c)
            exp = oracle(full)
            cc = {} if zeroed else c
            got = env.call(lambda: cur(**cc))
            _prove(env, lab + ".agrees-with-the-original-on-every-completion" + sfx, _same(got, exp),
                   detail=lambda: dict(chain=chain, values=p, completion=c, got=got, defined=exp, result=repr(cur),
                                       tb=getattr(got, "tb", None)))
            pos = env.call(lambda: cur(*[cc[v.name] for v in dims]))
            dct = env.call(lambda: cur.get_value_for_assignment(dict(cc)))
            _prove(env, lab + ".result-positional-and-dict-forms-agree" + sfx, And(_same(pos, exp), _same(dct, exp)),
                   detail=lambda: dict(chain=chain, values=p, completion=c, positional=pos, dict_form=dct, defined=exp,
                                       result=repr(cur)))
        # ---- FRAME, per value of the sliced variables
        # every relation that was sliced still has the scope it had
        for src, src_names, step, _res in taken:
            now = _dim_names(env, src)
            _prove(env, flab + ".sliced-relation-keeps-its-dimensions" + sfx, now == src_names,
                   detail=lambda: dict(chain=chain, values=p, step=step, before=src_names, now=now))
        if vi < len(all_vals) - 1:
            continue     # (the two checks below: once per chain, for the last value of the sliced variables)
        c0 = next(iter(fx.assignments(rest)))
        full0 = dict(p)
        full0.update(c0)
        # the result can be modified (through the API) without changing itself or the original
        if type(cur).__name__ in ("NAryMatrixRelation", "ZeroAryRelation") and not isinstance(dims, Raised):
            cc0 = {} if zeroed else c0
            mod = env.call(cur.set_value_for_assignment, dict(cc0), -12345)
            if not isinstance(mod, Raised):      # (what it returns is C12's business)
                got = env.call(lambda: cur(**cc0))
                _prove(env, flab + ".result-unchanged-by-set_value_for_assignment" + sfx, _same(got, oracle(full0)),
                       detail=lambda: dict(chain=chain, values=p, completion=c0, got=got, defined=oracle(full0)))
        # the caller uses its first dict again on the original: same relation as the first time
        if taken:
            src, _n, step0, res0 = taken[0]
            again = env.call(rel.slice, step0, **(slice_kw or {}))
            left = [v for v in scope if v.name not in step0]
            a0 = {v.name: full0[v.name] for v in left}
            if not isinstance(again, Raised):
                adims = _dim_names(env, again)
                if zeroed_ok and adims == [] and zeroed_ok({n: p[n] for n in step0 if n in byname}):
                    a0 = {}
                got = env.call(lambda: again(**a0))
            else:
                adims, got = None, again
            _prove(env, flab + ".second-use-of-the-same-dict-gives-the-same-relation" + sfx,
                   And(adims == _dim_names(env, res0), _same(got, oracle(full0))),
                   detail=lambda: dict(chain=chain, values=p, step=step0, first_result_dimensions=_dim_names(env, res0),
                                       second_result_dimensions=adims, at=a0, got=got, defined=oracle(full0),
                                       tb=getattr(got, "tb", None)))
    # ---- FRAME, after every slice of this path: the original is what it was
    _frame_sweep(env, flab + ".original", rel, scope, oracle, names_before, sfx)


def _run_case(env, tag, rel, scope, oracle, steps, sfx="", key_orders="both", **kw):
    names = _names(scope)
    cases = (["eval"] if steps == "one" else []) + _chains(names, steps, key_orders)
    case = env.choice("case", cases)
    env.cover("post")
    if getattr(env, "dry", False):
        return       # subprocess replay: only the requested case is executed
    if case == "eval":
        _check_eval(env, tag, rel, scope, oracle, sfx)
    else:
        _check_chain(env, tag, rel, scope, oracle, case, sfx, **kw)


def _build(env, tag, make):
    """construct the relation under contract; an exception of the constructor is a failed
    obligation, not a harness error"""
    r = env.call(make)
    if isinstance(r, Raised):
        env.cover("post")
        _prove(env, tag + ".relation-can-be-built", False, detail=lambda: r.tb)
        return None
    return r


def _mk_func(argnames, cell):
    """a plain python function with exactly these named arguments (no defaults, no
    closure cells that func_args could mistake for arguments)"""
    src = "def f(%s):\n    return cell((%s))\n" % (", ".join(argnames), "".join(a + ", " for a in argnames))
    ns = {"cell": cell}
    exec(src, ns)
    return ns["f"]


# ------------------------------------------------------------------ matrix relations

def h_matrix(env):
    from pydcop.dcop import relations as R
    p = env.params
    fx.install_numpy_shim(env, R)
    vs = _mk_vars(_doms(env, p))
    if env.choice("variable-list-order", ["given", "reversed"]) == "reversed":
        vs = list(reversed(vs))
    given = list(vs)         # the caller's own list of variables (FRAME: observed after the calls)
    built = _build(env, "matrix", lambda: fx.matrix_relation(env, "mat", given))
    if built is None:
        return
    rel, cells = built
    oracle = lambda a: cells[tuple(a[v.name] for v in vs)]  # noqa
    # (the matrix handed to the constructor is not observed: whether the relation keeps the
    #  caller's array or a copy of it is not specified)
    if p.get("extra"):
        chain = env.choice("case", _with_extras(_chains(_names(vs), "one", "all")))
        env.cover("post")
        if getattr(env, "dry", False):
            return
        _check_chain(env, "matrix", rel, vs, oracle, chain, "[ignore_extra_vars]", slice_kw=dict(ignore_extra_vars=True))
        _frame_variable_list(env, "matrix", rel, given, vs, "[ignore_extra_vars]")
        return
    _run_case(env, "matrix", rel, vs, oracle, p["steps"], key_orders="all")
    _frame_variable_list(env, "matrix", rel, given, vs)


def _matrix_shapes(tier):
    doms = [[], [3], [2, 3], [3, 2, 2]]
    out = [dict(doms_any=doms + [[2, 2, 2, 2]], steps="one"), dict(doms_any=doms, steps="several"),
           dict(doms=[2, 2], steps="one", extra=True)]
    if tier == "thorough":
        out += [dict(doms=[2, 2, 2, 2], steps="several"), dict(doms=[3, 2, 3, 2], steps="one"), dict(doms=[3, 2, 3, 2], steps="several"),
                dict(doms=[2, 2, 2], steps="one", extra=True)]
    return out


# ------------------------------------------------------------------ python-function relations

_BUILDS_F = ["positional", "decorator", "kwargs-fallback", "f_kwargs", "named-f_kwargs", "partial-base", "positional-namesakes", "decorator-namesakes"]


def h_function(env):
    from pydcop.dcop import relations as R
    p = env.params
    vs = _mk_vars(_doms(env, p))
    tab = fx.LazyTable(env, "c", vs)
    oracle = lambda a: tab.cell(tuple(a[v.name] for v in vs))  # noqa
    build = p["build"]
    sfx = ""
    scope = vs
    given = list(vs)         # the caller's own list of variables (FRAME: observed after the calls)
    base = None
    if build == "positional":
        make = lambda: R.NAryFunctionRelation(_mk_func(["p%d" % i for i in range(len(vs))], tab.cell), given, name="r")  # noqa
    elif build == "decorator":
        make = lambda: R.AsNAryFunctionRelation(*vs)(_mk_func(["p%d" % i for i in range(len(vs))], tab.cell))  # noqa
    elif build in ("positional-namesakes", "decorator-namesakes"):
        # the arguments of the function carry the NAMES of the variables, in another order: without f_kwargs the i-th variable
        # is still the i-th argument (mapping by position), whatever the names say
        perm = env.choice("argument-names-permutation", list(itertools.permutations(range(len(vs)))))
        argnames = [vs[i].name for i in perm]
        if list(perm) != sorted(perm):
            sfx = "[argument-named-like-another-variable]"
        if build == "positional-namesakes":
            make = lambda: R.NAryFunctionRelation(_mk_func(argnames, tab.cell), given, name="r")  # noqa
        else:
            make = lambda: R.AsNAryFunctionRelation(*vs)(_mk_func(argnames, tab.cell))  # noqa
    elif build in ("kwargs-fallback", "f_kwargs"):
        def g(**kw):
            return tab(**kw)
        order = env.choice("variable-list-order", list(itertools.permutations(range(len(vs)))))
        scope = [vs[i] for i in order]
        given = list(scope)
        make = lambda: R.NAryFunctionRelation(g, given, name="r", f_kwargs=(build == "f_kwargs"))  # noqa
    elif build == "named-f_kwargs":
        # f_kwargs=True: "the arguments name must map the variables names", any list order
        order = env.choice("variable-list-order", list(itertools.permutations(range(len(vs)))))
        scope = [vs[i] for i in order]
        if list(order) != sorted(order):
            sfx = "[list-order-differs-from-argument-order]"
        given = list(scope)
        make = lambda: R.NAryFunctionRelation(_mk_func(_names(vs), tab.cell), given, name="r", f_kwargs=True)  # noqa
    elif build == "partial-base":
        # a functools.partial as the relation function (func_args supports keyword partials)
        args = ["p%d" % i for i in range(len(vs))]
        k = len(args) // 2
        f2 = _mk_func(args[:k] + ["fixed"] + args[k:], lambda key: tab.cell(key[:k] + key[k + 1:]) if key[k] == 5 else None)
        base = functools.partial(f2, fixed=5)
        base_kw = _items(base.keywords)
        make = lambda: R.NAryFunctionRelation(base, given, name="r")  # noqa
    else:
        raise ValueError(build)
    rel = _build(env, "function[%s]" % build, make)
    if rel is None:
        return
    _run_case(env, "function[%s]" % build, rel, scope, oracle, p["steps"], sfx)
    # FRAME: the list of variables (and the keywords of the functools.partial) the caller built
    # the relation from; the decorator takes its variables as *args (no caller-side list)
    if getattr(env, "dry", False):
        return
    if base is not None:
        _prove(env, "function[%s].frame.keywords-of-the-partial-unchanged%s" % (build, sfx), _unchanged(base_kw, base.keywords),
               detail=lambda: dict(before=base_kw, now=_items(base.keywords)))
    if build not in ("decorator", "decorator-namesakes"):
        _frame_variable_list(env, "function[%s]" % build, rel, given, scope, sfx)


def _function_shapes(tier):
    out = []
    for b in _BUILDS_F:
        doms = ([[]] if b in ("positional", "f_kwargs") else []) + [[3], [2, 3], [2, 2, 2]]
        out += [dict(build=b, doms_any=doms, steps=s) for s in ("one", "several")]
        if tier == "thorough":
            out += [dict(build=b, doms=[2, 2, 2, 2], steps=s) for s in ("one", "several")]
        elif b == "positional":
            out.append(dict(build=b, doms=[2, 2, 2, 2], steps="one"))
    return out


# ------------------------------------------------------------------ unary / zero-ary / neutral

def h_simple(env):
    from pydcop.dcop import relations as R
    from pydcop.dcop.objects import Variable
    p = env.params
    kind = env.choice("kind", p["kinds"]) if "kinds" in p else p["kind"]
    if kind == "unary-function":
        x = Variable("q", fx.domain("d", [10, 0, 5]))
        tab = fx.LazyTable(env, "u", [x])
        make = lambda: R.UnaryFunctionRelation("u", x, lambda v: tab.cell((v,)))  # noqa
        scope, oracle = [x], (lambda a: tab.cell((a["q"],)))
    elif kind == "unary-boolean":
        x = Variable("q", fx.domain("d", [5, 0, "", "k", 0.5]))
        make = lambda: R.UnaryBooleanRelation("ub", x)  # noqa
        scope, oracle = [x], (lambda a: bool(a["q"]))
    elif kind == "zero-ary":
        val = env.real("value")
        make = lambda: R.ZeroAryRelation("z", val)  # noqa
        scope, oracle = [], (lambda a: val)
    elif kind == "neutral":
        scope = _mk_vars(_doms(env, p))
        given = list(scope)      # the caller's own list of variables (FRAME: observed after the calls)
        make = lambda: R.NeutralRelation(given, "neutral")  # noqa
        oracle = lambda a: 0  # noqa
    else:
        raise ValueError(kind)
    rel = _build(env, kind, make)
    if rel is None:
        return
    _run_case(env, kind, rel, scope, oracle, p["steps"])
    if kind == "neutral":
        _frame_variable_list(env, kind, rel, given, scope)


def _simple_shapes(tier):
    kinds = ["unary-function", "unary-boolean", "zero-ary", "neutral"]
    doms = [[2], [2, 3, 2]] + ([[2, 2, 2, 2]] if tier == "thorough" else [])
    return [dict(kinds=kinds, doms_any=doms, steps=s) for s in ("one", "several")]


# ------------------------------------------------------------------ conditional relations

# ConditionalRelation sorts its dimensions by name: a b g q t interleaves condition and consequence variables
_CPOOL = {"t": [0, 5], "g": [2, 1], "q": [10, 0], "b": ["n", ""], "a": [7, 0, 3]}
_TRUTH = [True, False, False, True, True, False, True, False, False]


def h_conditional(env):
    import numpy as np
    from pydcop.dcop import relations as R
    from pydcop.dcop.objects import Variable
    p = env.params
    fx.install_numpy_shim(env, R)
    var = {n: Variable(n, fx.domain("d_" + n, _CPOOL[n])) for n in set(p["cond"]) | set(p["cons"])}
    cvs = [var[n] for n in p["cond"]]
    kvs = [var[n] for n in p["cons"]]
    ckind = env.choice("condition-kind", p.get("ckinds", ["unary-boolean", "function", "matrix"]))
    kkind = env.choice("consequence-kind", p.get("kkinds", ["matrix", "function"]))
    rn = env.choice("return_neutral", p.get("rn", [False, True]))
    # the condition: concrete (it is branched on), non-boolean truthy/falsy results
    if ckind == "unary-boolean" and len(cvs) != 1:
        env.assume(False)
    keys = list(itertools.product(*[list(v.domain) for v in cvs]))
    table = {k: (bool(k[0]) if ckind == "unary-boolean" else _TRUTH[i % len(_TRUTH)]) for i, k in enumerate(keys)}
    truth_of = lambda key: table[key]  # noqa

    def make():
        if ckind == "unary-boolean":
            cond = R.UnaryBooleanRelation("cnd", cvs[0])
        elif ckind == "function":
            cond = R.NAryFunctionRelation(_mk_func(["c%d" % i for i in range(len(cvs))], lambda key: 3 if table[key] else 0),
                                          cvs, name="cnd")
        else:
            m = np.zeros(tuple(len(v.domain) for v in cvs))
            for idx in itertools.product(*[range(len(v.domain)) for v in cvs]):
                m[idx] = 3 if table[tuple(v.domain[i] for v, i in zip(cvs, idx))] else 0
            cond = R.NAryMatrixRelation(cvs, m, name="cnd")
        if kkind == "matrix":
            cons, cells = fx.matrix_relation(env, "cns", kvs)
            value = lambda key: cells[key]  # noqa
        else:
            tab = fx.LazyTable(env, "cns", kvs)
            cons = R.NAryFunctionRelation(_mk_func(["k%d" % i for i in range(len(kvs))], tab.cell), kvs, name="cns")
            value = tab.cell
        parts.extend([cond, cons, _dim_names(env, cond), _dim_names(env, cons)])
        return R.ConditionalRelation(cond, cons, name="cr", return_neutral=rn), value

    parts = []       # the two relations the caller composes (FRAME: observed after the calls)
    built = _build(env, "conditional", make)
    if built is None:
        return
    rel, value_of = built
    scope = cvs + [v for v in kvs if v not in cvs]

    def truth(a):
        return truth_of(tuple(a[v.name] for v in cvs))

    def oracle(a):
        return value_of(tuple(a[v.name] for v in kvs)) if truth(a) else 0

    sfx = ("[shared-variables]" if set(p["cond"]) & set(p["cons"]) else "") + ("[return_neutral]" if rn else "")
    # documented variant: with return_neutral=False a false condition slices to the constant
    # ZeroAryRelation 0 (class docstring); accepted in place of a relation over the remaining variables
    zeroed_ok = None if rn else (lambda part: all(n in part for n in p["cond"]) and not truth(part))
    _run_case(env, "conditional", rel, scope, oracle, p["steps"], sfx, zeroed_ok=zeroed_ok)
    # FRAME: the condition and the consequence handed to the constructor are the caller's
    # objects (they may be used elsewhere, e.g. as constraints of their own): building,
    # evaluating and slicing the conditional relation leaves their scope and values alone
    if getattr(env, "dry", False):
        return
    cond, cons, cond_names, cons_names = parts
    _frame_sweep(env, "conditional.frame.condition", cond, cvs, lambda a: truth_of(tuple(a[v.name] for v in cvs)),
                 cond_names, sfx, same=lambda got, exp: (not isinstance(got, Raised)) and bool(got) == exp)
    _frame_sweep(env, "conditional.frame.consequence", cons, kvs, lambda a: value_of(tuple(a[v.name] for v in kvs)),
                 cons_names, sfx)


def _conditional_shapes(tier):
    scopes = [(["t"], ["q", "b"]), (["t"], ["t", "b"]), (["t", "g"], ["b"]), (["g", "b"], ["b", "q"])]
    if tier == "thorough":
        scopes += [(["t"], ["a", "q", "b"]), (["t", "g"], ["g", "q", "b"]), (["q", "t"], ["t", "q"])]
    out = []
    for c, k in scopes:
        out.append(dict(cond=c, cons=k, steps="one"))
        out += [dict(cond=c, cons=k, steps="several", rn=[rn]) for rn in (False, True)]     # (jobs of <= 400 paths)
    return out


# ------------------------------------------------------------------ expression relations

_EDOM = {"x": [10, 0, 5], "y": [3, 7], "z": [0, 2], "w": [1, 4], "s": ["R", "G"], "t": ["G", "B"],
         "alpha": [2, 9], "beta": [0, 4], "gamma": [6, 1], "delta": [5, 0], "x1": [4, 0, 9]}

# id -> (expression string, variables, definition)
_EXPRS = {
    "const": ("7", [], lambda: 7),
    "unary": ("3 * x1 - 1", ["x1"], lambda x1: 3 * x1 - 1),
    "diff2": ("x - 2 * y", ["x", "y"], lambda x, y: x - 2 * y),
    "eqstr2": ("10 if s == t else 1", ["s", "t"], lambda s, t: 10 if s == t else 1),
    "lin3": ("x - 2 * y + 100 * z", ["x", "y", "z"], lambda x, y, z: x - 2 * y + 100 * z),
    "tern3": ("y if x else z * 3", ["x", "y", "z"], lambda x, y, z: y if x else z * 3),
    "builtin3": ("abs(x - y) * 10 + max(y, z)", ["x", "y", "z"], lambda x, y, z: abs(x - y) * 10 + max(y, z)),
    "multi3": ("d = x - y\nif d > z:\n    return d * 10\nreturn z - y", ["x", "y", "z"],
               lambda x, y, z: (x - y) * 10 if (x - y) > z else z - y),
    "lin4": ("x * 1000 + w * 100 - y * 10 + z", ["x", "y", "z", "w"], lambda x, y, z, w: x * 1000 + w * 100 - y * 10 + z),
    "mix4": ("(alpha - beta) * gamma + 7 * delta", ["alpha", "beta", "gamma", "delta"],
             lambda alpha, beta, gamma, delta: (alpha - beta) * gamma + 7 * delta),
}
_BUILDS_E = ["from_str", "nary-f_kwargs", "nary-by-position", "fixed-vars", "unary-function"]


def _orders(n, limit):
    perms = list(itertools.permutations(range(n)))
    if limit is None or len(perms) <= limit:
        return perms
    step = len(perms) / float(limit)
    picked = [perms[int(i * step)] for i in range(limit)]
    if perms[-1] not in picked:
        picked[-1] = perms[-1]
    return picked


def h_expression(env):
    """concrete (enumerated) harness; executed in the per-hash-seed subprocess"""
    from pydcop.dcop import relations as R
    from pydcop.dcop.objects import Variable
    from pydcop.utils.expressionfunction import ExpressionFunction
    p = env.params
    build = p["build"]
    eid = env.choice("expression", p["exprs"])
    text, names, fn = _EXPRS[eid]
    vs = [Variable(n, fx.domain("d_" + n, _EDOM[n])) for n in names]
    order = env.choice("variable-list-order", _orders(len(vs), p.get("max_orders")))
    given = [vs[i] for i in order]
    sfx = ""
    scope = given
    oracle = lambda a: fn(**{n: a[n] for n in names})  # noqa
    ef = arg_list = None     # FRAME: the expression function / list of variables the caller hands in
    if build == "from_str":
        maker = env.choice("function", ["constraint_from_str", "relation_from_str"]) if eid == p["exprs"][0] else "constraint_from_str"
        unused = Variable("unused", fx.domain("d_u", [1, 2]))
        k = (sum(order) + len(order)) % (len(given) + 1)
        arg_list = given[:k] + [unused] + given[k:]
        rel = env.call(getattr(R, maker), "e", text, arg_list)
    elif build == "nary-f_kwargs":
        ef = ExpressionFunction(text)
        if _names(given) != list(ef.variable_names):
            sfx = "[list-order-differs-from-argument-order]"
        arg_list = list(given)
        rel = env.call(R.NAryFunctionRelation, ef, arg_list, "e", f_kwargs=True)
    elif build == "nary-by-position":
        # variables with other names than the expression's, listed in the order of its arguments
        ef = ExpressionFunction(text)
        ren = {n: Variable("p_" + n, fx.domain("d_" + n, _EDOM[n])) for n in names}
        scope = [ren[n] for n in ef.variable_names]
        oracle = lambda a: fn(**{n: a["p_" + n] for n in names})  # noqa
        arg_list = list(scope)
        rel = env.call(R.NAryFunctionRelation, ef, arg_list, "e")
    elif build == "fixed-vars":
        # ExpressionFunction(expression, **fixed_vars): a partially evaluated expression
        if not names:
            env.assume(False)
        fixed = given[-1]
        val = env.choice("fixed-value", list(fixed.domain))
        scope = given[:-1]
        oracle = lambda a: fn(**dict({n: a[n] for n in names if n != fixed.name}, **{fixed.name: val}))  # noqa
        ef = env.call(lambda: ExpressionFunction(text, **{fixed.name: val}))
        arg_list = list(scope)
        rel = ef if isinstance(ef, Raised) else env.call(lambda: R.NAryFunctionRelation(ef, arg_list, "e", f_kwargs=True))
    elif build == "unary-function":
        # UnaryFunctionRelation(name, variable, rel_function: Union[ExpressionFunction, Callable])
        if len(names) != 1:
            env.assume(False)
        ef = env.call(ExpressionFunction, text)
        rel = ef if isinstance(ef, Raised) else env.call(R.UnaryFunctionRelation, "e", vs[0], ef)
    else:
        raise ValueError(build)
    tag = "expression[%s]" % build
    arg_before = None if arg_list is None else list(arg_list)
    ef_before = None if ef is None or isinstance(ef, Raised) else (list(ef.variable_names), ef.expression)
    if isinstance(rel, Raised):
        env.cover("post")
        _prove(env, tag + ".builds" + sfx, False, detail=lambda: dict(expression=text, order=_names(given), tb=rel.tb))
        return
    _run_case(env, tag, rel, scope, oracle, p["steps"], sfx)
    if getattr(env, "dry", False):
        return
    if ef is not None:
        now = env.call(lambda: (list(ef.variable_names), ef.expression))
        _prove(env, tag + ".frame.expression-function-unchanged" + sfx, now == ef_before,
               detail=lambda: dict(before=ef_before, now=now))
    if arg_list is not None:
        if build == "from_str":
            # all_variables is a pool the relation picks from: only "not modified" is required
            _prove(env, tag + ".frame.variable-list-unchanged" + sfx, _unchanged(arg_before, arg_list),
                   detail=lambda: dict(before=_names(arg_before), now=_names(arg_list)))
        else:
            _frame_variable_list(env, tag, rel, arg_list, arg_before, sfx)


def _expression_shapes(tier):
    small = ["const", "unary", "diff2", "eqstr2"]
    three = ["lin3", "tern3", "builtin3", "multi3"]
    four = ["lin4", "mix4"]
    out = []
    for b in ("from_str", "nary-f_kwargs", "nary-by-position", "fixed-vars"):
        for s in ("one", "several"):
            if b == "nary-by-position":
                out.append(dict(build=b, exprs=small + three + four, steps=s, max_orders=1))
                continue
            out.append(dict(build=b, exprs=small + three, steps=s))
            if tier == "thorough":
                out += [dict(build=b, exprs=[e], steps=s) for e in four]
            else:
                out.append(dict(build=b, exprs=four[:1], steps=s, max_orders=6 if s == "one" else 2))
    out += [dict(build="unary-function", exprs=["unary"], steps=s) for s in ("one", "several")]
    return out


# ------------------------------------------------------------------ per-hash-seed subprocess

_HARNESSES = {"matrix": h_matrix, "function": h_function, "simple": h_simple, "conditional": h_conditional,
              "expression": h_expression}


class _MiniEnv:
    """concrete stand-in for pvc's Env inside the subprocess: choices are enumerated by a
    decision vector, numeric inputs are distinct plain numbers"""
    symbolic = False
    dry = False

    def __init__(self, params, prefix):
        self.params = params
        self.prefix = prefix
        self.decisions = []
        self.names = []
        self.values = {}
        self.obl = {}
        self.covered = []

    def choice(self, name, options):
        options = list(options)
        if not options:
            raise PathAbort("empty choice")
        pos = len(self.decisions)
        k = self.prefix[pos] if pos < len(self.prefix) else 0
        self.decisions.append((k, len(options)))
        self.names.append("%s=%s" % (name, str(options[k])[:60]))
        return options[k]

    def real(self, name, lo=None, hi=None):
        if name not in self.values:
            c = len(self.values)
            self.values[name] = (c + 1) * 11 + (0.5 if c % 3 == 1 else 0)
        return self.values[name]

    int = real

    def ext_real(self, name, kinds=("fin",), lo=None, hi=None):
        k = self.choice("kind:" + name, kinds) if len(kinds) > 1 else kinds[0]
        return self.real(name) if k == "fin" else (float("inf") if k == "+inf" else float("-inf"))

    def assume(self, cond):
        if not cond:
            raise PathAbort("assumption false")

    def cover(self, label):
        self.covered.append(label)

    def note(self, text):
        pass

    def prove(self, label, cond, detail=None):
        ok = bool(cond)
        o = self.obl.setdefault(label, [0, 0, None])
        o[0] += 1
        if not ok:
            o[1] += 1
            if o[2] is None:
                try:
                    o[2] = str(detail() if callable(detail) else detail)[:1500]
                except BaseException as e:  # noqa
                    o[2] = "<detail failed: %r>" % (e,)
        return ok

    def call(self, fn, *a, **kw):
        import traceback
        try:
            return fn(*a, **kw)
        except Exception as e:  # noqa
            return Raised(e, traceback.format_exc(limit=6))


def _enumerate(items, tier, select=None):
    """all paths of the concrete harnesses of ``items`` = [(target, shape), ...] (odometer over
    their choices), in a fixed order.  ``select``: the indexes whose checks are executed (the
    other paths are only run up to their last choice, which keeps the numbering)."""
    paths, idx = [], 0
    for target, shape in items:
        harness, params = _HARNESSES[target], dict(shape, _tier=tier, _seed=0)
        prefix = []
        while True:
            env = _MiniEnv(params, prefix)
            env.dry = select is not None and idx not in select
            aborted = False
            try:
                harness(env)
            except PathAbort:
                aborted = True
            if not aborted:
                paths.append(dict(index=idx, target=target, shape=shape, choices=env.names, covered=env.covered, dry=env.dry,
                                  obl=[[lab, o[0], o[1], o[2]] for lab, o in env.obl.items()]))
                idx += 1
            ks = env.decisions
            i = len(ks) - 1
            while i >= 0 and ks[i][0] + 1 >= ks[i][1]:
                i -= 1
            if i < 0:
                break
            prefix = [k for k, _ in ks[:i]] + [ks[i][0] + 1]
    return paths


_MAX_PARENT_PATHS = 350     # a job of the engine is explored in one piece up to 400 paths


def _chunk(n):
    return max(1, -(-n // _MAX_PARENT_PATHS))


def _worker_main(argv):
    import logging
    import traceback
    logging.disable(logging.CRITICAL)
    job = json.loads(argv[0])
    out = dict(hashseed=os.environ.get("PYTHONHASHSEED"), set_order=list({"x", "y", "z", "w"}))
    try:
        if job.get("chunk") is None:
            out["paths"] = _enumerate(job["items"], job.get("tier", "quick"))
        else:
            # replay of one chunk of cases: count the cases first, then execute that chunk only
            n = len(_enumerate(job["items"], job.get("tier", "quick"), select=()))
            c = _chunk(n)
            sel = set(range(job["chunk"] * c, min(n, (job["chunk"] + 1) * c)))
            out["paths"] = [q for q in _enumerate(job["items"], job.get("tier", "quick"), select=sel) if not q["dry"]]
    except BaseException as e:  # noqa
        out["error"] = "%r\n%s" % (e, traceback.format_exc(limit=12))
    sys.stdout.write("\n@@RESULT@@" + json.dumps(out, default=str) + "\n")
    return 0


_ROOT = os.path.dirname(os.path.dirname(os.path.abspath(__file__)))
_CACHE = {}
_CACHE_DIR = "/tmp/pvc_relkinds_cache"


def _runner_id():
    """identifies the ./check run this process belongs to (its workers are all children of it)"""
    ppid = os.getppid()
    try:
        start = open("/proc/%d/stat" % ppid).read().rsplit(")", 1)[1].split()[19]
    except Exception:  # noqa
        start = "?"
    return "%d_%s" % (ppid, start)


def _spawn(job):
    e = dict(os.environ)
    e["PYTHONHASHSEED"] = str(job["seed"])
    e["PYTHONWARNINGS"] = "ignore"
    try:
        pr = subprocess.run([sys.executable, "-m", "contracts.c_relkinds", json.dumps(job)], cwd=_ROOT, env=e,
                            stdout=subprocess.PIPE, stderr=subprocess.PIPE, timeout=job.get("timeout", 1500))
    except subprocess.TimeoutExpired:
        return dict(error="subprocess timed out")
    txt = pr.stdout.decode("utf-8", "replace")
    if "@@RESULT@@" in txt:
        return json.loads(txt.rsplit("@@RESULT@@", 1)[1])
    return dict(error="no result (exit %s): %s" % (pr.returncode, pr.stderr.decode("utf-8", "replace")[-1500:]))


def _seed_results(job):
    """all cases of ``job`` run in a subprocess under PYTHONHASHSEED=job['seed'].  Cached per
    process and, for the exploring workers of one ./check run, on disk (replays never use it)."""
    key = json.dumps(job, sort_keys=True)
    if key in _CACHE:
        return _CACHE[key]
    digest = hashlib.sha1((key + "|" + os.environ.get("PVC_REPO", "")).encode()).hexdigest()[:20]
    path = os.path.join(_CACHE_DIR, "%s_%s.json" % (_runner_id(), digest))
    res = None
    if os.path.exists(path):
        try:
            res = json.load(open(path))
        except Exception:  # noqa
            res = None
    if res is None:
        res = _spawn(job)
        if "error" not in res:
            try:
                os.makedirs(_CACHE_DIR, exist_ok=True)
                now = time.time()
                for fn in os.listdir(_CACHE_DIR):
                    fp = os.path.join(_CACHE_DIR, fn)
                    if now - os.path.getmtime(fp) > 3600:
                        os.remove(fp)
                tmp = path + ".%d.tmp" % os.getpid()
                json.dump(res, open(tmp, "w"))
                os.replace(tmp, path)
            except Exception:  # noqa
                pass
    _CACHE[key] = res
    return res


def h_under_seed(env):
    p = env.params
    job = dict(seed=p["seed"], items=p["items"], tier=p.get("_tier", "quick"))
    if env.symbolic:
        res = _seed_results(job)
        ok = "error" not in res and str(res.get("hashseed")) == str(p["seed"]) and bool(res.get("paths"))
        _prove(env, "hashseed.subprocess-ran-all-cases-under-the-seed", ok, detail=lambda: res.get("error") or res.get("hashseed"))
        if not ok:
            return
        n = len(res["paths"])
        c = _chunk(n)
        k = env.choice("cases", list(range(-(-n // c))))
        paths = res["paths"][k * c:(k + 1) * c]
    else:
        # native replay: a fresh subprocess executes that chunk of cases again
        k = env.choice("cases", range(1000000))
        res = _spawn(dict(job, chunk=k))
        ok = "error" not in res and str(res.get("hashseed")) == str(p["seed"])
        _prove(env, "hashseed.subprocess-ran-all-cases-under-the-seed", ok, detail=lambda: res.get("error") or res.get("hashseed"))
        if not ok:
            return
        paths = res["paths"]
        env.assume(bool(paths))
    env.note("%d enumerated cases" % len(paths))
    for path in paths:
        for c_ in path["covered"]:
            env.cover(c_)
        for lab, n_, nfail, detail in path["obl"]:
            _prove(env, lab, nfail == 0, detail=lambda: dict(seed=p["seed"], target=path["target"], shape=path["shape"],
                                                             case=path["choices"], instances=n_, failed=nfail, first=detail))


def _seeded_shapes(tier):
    seeds = range(8) if tier == "thorough" else (0, 1)
    groups = {}
    for sh in _expression_shapes(tier):
        if tier == "thorough":
            key = "%s:%s:%s" % (sh["build"], sh["steps"], "+".join(sh["exprs"]) if len(sh["exprs"]) == 1 else "")
        else:
            key = sh["build"] if sh["build"] in ("unary-function", "nary-by-position") else "%s:%s" % (sh["build"], sh["steps"])
        groups.setdefault(key, []).append(["expression", sh])
    # the other kinds do not iterate over sets; a light concrete pass under each seed all the same
    other = [["matrix", dict(doms=[3, 2, 2], steps=s)] for s in ("one", "several")]
    other += [["function", dict(build=b, doms=[2, 2, 2], steps=s)] for b in ("positional", "named-f_kwargs") for s in ("one", "several")]
    other += [["simple", sh] for sh in _simple_shapes("quick")]
    groups["other-kinds"] = other
    groups["conditional"] = [["conditional", sh] for sh in _conditional_shapes("quick")]
    return [dict(seed=s, group=g, items=items) for s in seeds for g, items in groups.items()]


# ------------------------------------------------------------------ registration

if __name__ == "__main__":
    sys.exit(_worker_main(sys.argv[1:]))

from pvc.contract import Contract  # noqa: E402

_BUDGET = dict(all_failures=True, quick=dict(max_paths=40000, timeout_s=300), thorough=dict(max_paths=400000, timeout_s=3000))
_NUMPY = "numpy float64 arrays modelled as object arrays of exact reals (zeros/array/copy/indexing/item)"

Contract(
    "relkinds.matrix", ["C11"],
    ["pydcop.dcop.relations:NAryMatrixRelation.slice", "pydcop.dcop.relations:NAryMatrixRelation._slice_matrix",
     "pydcop.dcop.relations:NAryMatrixRelation.get_value_for_assignment", "pydcop.dcop.relations:NAryMatrixRelation.__call__"],
    h_matrix, _matrix_shapes, mode="B", must_cover=["post"], trusted=[_NUMPY], budget=_BUDGET,
    desc="matrix relation, arity 0-4, symbolic cells: keyword/positional/dict/list forms give the cell; every slicing sequence "
         "(all key orders, all ordered partitions) gives a relation over the remaining variables equal to the original on every completion; "
         "ignore_extra_vars ignores exactly the foreign names",
)

Contract(
    "relkinds.function", ["C11"],
    ["pydcop.dcop.relations:NAryFunctionRelation.__init__", "pydcop.dcop.relations:NAryFunctionRelation.slice",
     "pydcop.dcop.relations:NAryFunctionRelation.get_value_for_assignment", "pydcop.dcop.relations:NAryFunctionRelation.__call__",
     "pydcop.dcop.relations:AsNAryFunctionRelation.__call__", "pydcop.utils.various:func_args"],
    h_function, _function_shapes, mode="B", must_cover=["post"], budget=_BUDGET,
    desc="python-function relations (positional arguments, decorator, **kwargs, f_kwargs with every variable-list order, "
         "functools.partial base), symbolic table: evaluation forms and every slicing sequence agree with the function",
)

Contract(
    "relkinds.simple", ["C11"],
    ["pydcop.dcop.relations:UnaryFunctionRelation.slice", "pydcop.dcop.relations:UnaryFunctionRelation.get_value_for_assignment",
     "pydcop.dcop.relations:UnaryFunctionRelation.__call__", "pydcop.dcop.relations:UnaryBooleanRelation.slice",
     "pydcop.dcop.relations:UnaryBooleanRelation.get_value_for_assignment", "pydcop.dcop.relations:UnaryBooleanRelation.__call__",
     "pydcop.dcop.relations:ZeroAryRelation.slice", "pydcop.dcop.relations:ZeroAryRelation.get_value_for_assignment",
     "pydcop.dcop.relations:ZeroAryRelation.__call__", "pydcop.dcop.relations:NeutralRelation.slice",
     "pydcop.dcop.relations:NeutralRelation.__call__"],
    h_simple, _simple_shapes, mode="B", must_cover=["post"], budget=_BUDGET,
    desc="unary function, unary boolean (truthiness of the value), zero-ary (symbolic constant), neutral (0): evaluation forms and slicing",
)

Contract(
    "relkinds.conditional", ["C11"],
    ["pydcop.dcop.relations:ConditionalRelation.slice", "pydcop.dcop.relations:ConditionalRelation.get_value_for_assignment",
     "pydcop.dcop.relations:ConditionalRelation.__call__", "pydcop.dcop.relations:ConditionalRelation.dimensions"],
    h_conditional, _conditional_shapes, mode="B", must_cover=["post"], trusted=[_NUMPY], budget=_BUDGET,
    assumptions=["ConditionalRelation(return_neutral=False): a slice that makes the condition false may be the constant "
                 "ZeroAryRelation 0 instead of a relation over the remaining variables (documented variant of the class)"],
    desc="conditional relation = consequence if condition else 0; condition unary-boolean/function/matrix (truthy numbers), consequence "
         "matrix/function with symbolic cells, disjoint and shared scopes, return_neutral on/off: evaluation forms and every slicing sequence",
)

Contract(
    "relkinds.under-hash-seeds", ["C11"],
    ["pydcop.utils.expressionfunction:ExpressionFunction.__init__", "pydcop.utils.expressionfunction:ExpressionFunction.partial",
     "pydcop.utils.expressionfunction:ExpressionFunction.variable_names", "pydcop.utils.expressionfunction:ExpressionFunction.__call__",
     "pydcop.dcop.relations:constraint_from_str", "pydcop.dcop.relations:NAryFunctionRelation.__init__",
     "pydcop.dcop.relations:NAryFunctionRelation.slice", "pydcop.utils.various:func_args"],
    h_under_seed, _seeded_shapes, mode="E", must_cover=["post"], budget=_BUDGET,
    trusted=["the subprocess harness (contracts.c_relkinds run as a script with PYTHONHASHSEED set) reports its obligations faithfully"],
    desc="expression-string relations (constraint_from_str / relation_from_str, NAryFunctionRelation over an ExpressionFunction with every "
         "variable-list order, by position, with fixed variables, UnaryFunctionRelation over an ExpressionFunction; 10 expressions over "
         "0-4 variables incl. builtins, conditionals, multi-line) and a concrete pass over all other kinds, each under PYTHONHASHSEED 0,1 "
         "(thorough 0..7) in its own subprocess; one path per enumerated case",
)
