"""C11 for relations defined by an expression over an EXTERNAL python file (the ``source:`` entry of the yaml format,
``relations.constraint_from_external_definition`` -> ``ExpressionFunction(expression, source_file)``): several constraints of
one problem use different source files that define functions of the same name.  E-mode: every relation is evaluated (keyword,
dict and positional-through-slice forms) on every assignment against the python definition it was built from, before and after
the other relations are created, evaluated and sliced; slices are checked against the definition too.

The files are written to a temporary directory that is removed when the run ends."""
import importlib
import itertools
import os
import shutil
import tempfile

from pvc.contract import Contract
from pvc.explore import Raised

_SRC = {
    "a": "def f(x, y):\n    return 3 * x + y\n\ndef g(x):\n    return x * x\n\nK = 7\n",
    "b": "def f(x, y):\n    return 1000 + x - 2 * y\n\ndef g(x):\n    return -x\n\nK = 11\n",
    "c": "import math\n\ndef f(x, y, z=0):\n    return 10 * x + y + 100 * z\n\ndef g(x):\n    return math.floor(x / 2)\n\nK = 0\n",
}
_PY = {
    "a": dict(f=lambda x, y: 3 * x + y, g=lambda x: x * x, K=7),
    "b": dict(f=lambda x, y: 1000 + x - 2 * y, g=lambda x: -x, K=11),
    "c": dict(f=lambda x, y, z=0: 10 * x + y + 100 * z, g=lambda x: x // 2, K=0),
}
# (name, source key, expression, scope in the order the expression names them, oracle)
_DEFS = [
    ("c1", "a", "source.f(v1, v2)", ["v1", "v2"], lambda m, a: m["f"](a["v1"], a["v2"])),
    ("c2", "b", "source.f(v2, v3)", ["v2", "v3"], lambda m, a: m["f"](a["v2"], a["v3"])),
    ("c3", "c", "source.f(v3, v1, v2) + source.K", ["v3", "v1", "v2"], lambda m, a: m["f"](a["v3"], a["v1"], a["v2"]) + m["K"]),
    ("c4", "b", "source.g(v1) + source.K", ["v1"], lambda m, a: m["g"](a["v1"]) + m["K"]),
    ("c5", "a", "source.g(v3) + source.f(v1, v3)", ["v3", "v1"], lambda m, a: m["g"](a["v3"]) + m["f"](a["v1"], a["v3"])),
]


def h_external(env):
    p = env.params
    R = env.call(importlib.import_module, "pydcop.dcop.relations")
    if isinstance(R, Raised):
        env.prove("relext.module-imports", False, detail=lambda: R.tb)
        return
    from pydcop.dcop.objects import Variable, Domain
    doms = {"v1": [2, 0, 5], "v2": [1, 4], "v3": [0, 3, 7]}
    variables = {n: Variable(n, Domain("d_" + n, "", vals)) for n, vals in doms.items()}
    order = list(env.choice("creation_order", list(itertools.permutations(p["defs"]))[:p.get("max_orders", 6)]))
    defs = {d[0]: d for d in _DEFS}
    tmp = tempfile.mkdtemp(prefix="pvc_relext_")
    try:
        files = {}
        for k, txt in _SRC.items():
            files[k] = os.path.join(tmp, "src_%s.py" % k)
            with open(files[k], "w") as fh:
                fh.write(txt)
        rels = {}

        def check_all(when):
            """every relation built so far still evaluates as ITS definition says, in every calling form"""
            for name, rel in rels.items():
                _, key, _, scope, oracle = defs[name]
                for vals in itertools.product(*[doms[v] for v in scope]):
                    a = dict(zip(scope, vals))
                    want = oracle(_PY[key], a)
                    got_kw = env.call(lambda: rel(**a))
                    got_d = env.call(rel.get_value_for_assignment, dict(a))
                    ok = (not isinstance(got_kw, Raised)) and (not isinstance(got_d, Raised)) and got_kw == want and got_d == want
                    env.prove("relext.value-is-the-definition-of-its-own-source-file[%s]" % when, ok,
                              detail=lambda: dict(relation=name, source=key, assignment=a, expected=want, keyword=got_kw, dict=got_d,
                                                  built=list(rels)))
                    if not ok:
                        return False
            return True

        for name in order:
            _, key, expr, scope, oracle = defs[name]
            rel = env.call(R.constraint_from_external_definition, name, files[key], expr, list(variables.values()))
            if isinstance(rel, Raised):
                env.prove("relext.construction-does-not-raise", False, detail=lambda: (name, expr, rel.tb))
                return
            env.prove("relext.scope-is-the-variables-of-the-expression", sorted(v.name for v in rel.dimensions) == sorted(scope),
                      detail=lambda: (name, [v.name for v in rel.dimensions], scope))
            rels[name] = rel
            if not check_all("after-another-relation-was-created"):
                return
        env.cover("built")
        # slicing one relation (which builds new expression functions) must leave the others, and the slices taken before, alone
        slices = []
        for name in order:
            _, key, expr, scope, oracle = defs[name]
            if len(scope) < 2:
                continue
            fixed = scope[0]
            for val in doms[fixed]:
                sl = env.call(rels[name].slice, {fixed: val})
                if isinstance(sl, Raised):
                    env.prove("relext.slice-does-not-raise", False, detail=lambda: (name, fixed, val, sl.tb))
                    return
                slices.append((name, key, scope, oracle, fixed, val, sl))
            if not check_all("after-a-relation-was-sliced"):
                return
        for name, key, scope, oracle, fixed, val, sl in slices:
            rest = [v for v in scope if v != fixed]
            env.prove("relext.slice.scope-is-the-remaining-variables", sorted(v.name for v in sl.dimensions) == sorted(rest),
                      detail=lambda: (name, fixed, [v.name for v in sl.dimensions]))
            for vals in itertools.product(*[doms[v] for v in rest]):
                a = dict(zip(rest, vals))
                full = dict(a)
                full[fixed] = val
                want = oracle(_PY[key], full)
                got = env.call(lambda: sl(**a))
                env.prove("relext.slice.value-is-the-definition-with-the-fixed-value", (not isinstance(got, Raised)) and got == want,
                          detail=lambda: dict(relation=name, source=key, fixed={fixed: val}, assignment=a, expected=want, got=got))
        env.cover("sliced")
    finally:
        shutil.rmtree(tmp, ignore_errors=True)


Contract(
    "relext.external-definition", ["C11"],
    ["pydcop.dcop.relations:constraint_from_external_definition", "pydcop.utils.expressionfunction:ExpressionFunction.__init__",
     "pydcop.utils.expressionfunction:ExpressionFunction.__call__", "pydcop.utils.expressionfunction:ExpressionFunction.partial",
     "pydcop.dcop.relations:NAryFunctionRelation.slice", "pydcop.dcop.relations:NAryFunctionRelation.get_value_for_assignment"],
    h_external,
    lambda tier: [dict(defs=["c1", "c2", "c3"]), dict(defs=["c4", "c5", "c1"]), dict(defs=["c2", "c4"], max_orders=2)]
    + ([dict(defs=["c1", "c2", "c3", "c5"], max_orders=24), dict(defs=["c3", "c4", "c5"])] if tier == "thorough" else []),
    mode="E", must_cover=["built", "sliced"],
    trusted=["temporary python files written by the harness stand for the user's constraint definition files"],
    assumptions=["C11 external definitions: 3 source files defining functions and constants of the same names, 5 expressions, every creation order of 2-4 of them"],
    budget=dict(quick=dict(max_paths=200, timeout_s=120)),
    desc="relations built from an expression over an external python file evaluate and slice as that file defines, whatever other "
         "relations (over other files with the same function names) are created, evaluated or sliced in between",
)
