"""MGM (pydcop.algorithms.mgm): contracts for C03, C04, C07, C10.

The functions under contract are the message handlers of the real MgmComputation
objects (on_start, _on_value_msg, _on_gain_msg and what they call).  The
postconditions are the property statements themselves, evaluated at the cycle
boundaries of a composite of k real computations; every cost-table cell and
variable cost is a universally quantified real."""
import itertools
import random as _pyrandom

from pvc.contract import Contract
from pvc.sym import And, Or, Not, Implies, eq, lt, le, is_sym, smin, smax
from . import fx
from .net import Net, build_dcop, global_cost, local_cost, HandlerRaised, get_spec, make_net, warm_up


def not_worse(mode, new, old):
    return le(new, old) if mode == "min" else le(old, new)


def strictly_better(mode, new, old):
    return lt(new, old) if mode == "min" else lt(old, new)


SPECS = {
    # chain of three binary variables
    "chain3": dict(vars={"x1": ([0, 1], "plain", 0), "x2": (["a", "b"], "plain", "a"), "x3": ([7, 0], "plain", 7)},
                   cons=[["x1", "x2"], ["x2", "x3"]]),
    "chain3_free": dict(vars={"x1": [0, 1], "x2": [0, 1], "x3": [0, 1]}, cons=[["x1", "x2"], ["x2", "x3"]]),
    "pair_cost": dict(vars={"x1": ([0, 1], "func", 0), "x2": ([0, 1], "dict", 1)}, cons=[["x1", "x2"]]),
    "pair3": dict(vars={"x1": ([5, 0, 2], "plain", 5), "x2": ([0, 1], "plain", 1)}, cons=[["x1", "x2"]]),
    "tri_nary": dict(vars={"x1": ([0, 1], "plain", 0), "x2": ([0, 1], "plain", 1), "x3": ([0, 1], "plain", 0)},
                     cons=[["x1", "x2", "x3"]]),
    "triangle": dict(vars={"x1": ([0, 1], "plain", 0), "x2": ([0, 1], "plain", 0), "x3": ([0, 1], "plain", 1)},
                     cons=[["x1", "x2"], ["x2", "x3"], ["x1", "x3"]]),
    "iso": dict(vars={"x1": ([0, 1], "func", 0), "x2": (["a", "b"], "plain", "b"), "x3": ([7, 0, 4], "dict")},
                cons=[["x1", "x2"]]),
    # the same neighbour met through two constraints (a binary one inside a ternary one / twice the same pair)
    "overlap": dict(vars={"x1": ([0, 1], "plain", 0), "x2": ([0, 1], "plain", 0), "x3": ([0, 1], "plain", 1)},
                    cons=[["x1", "x2"], ["x1", "x2", "x3"]]),
    "double_pair": dict(vars={"x1": ([0, 1], "plain", 0), "x2": ([0, 1], "plain", 1)}, cons=[["x1", "x2"], ["x2", "x1"]]),
    # a variable whose only constraint is unary: it has constraints but no neighbour
    "iso_unary": dict(vars={"x1": ([0, 1], "plain", 0), "x2": (["a", "b"], "plain", "b"), "x3": ([7, 0, 4], "plain", 7)},
                      cons=[["x1", "x2"], ["x3"]]),
    "iso2": dict(vars={"x1": ([0, 1], "plain", 0), "x2": (["a", "b"], "plain", "b"), "x3": (["r", "g"], "func")}, cons=[["x1", "x2"]]),
    "star_cost": dict(vars={"x1": ([0, 1], "func", 0), "x2": ([0, 1], "plain", 0), "x3": ([0, 1], "func", 1)},
                      cons=[["x1", "x2"], ["x1", "x3"]]),
}


def cycle_assignments(net, k):
    """A_c = value each computation held when its cycle counter became c"""
    out = []
    for c in range(1, k + 1):
        a = {}
        for n in net.comps:
            if (n, c) in net.cycle_values:
                a[n] = net.cycle_values[(n, c)]
        out.append(a)
    return out


def h_mgm_cycles(env):
    p = env.params
    algo = p.get("algo", "mgm")
    spec = get_spec(env, p, SPECS)
    k = p["stop_cycle"]
    mode = env.choice("mode", p.get("modes", ["min", "max"]))
    variables, cons, tabs, varcost = build_dcop(env, spec)
    if p.get("pin_c0") and env.symbolic:   # debugging aid
        _orig = env.real

        def _real(name, lo=None, hi=None, _v={"c0[0,a]": 6, "c0[0,b]": 4, "c0[1,a]": 1, "c0[1,b]": 5}):
            x = _orig(name, lo, hi)
            if name in _v:
                env.assume(x == _v[name])
            return x
        env.real = _real
    ap = dict(p.get("algo_params", {}))
    ap["stop_cycle"] = k
    if p.get("warm_up"):
        warm_up(env, algo, mode, spec, ap)
    net = make_net(env, algo + ".computations-can-be-built", algo, mode, variables, cons, ap)
    if net is None:
        return
    net.cycle_values = {}
    net.move_info = {}
    net.gain_info = {}
    for name, c in net.comps.items():
        orig = c._on_new_cycle

        def on_nc(count, _o=orig, _n=name, _c=c):
            _o(count)
            net.cycle_values[(_n, count)] = _c.current_value
        c._on_new_cycle = on_nc
        orig_vs = c._on_value_selection

        def on_vs(val, cost, cycle, _o=orig_vs, _n=name, _c=c):
            # (MGM2) remember, at the moment of a move, whether it is one half of a coordinated move
            pt = getattr(_c, "_partner", None)
            net.move_info[(_n, _c.cycle_count)] = (bool(getattr(_c, "_committed", False)), getattr(pt, "name", None))
            _o(val, cost, cycle)
        c._on_value_selection = on_vs
        if algo == "mgm2":
            orig_hg = c._handle_gain_messages

            def hg(_o=orig_hg, _n=name, _c=c):
                pt = getattr(_c, "_partner", None)
                net.gain_info[(_n, _c.cycle_count)] = dict(committed=bool(_c._committed), partner=getattr(pt, "name", None),
                                                           gain=_c._potential_gain, others=dict(_c._neighbors_gains))
                _o()
            c._handle_gain_messages = hg
    if "offerers_by_cycle" in p:
        # (MGM2) the offerer role of every computation, cycle by cycle (cycle counter 1 = first decision phase)
        roles = p["offerers_by_cycle"]

        def set_roles(c_, name_):
            k_ = min(max(c_.cycle_count, 1), len(roles)) - 1
            c_._threshold = 2 if name_ in roles[k_] else -1
        for name, c in net.comps.items():
            set_roles(c, name)
            prev = c._on_new_cycle

            def nc(count, _o=prev, _c=c, _n=name):
                _o(count)
                set_roles(_c, _n)
            c._on_new_cycle = nc
    elif "offerers" in p:
        # (MGM2) fix which computations act as offerers in every cycle instead of exploring the
        # random draw: the role assignments are enumerated across shapes (one job each)
        for name, c in net.comps.items():
            c._threshold = 2 if name in p["offerers"] else -1
    order = list(net.comps)
    so = p.get("start_order", "fwd")
    if so == "rev":
        order.reverse()
    policy = p.get("policy", "fifo")
    rng = _pyrandom.Random(p.get("sched_seed", 0) * 7919 + p.get("_seed", 0))
    try:
        if p.get("interleave_start"):
            # deliver whatever is deliverable between two starts: messages reach
            # computations that have not started yet
            for n in order:
                net.start(n)
                net.run(policy if policy != "explore" else "fifo", max_steps=p.get("between", 2), rng=rng)
        else:
            for n in order:
                net.start(n)
        net.run(policy, max_steps=400 * k, rng=rng)
    except HandlerRaised as e:
        env.prove("%s.C07.no-handler-raises" % algo, False, detail=lambda: "%s\n%s" % (e, e.tb))
        return
    env.cover("ran")
    names = list(net.comps)
    isolated = [n for n in names if not net.comps[n].neighbors]
    active = [n for n in names if n not in isolated]

    # ---- C07: termination after exactly k cycles
    env.prove("%s.C07.every-computation-finished-exactly-once" % algo,
              sorted(net.finished) == sorted(names), detail=lambda: dict(finished=net.finished, log=net.log[-12:]))
    env.prove("%s.C07.finished-after-exactly-stop_cycle-cycles" % algo,
              all(net.comps[n].cycle_count == k for n in active) and all(net.comps[n].cycle_count == 0 for n in isolated),
              detail=lambda: {n: net.comps[n].cycle_count for n in names})
    env.prove("%s.C07.no-message-left-undelivered" % algo, net.pending() == 0, detail=lambda: dict(pending=net.pending()))

    # ---- C10: every selected value is a domain value
    env.prove("%s.C10.selected-values-in-domain" % algo,
              all((not is_sym(val)) and (val is None or val in list(variables[n].domain)) for n, val, _, _ in net.value_events),
              detail=lambda: net.value_events)
    if sorted(net.finished) != sorted(names):
        return
    A = cycle_assignments(net, k)
    for c in range(len(A)):
        for n in isolated:
            A[c][n] = net.comps[n].current_value
    if any(len(a) != len(names) for a in A):
        env.prove("%s.cycle-assignments-complete" % algo, False, detail=lambda: A)
        return
    if algo == "mgm":
        # ---- lemma both properties rest on (MGM's definition of the gain): the gain a variable announces in decision
        # phase j is its best unilateral improvement against the values its neighbours actually hold in that phase.
        # Ground truth from the channels: the j-th value message of m -> n is m's value in phase j.
        vals, gains = {}, {}
        for ev in net.log:
            if ev[0] != "post":
                continue
            _, src, dst, msg = ev
            if msg.type == "mgm_value":
                vals.setdefault((src, dst), []).append(msg.value)
            elif msg.type == "mgm_gain":
                gains.setdefault((src, dst), []).append(msg.value)
        for n in active:
            nbs = list(net.comps[n].neighbors)
            mine = gains.get((n, nbs[0]), [])
            for j, g in enumerate(mine):
                if any(len(vals.get((m, n), [])) <= j for m in nbs) or len(vals.get((n, nbs[0]), [])) <= j:
                    continue
                view = {m: vals[(m, n)][j] for m in nbs}
                own = vals[(n, nbs[0])][j]
                a = dict(view)
                a[n] = own
                for o in names:     # variables that are not neighbours do not enter n's local cost
                    a.setdefault(o, net.comps[o].current_value)
                cur = local_cost(n, own, a, tabs, varcost)
                alts = [local_cost(n, d, a, tabs, varcost) for d in variables[n].domain]
                best = smin(alts) if mode == "min" else smax(alts)
                for tag in ("C03", "C04"):
                    env.prove("mgm.%s.announced-gain-is-the-best-unilateral-improvement-against-the-neighbours-values-of-that-cycle" % tag,
                              Or(eq(g, cur - best), eq(g, best - cur)),     # either sign convention
                              detail=lambda: dict(variable=n, phase=j + 1, own_value=own, neighbours=view, announced=g,
                                                                      current_local_cost=cur, best_local_cost=best, mode=mode))
    F = [global_cost(a, tabs, varcost, variables) for a in A]
    for c in range(len(A) - 1):
        # ---- C03
        movers = [n for n in names if A[c][n] != A[c + 1][n]]
        coordinated = []
        for a, b in itertools.combinations(movers, 2):
            share = any(a in [v.name for v in t.variables] and b in [v.name for v in t.variables] for t in tabs)
            # cycle counter is c+1 while the decisions leading from A[c] to A[c+1] are taken
            ia, ib = net.move_info.get((a, c + 1), (False, None)), net.move_info.get((b, c + 1), (False, None))
            partners = algo == "mgm2" and ia == (True, b) and ib == (True, a)
            if partners:
                coordinated.append((a, b))
            env.prove("%s.C03.no-two-constraint-sharing-variables-move-in-one-cycle-unless-coordinated-partners" % algo,
                      (not share) or partners, detail=lambda: dict(before=A[c], after=A[c + 1], info=(ia, ib)))
        if algo == "mgm2":
            # a coordinated move may change the value of one partner only
            for a in movers:
                com, pt = net.move_info.get((a, c + 1), (False, None))
                if com and pt is not None and tuple(sorted((a, pt))) not in [tuple(sorted(x)) for x in coordinated]:
                    coordinated.append((a, pt))
        det = lambda: dict(before=A[c], after=A[c + 1], F_before=F[c], F_after=F[c + 1], mode=mode, coordinated=coordinated)  # noqa
        if not coordinated:
            env.prove("%s.C03.global-cost-never-worse-between-cycles[unilateral-moves]" % algo, not_worse(mode, F[c + 1], F[c]), detail=det)
        else:
            # cost, before the move, of the constraints shared by the two partners of a coordinated move
            shared_zero = And(*[eq(sum_shared(a, b, A[c], tabs), 0) for a, b in coordinated])
            env.prove("%s.C03.global-cost-never-worse-between-cycles[coordinated-move,shared-constraints-cost-zero]" % algo,
                      Implies(shared_zero, not_worse(mode, F[c + 1], F[c])), detail=det)
            env.prove("%s.C03.global-cost-never-worse-between-cycles[coordinated-move,shared-constraints-cost-nonzero]" % algo,
                      Implies(Not(shared_zero), not_worse(mode, F[c + 1], F[c])), detail=det)
        # ---- C04
        if not movers:
            env.cover("stagnation")
            # (MGM2) did a committed pair tie with the gain of a neighbour outside the pair in this cycle ?
            tie = False
            for n in active:
                gi = net.gain_info.get((n, c + 1))
                if gi and gi["committed"]:
                    for o, g in gi["others"].items():
                        if o != gi["partner"]:
                            tie = Or(tie, eq(g, gi["gain"]))
            for n in active:
                cur = local_cost(n, A[c][n], A[c], tabs, varcost)
                for d in variables[n].domain:
                    if d == A[c][n]:
                        continue
                    alt = local_cost(n, d, A[c], tabs, varcost)
                    det4 = lambda: dict(assignment=A[c], variable=n, better_value=d, mode=mode)  # noqa
                    if tie is False:
                        env.prove("%s.C04.no-move-implies-no-unilateral-improvement" % algo, Not(strictly_better(mode, alt, cur)), detail=det4)
                    else:
                        env.prove("%s.C04.no-move-implies-no-unilateral-improvement" % algo,
                                  Implies(Not(tie), Not(strictly_better(mode, alt, cur))), detail=det4)
                        env.prove("%s.C04.no-move-implies-no-unilateral-improvement[committed-pair-gain-tied-with-outside-neighbour]" % algo,
                                  Implies(tie, Not(strictly_better(mode, alt, cur))), detail=det4)


def sum_shared(a, b, asg, tabs):
    tot = 0
    for t in tabs:
        ns = [v.name for v in t.variables]
        if a in ns and b in ns:
            tot = tot + t(**{v.name: asg[v.name] for v in t.variables})
    return tot


def _shapes_mgm(tier, prop=None):
    if prop == "C10" and tier == "quick":
        return [dict(spec="iso", stop_cycle=2), dict(spec="chain3", stop_cycle=2), dict(spec="pair_cost", stop_cycle=2)]
    s = [
        dict(spec="chain3", stop_cycle=2),
        dict(spec="chain3", stop_cycle=3, modes=["min"], budget_hint="deep"),
        dict(spec="pair_cost", stop_cycle=2),
        dict(spec="pair3", stop_cycle=2),
        dict(spec="tri_nary", stop_cycle=2),
        dict(spec="iso", stop_cycle=2),
        dict(spec="chain3", stop_cycle=2, start_order="rev", policy="lifo", interleave_start=True),
        dict(spec="triangle", stop_cycle=2, policy="random", sched_seed=1),
        dict(spec="overlap", stop_cycle=2, modes=["min"]),
        dict(spec="chain3", stop_cycle=3, modes=["min"], policy="favor:x1"),
        dict(spec="chain3", stop_cycle=3, modes=["max"], policy="starve:x3"),
        dict(spec="double_pair", stop_cycle=2, modes=["max"]),
        # every allowed value of the algorithm's own parameters
        dict(spec="pair2", stop_cycle=2, algo_params=dict(break_mode="random")),
        dict(spec="chain3", stop_cycle=2, modes=["min"], algo_params=dict(break_mode="random")),
    ]
    s += [dict(spec="chain3", stop_cycle=2, modes=["min"], warm_up=True), dict(spec="triangle", stop_cycle=2, modes=["max"], warm_up=True)]
    s += [dict(spec="iso_unary", stop_cycle=2)]
    # equal domains: the values of two different neighbours can be confused (value-keyed caches), needs the neighbours'
    # messages to arrive in another order than in an earlier cycle
    s += [dict(spec="chain3_free", stop_cycle=3, modes=["min"], policy="random", sched_seed=i, search_paths=6000) for i in (1, 2)]
    s += [dict(spec="rand5", same_dom=True, max_dom=2, unary=False, stop_cycle=5, sample_only=True, sample_factor=6, sample_part=4 + i,
               policy="random", sched_seed=i) for i in range(3)]
    # 4-6 variables, more cycles: decided by the sampled native pass only
    s += [dict(spec="rand4", stop_cycle=4, sample_only=True, sample_factor=4, sample_part=0, policy="random", sched_seed=1),
          dict(spec="rand5", stop_cycle=4, sample_only=True, sample_factor=4, sample_part=1, nary=True),
          dict(spec="rand5", stop_cycle=3, sample_only=True, sample_factor=4, sample_part=2, algo_params=dict(break_mode="random"), policy="lifo", interleave_start=True),
          dict(spec="rand6", stop_cycle=3, sample_only=True, sample_factor=3, sample_part=3, connected=False, policy="random", sched_seed=2, start_order="rev")]
    if tier == "thorough" and prop != "C10":
        s += [
            dict(spec="chain3", stop_cycle=2, modes=["max"], algo_params=dict(break_mode="random")),
            dict(spec="pair_cost", stop_cycle=2, algo_params=dict(break_mode="random")),
            dict(spec="chain3_free", stop_cycle=2),
            dict(spec="star_cost", stop_cycle=2),
            dict(spec="triangle", stop_cycle=3, modes=["min"]),
            dict(spec="chain3", stop_cycle=3, modes=["max"]),
            dict(spec="pair_cost", stop_cycle=3),
            dict(spec="pair3", stop_cycle=1),
        ] + [dict(spec="chain3", stop_cycle=2, policy="random", sched_seed=i, interleave_start=bool(i % 2)) for i in range(2, 8)] \
          + [dict(spec="pair_cost", stop_cycle=2, policy="explore")]
    return s


Contract(
    "mgm.cycles", ["C03", "C04", "C07", "C10"],
    ["pydcop.algorithms.mgm:MgmComputation.on_start", "pydcop.algorithms.mgm:MgmComputation._on_value_msg",
     "pydcop.algorithms.mgm:MgmComputation._handle_value_message", "pydcop.algorithms.mgm:MgmComputation._compute_best_value",
     "pydcop.algorithms.mgm:MgmComputation._on_gain_msg", "pydcop.algorithms.mgm:MgmComputation._handle_gain_message",
     "pydcop.algorithms.mgm:MgmComputation._break_ties", "pydcop.algorithms.mgm:MgmComputation._send_value",
     "pydcop.algorithms.mgm:MgmComputation._send_gain", "pydcop.algorithms.mgm:MgmComputation._wait_for_values",
     "pydcop.algorithms.mgm:MgmComputation._wait_for_gains",
     "pydcop.infrastructure.computations:VariableComputation.value_selection"],
    h_mgm_cycles, _shapes_mgm, mode="B", must_cover=["ran"],
    trusted=["random.choice / random.random modelled as explored choice / fresh real in [0,1)",
             "router: per-channel FIFO delivery, one computation per agent (DESIGN.md 4)"],
    assumptions=["MGM: schedules explored = canonical orders + seeded random orders (+ exhaustive on the 2-node shape in the thorough tier), not all interleavings of the larger shapes"],
    budget=dict(quick=dict(max_paths=30000, timeout_s=400), thorough=dict(max_paths=400000, timeout_s=3000)),
    desc="composite of real MgmComputation objects: cost monotone between cycles, movers independent, stagnation => 1-opt, finishes after stop_cycle cycles, values in domain",
)


def _subsets(names):
    out = []
    for r in range(len(names) + 1):
        out += [list(c) for c in itertools.combinations(names, r)]
    return out


SPECS["pair2"] = dict(vars={"x1": ([0, 1], "plain", 0), "x2": ([0, 1], "plain", 1)}, cons=[["x1", "x2"]])


def _shapes_mgm2(tier, prop=None):
    if prop == "C10" and tier == "quick":
        return [dict(algo="mgm2", spec="iso", stop_cycle=2, offerers=[]), dict(algo="mgm2", spec="pair2", stop_cycle=2, offerers=["x1"]),
                dict(algo="mgm2", spec="chain3", stop_cycle=2, modes=["min"], offerers=["x2"])]
    q = []
    for off in _subsets(["x1", "x2"]):
        q.append(dict(algo="mgm2", spec="pair2", stop_cycle=2, offerers=off))
    q.append(dict(algo="mgm2", spec="pair2", stop_cycle=2))  # random offerer draw explored symbolically
    q.append(dict(algo="mgm2", spec="chain3", stop_cycle=2, modes=["min"], offerers=["x2"], warm_up=True))
    # every allowed value of the algorithm's own parameters (favor: how a tie between the coordinated and the unilateral gain is settled)
    for fav in ("coordinated", "no"):
        q.append(dict(algo="mgm2", spec="pair2", stop_cycle=2, offerers=["x1"], algo_params=dict(favor=fav)))
        q.append(dict(algo="mgm2", spec="pair2", stop_cycle=2, offerers=["x2"], modes=["max"], algo_params=dict(favor=fav)))
    q.append(dict(algo="mgm2", spec="chain3", stop_cycle=2, modes=["max"], offerers=["x2"], algo_params=dict(favor="coordinated")))
    # two decision phases with the roles changing (or not) between them; one computation running ahead
    # (too many symbolic paths for three nodes: these shapes are decided by the sampled native pass, 8x the usual number of runs)
    for roles in ([["x2", "x3"], ["x3"]], [["x1"], ["x1", "x3"]]):
        q.append(dict(algo="mgm2", spec="chain3", stop_cycle=3, offerers_by_cycle=roles, sample_only=True, sample_factor=4))
    q.append(dict(algo="mgm2", spec="chain3", stop_cycle=3, modes=["min"], offerers_by_cycle=[["x2"], ["x2"]], policy="favor:x1", sample_only=True, sample_factor=4))
    q.append(dict(algo="mgm2", spec="pair2", stop_cycle=3, offerers_by_cycle=[["x1"], ["x1"]]))
    # bounded symbolic search (first 12000 paths, no exhaustiveness claimed) of two three-cycle role schedules
    q.append(dict(algo="mgm2", spec="chain3", stop_cycle=3, modes=["min"], offerers_by_cycle=[["x1", "x2"], ["x1"]], search_paths=12000))
    q.append(dict(algo="mgm2", spec="chain3", stop_cycle=3, modes=["min"], offerers_by_cycle=[["x2"], ["x2"]], search_paths=8000))
    q.append(dict(algo="mgm2", spec="pair_cost", stop_cycle=2, offerers=["x1"]))
    for off in ([], ["x2"], ["x1"]):
        q.append(dict(algo="mgm2", spec="chain3", stop_cycle=2, modes=["min"], offerers=off))
    for off in ([], ["x2"]):
        q.append(dict(algo="mgm2", spec="chain3", stop_cycle=2, modes=["max"], offerers=off))
    for off in ([], ["x1"]):
        q.append(dict(algo="mgm2", spec="tri_nary", stop_cycle=2, modes=["min"], offerers=off))
    q.append(dict(algo="mgm2", spec="iso", stop_cycle=2, offerers=[]))
    q.append(dict(algo="mgm2", spec="iso_unary", stop_cycle=2, offerers=[]))
    q.append(dict(algo="mgm2", spec="double_pair", stop_cycle=2, modes=["min"], offerers=["x1"]))
    q.append(dict(algo="mgm2", spec="overlap", stop_cycle=2, modes=["min"], offerers=[]))
    q.append(dict(algo="mgm2", spec="chain3", stop_cycle=2, modes=["min"], offerers=["x3"], start_order="rev", policy="lifo", interleave_start=True))
    if tier != "thorough" or prop == "C10":
        # (C10 - values in the domain - is served by many contracts: its thorough tier keeps the quick list of this one)
        return q
    s = list(q)

    def add(d):
        if d not in s:
            s.append(d)
    # (the shapes where one computation receives two offers - chain3 with offerers x1 and x3, triangle - run into
    # hundreds of thousands of paths and are left out: stated in the assumptions)
    for off in ([], ["x1"], ["x2"], ["x3"], ["x1", "x2"], ["x2", "x3"], ["x1", "x2", "x3"]):
        add(dict(algo="mgm2", spec="chain3", stop_cycle=2, modes=["min"], offerers=off))
        if off in ([], ["x2"], ["x1", "x2", "x3"]):
            add(dict(algo="mgm2", spec="chain3", stop_cycle=2, modes=["max"], offerers=off))
    for off in ([], ["x1"], ["x2"], ["x3"]):
        add(dict(algo="mgm2", spec="star_cost", stop_cycle=2, modes=["min"], offerers=off))
        add(dict(algo="mgm2", spec="tri_nary", stop_cycle=2, modes=["max"], offerers=off))
    add(dict(algo="mgm2", spec="tri_nary", stop_cycle=2, modes=["min"], offerers=["x2", "x3"]))
    for off in _subsets(["x1", "x2"]):
        add(dict(algo="mgm2", spec="pair3", stop_cycle=2, offerers=off))
        add(dict(algo="mgm2", spec="pair_cost", stop_cycle=2, offerers=off))
        add(dict(algo="mgm2", spec="pair2", stop_cycle=3, offerers=off))
        add(dict(algo="mgm2", spec="pair2", stop_cycle=2, offerers=off, algo_params=dict(favor="coordinated")))
        add(dict(algo="mgm2", spec="pair2", stop_cycle=2, offerers=off, algo_params=dict(favor="no")))
    add(dict(algo="mgm2", spec="iso", stop_cycle=2, offerers=["x1"]))
    for i in range(2, 6):
        add(dict(algo="mgm2", spec="chain3", stop_cycle=2, modes=["min"], offerers=["x2"], policy="random", sched_seed=i, interleave_start=bool(i % 2)))
    for roles in ([["x1", "x2"], ["x1"]], [["x2"], ["x2"]]):
        add(dict(algo="mgm2", spec="chain3", stop_cycle=3, modes=["min"], offerers_by_cycle=roles, search_paths=60000))
    return s


Contract(
    "mgm2.cycles", ["C03", "C04", "C07", "C10"],
    ["pydcop.algorithms.mgm2:Mgm2Computation.on_start", "pydcop.algorithms.mgm2:Mgm2Computation.on_value_msg",
     "pydcop.algorithms.mgm2:Mgm2Computation._handle_value_messages", "pydcop.algorithms.mgm2:Mgm2Computation._compute_best_value",
     "pydcop.algorithms.mgm2:Mgm2Computation._compute_offers_to_send", "pydcop.algorithms.mgm2:Mgm2Computation._find_best_offer",
     "pydcop.algorithms.mgm2:Mgm2Computation.on_offer_msg", "pydcop.algorithms.mgm2:Mgm2Computation._handle_offer_messages",
     "pydcop.algorithms.mgm2:Mgm2Computation.on_answer_msg", "pydcop.algorithms.mgm2:Mgm2Computation._handle_response_message",
     "pydcop.algorithms.mgm2:Mgm2Computation.on_gain_msg", "pydcop.algorithms.mgm2:Mgm2Computation._handle_gain_messages",
     "pydcop.algorithms.mgm2:Mgm2Computation.on_go_msg", "pydcop.algorithms.mgm2:Mgm2Computation._handle_go_message",
     "pydcop.algorithms.mgm2:Mgm2Computation._enter_state", "pydcop.algorithms.mgm2:Mgm2Computation._send_value",
     "pydcop.algorithms.mgm2:Mgm2Computation._current_local_cost", "pydcop.algorithms.mgm2:Mgm2Computation._compute_cost"],
    h_mgm_cycles, _shapes_mgm2, mode="B", must_cover=["ran"],
    trusted=["random.choice / random.uniform modelled as explored choice / fresh real in the interval",
             "router: per-channel FIFO delivery, one computation per agent (DESIGN.md 4)"],
    assumptions=["MGM2: schedules explored = canonical orders + seeded random orders, not all interleavings",
                 "MGM2: the random offerer draw is enumerated as fixed role assignments (every subset of computations as offerers, one job each) on the 3-node shapes; explored as a symbolic draw on the 2-node shape"],
    budget=dict(quick=dict(max_paths=40000, timeout_s=450), thorough=dict(max_paths=400000, timeout_s=3000)),
    desc="composite of real Mgm2Computation objects: same cycle-boundary postconditions as MGM; two constraint-sharing movers only as committed partners",
)
