"""Repair DCOP construction (C26) and replica placement (C25).

C26  pydcop.reparation.create_*_constraint  and  pydcop.reparation.removal._removal_*
     * the four repair constraints are evaluated through the real relation call paths
       (kwargs / dict / list / assignment_cost, the one MGM2 uses) on ALL binary
       assignments of their scope; footprints, hosting costs, communication costs and
       the remaining capacity are universally quantified reals (B-mode)
     * the candidate information is computed by the real functions on a real Discovery
       object filled with enumerated states, for every departed subset (E-mode)
     * repair.dcop_of_agent chains both: info from the real removal functions -> the
       variables/constraints built the way ResilientAgent.setup_repair builds them ->
       value of the whole local repair problem against the repair rules of the statement

C25  pydcop.replication.dist_ucs_hostingcosts.UCSReplication
     * acceptance rule (_visit_path on a __hosting__ node -> _can_host/_max_footprint/
       _remaining_capacity/_accept_replica, remove_replica): sequences of <= 3
       offer/remove operations over one or two replication objects living in the same
       process (the memo table UCSReplication.memoize_footprint is a class attribute),
       symbolic footprints and capacities (B-mode)
     * bounded runs of the real request/answer protocol over an in-memory FIFO router
       (E-mode, concrete costs, a few schedules): replication_done reported by every
       agent, replicas on distinct agents other than the owner, at most k, recorded in
       discovery.  Termination for ALL deployments/schedules is NOT proved (see desc).

Postconditions are taken from the property statements; shapes and frames from the code
and its call sites (orchestrator._agents_removal, ResilientAgent.setup_repair).

Frame obligations (labels ``*.frame.*``): the builders and the removal functions read what they are handed - the table of
binary variables, the candidate-information triple, the assignment a constraint is evaluated on, the departed / orphaned
lists, discovery and the computation graph (observed through their public queries) - and what they return is the
receiver's (editing it reaches neither the inputs nor a later answer); the same table / information serves a second
constraint, a second build.  C25: an offer / removal leaves the agent definition, the active footprints, the other agent's
discovery and the entries of the other held replicas alone (the paths table and the hosts list ARE updated in place by
design); a whole search leaves the agent definitions and the deployment tables alone."""
import itertools
import random as _pyrandom
from collections import OrderedDict, deque

from pvc.contract import Contract
from pvc.explore import Raised
from pvc.sym import (And, Or, Not, Implies, Iff, eq, lt, le, ite, smin, smax, ssum, is_sym)



def _warm():
    """import the heavy repo modules once in the parent of the forked workers (1-2 s each time otherwise);
    failures are left to the harnesses, where they become obligations"""
    import sys
    if not any(a in ("C25", "C26", "replay") for a in sys.argv):
        return
    for m in ("pydcop.infrastructure.discovery", "pydcop.reparation", "pydcop.reparation.removal",
              "pydcop.replication.dist_ucs_hostingcosts", "pydcop.algorithms.dsa"):
        try:
            __import__(m)
        except BaseException:  # noqa
            pass


_warm()

# names are neither sorted nor aligned with their index
AGENTS = ["a2", "a5", "a1", "a4", "a3", "a6"]
COMPS = ["c3", "c1", "c2", "c6", "c4", "c5"]
PENALTY = 10000   # "return an 'high enough' (10 000) value when it is not satisfied" (docstrings of reparation/__init__.py)
# '-reordered': the same assignment with its keys in another order than the constraint's scope (MGM evaluates its constraints on
# the dict of its neighbours' values, whose order is the arrival order of their messages)
FORMS = ["kwargs", "assignment_cost", "dict", "list", "kwargs-reordered", "dict-reordered"]


def _bits(n):
    return list(itertools.product([0, 1], repeat=n))


def _evaluate(env, c, asg, form, noise=None):
    """value of constraint c on the assignment {var name: 0/1} of its scope, through one of
    the real call paths; ``noise``: values of variables outside the scope (assignment_cost
    filters them, this is how MGM2 evaluates its constraints)"""
    from pydcop.dcop import relations as R
    scope = {v.name: asg[v.name] for v in c.dimensions}
    if form in ("kwargs-reordered", "dict-reordered"):
        items = list(scope.items())
        items = items[1::2] + items[0::2][::-1]        # a permutation that is neither the scope order nor its reverse
        scope = dict(items)
        form = form.split("-")[0]
    if form == "kwargs":
        return env.call(lambda: c(**scope))
    if form == "dict":
        given = dict(scope)
        r = env.call(c.get_value_for_assignment, given)
        _assignment_kept(env, form, given, dict(scope))
        return r
    if form == "list":
        given = [asg[v.name] for v in c.dimensions]
        r = env.call(c.get_value_for_assignment, given)
        _assignment_kept(env, form, given, [asg[v.name] for v in c.dimensions])
        return r
    if form == "assignment_cost":
        full = dict(noise or {})
        full.update(asg)
        given, cs = dict(full), [c]
        r = env.call(R.assignment_cost, given, cs)
        _assignment_kept(env, form, given, full)
        env.prove("repair.frame.constraint-list-handed-to-assignment_cost-unchanged", len(cs) == 1 and cs[0] is c, detail=lambda: cs)
        return r
    raise ValueError(form)


def _assignment_kept(env, form, given, expected):
    """frame: evaluating a repair constraint does not write into the assignment the caller handed in (MGM2 evaluates all its
    constraints on one and the same assignment dict); the values are the plain 0/1 the harness put there"""
    same = type(given) is type(expected) and len(given) == len(expected) and (
        all(k in given and given[k] is expected[k] for k in expected) if isinstance(expected, dict)
        else all(x is y for x, y in zip(given, expected)))
    env.prove("repair.frame.assignment-handed-to-the-constraint-unchanged[%s]" % form, same, detail=lambda: dict(handed=expected, after=given))


def _table(d):
    """observational snapshot of a dict of objects: keys in order, values by identity"""
    return [(k, id(v)) for k, v in d.items()]


def _deep(x):
    """structural copy of candidate information (tuples / lists / dicts / sets of names)"""
    if isinstance(x, dict):
        return {k: _deep(v) for k, v in x.items()}
    if isinstance(x, (list, tuple)):
        return type(x)(_deep(v) for v in x)
    if isinstance(x, (set, frozenset)):
        return frozenset(x)
    return x


def _scope_names(c):
    return [v.name for v in c.dimensions]


# =====================================================================================
# C26 - the four repair constraints
# =====================================================================================

def h_hosted(env):
    import pydcop.reparation as REP
    from pydcop.dcop.objects import create_binary_variables
    p = env.params
    n = p["n"]
    comp = "c3"
    agts = AGENTS[:n]
    bv = create_binary_variables("B", ([comp], agts))      # as ResilientAgent.setup_repair
    bv_before = _table(bv)
    c = env.call(REP.create_computation_hosted_constraint, comp, bv)
    if isinstance(c, Raised):
        env.prove("hosted.constraint-is-built", False, detail=lambda: c.tb)
        return
    env.prove("hosted.scope-is-one-variable-per-candidate-agent",
              sorted(_scope_names(c)) == sorted(v.name for v in bv.values()), detail=lambda: _scope_names(c))
    form = env.choice("form", FORMS)
    noise = {"Bc9_a9": 1}
    for bits in _bits(n):
        asg = {bv[(comp, a)].name: b for a, b in zip(agts, bits)}
        got = _evaluate(env, c, asg, form, noise)
        if isinstance(got, Raised):
            env.prove("hosted.evaluates[%s]" % form, False, detail=lambda: (asg, got.tb))
            return
        env.cover("post")
        exactly_one = sum(bits) == 1
        env.prove("hosted.zero-iff-exactly-one-candidate-hosts", Iff(eq(got, 0), exactly_one),
                  detail=lambda: dict(assignment=asg, value=got, form=form))
        if not exactly_one:
            env.prove("hosted.unhosted-or-multiply-hosted-scores-the-hard-penalty", eq(got, PENALTY),
                      detail=lambda: dict(assignment=asg, value=got, form=form))
    # frame: the table of binary variables is the caller's (setup_repair keeps filling / reading it); a second constraint
    # built from the same table answers to the same rule, and the first one still does
    env.prove("hosted.frame.binary-variable-table-unchanged", _table(bv) == bv_before, detail=lambda: (bv_before, _table(bv)))
    c2 = env.call(REP.create_computation_hosted_constraint, comp, bv)
    for cc, which in ((c2, "second-constraint-from-the-same-table"), (c, "first-constraint-after-the-second-was-built")):
        for bits in ([0] * n, [1] + [0] * (n - 1), [1] * n):
            asg = {bv[(comp, a)].name: b for a, b in zip(agts, bits)}
            got = cc if isinstance(cc, Raised) else _evaluate(env, cc, asg, form, noise)
            env.prove("hosted.frame.%s-follows-the-same-rule" % which,
                      (not isinstance(got, Raised)) and eq(got, 0 if sum(bits) == 1 else PENALTY),
                      detail=lambda: dict(assignment=asg, value=got, form=form))
    env.prove("hosted.frame.binary-variable-table-unchanged", _table(bv) == bv_before, detail=lambda: (bv_before, _table(bv)))


Contract(
    "repair.hosted_constraint", ["C26"], ["pydcop.reparation:create_computation_hosted_constraint"],
    h_hosted,
    lambda tier: [dict(n=n) for n in ((1, 2, 3, 4, 5) if tier == "quick" else (1, 2, 3, 4, 5, 6))],   # AGENTS has 6 names
    mode="E", must_cover=["post"],
    desc="hosted constraint of a computation with n candidate agents: 0 iff exactly one binary variable is 1, else the 10000 penalty; "
         "all 2^n assignments, 4 call paths",
)


def h_capacity(env):
    import pydcop.reparation as REP
    from pydcop.dcop.objects import create_binary_variables
    p = env.params
    n = p["n"]
    own = "a2"
    comps = COMPS[:n]
    # candidate_binvars of setup_repair: {(comp, own): the variable x_comp^own}
    bv = OrderedDict()
    for cn in comps:
        bv[(cn, own)] = create_binary_variables("B", ([cn], [own, "a5"]))[(cn, own)]
    fp = {cn: env.real("footprint_" + cn) for cn in comps}
    remaining = env.real("remaining_capacity")
    asked = []

    def footprint_func(c_name):
        asked.append(c_name)
        return fp[c_name]

    bv_before = _table(bv)
    c = env.call(REP.create_agent_capacity_constraint, own, remaining, footprint_func, bv)
    if isinstance(c, Raised):
        env.prove("capacity.constraint-is-built", False, detail=lambda: c.tb)
        return
    env.prove("capacity.scope-is-one-variable-per-candidate-computation",
              sorted(_scope_names(c)) == sorted(v.name for v in bv.values()), detail=lambda: _scope_names(c))
    form = env.choice("form", FORMS)
    bits = env.choice("assignment", _bits(n))
    asg = {bv[(cn, own)].name: b for cn, b in zip(comps, bits)}
    got = _evaluate(env, c, asg, form, {"Bc9_a9": 1})
    if isinstance(got, Raised):
        env.prove("capacity.evaluates[%s]" % form, False, detail=lambda: (asg, got.tb))
        return
    env.cover("post")
    selected = ssum([fp[cn] for cn, b in zip(comps, bits) if b == 1])
    fits = le(selected, remaining)
    d = lambda: dict(assignment=asg, value=got, footprints=fp, remaining=remaining, form=form)  # noqa
    env.prove("capacity.zero-iff-selected-footprints-fit-the-remaining-capacity", Iff(eq(got, 0), fits), detail=d)
    env.prove("capacity.overflow-scores-the-hard-penalty", Implies(Not(fits), eq(got, PENALTY)), detail=d)
    # frame: table of binary variables unchanged; the hosting constraint of the same agent is built from the same table (setup_repair) and the
    # capacity constraint asked again on the same assignment gives the same value
    env.prove("capacity.frame.binary-variable-table-unchanged", _table(bv) == bv_before, detail=lambda: (bv_before, _table(bv)))
    other = env.call(REP.create_agent_hosting_constraint, own, footprint_func, bv)
    if not isinstance(other, Raised):
        _evaluate(env, other, asg, form, {"Bc9_a9": 1})
    again = _evaluate(env, c, asg, form, {"Bc9_a9": 1})
    env.prove("capacity.frame.same-value-when-asked-again-after-another-constraint-used-the-same-table",
              (not isinstance(again, Raised)) and eq(again, got), detail=lambda: dict(d(), again=again))
    env.prove("capacity.frame.binary-variable-table-unchanged", _table(bv) == bv_before, detail=lambda: (bv_before, _table(bv)))


Contract(
    "repair.capacity_constraint", ["C26"], ["pydcop.reparation:create_agent_capacity_constraint"],
    h_capacity,
    lambda tier: [dict(n=n) for n in ((1, 2, 3, 4) if tier == "quick" else (1, 2, 3, 4, 5))],
    mode="B", must_cover=["post"],
    desc="capacity constraint of an agent with n candidate computations: 0 iff sum of the selected footprints <= remaining capacity "
         "(footprints, capacity: any reals), else the 10000 penalty; all 2^n assignments, 4 call paths",
)


def h_hosting(env):
    import pydcop.reparation as REP
    from pydcop.dcop.objects import create_binary_variables
    p = env.params
    n = p["n"]
    own = "a2"
    comps = COMPS[:n]
    bv = OrderedDict()
    for cn in comps:
        bv[(cn, own)] = create_binary_variables("B", ([cn], ["a1", own]))[(cn, own)]
    hc = {cn: env.real("hosting_cost_" + cn) for cn in comps}

    def hosting_func(c_name):
        return hc[c_name]

    bv_before = _table(bv)
    c = env.call(REP.create_agent_hosting_constraint, own, hosting_func, bv)
    if isinstance(c, Raised):
        env.prove("hosting.constraint-is-built", False, detail=lambda: c.tb)
        return
    env.prove("hosting.scope-is-one-variable-per-candidate-computation",
              sorted(_scope_names(c)) == sorted(v.name for v in bv.values()), detail=lambda: _scope_names(c))
    form = env.choice("form", FORMS)
    for bits in _bits(n):
        asg = {bv[(cn, own)].name: b for cn, b in zip(comps, bits)}
        got = _evaluate(env, c, asg, form, {"Bc9_a9": 1})
        if isinstance(got, Raised):
            env.prove("hosting.evaluates[%s]" % form, False, detail=lambda: (asg, got.tb))
            return
        env.cover("post")
        exp = ssum([hc[cn] for cn, b in zip(comps, bits) if b == 1])
        env.prove("hosting.value-is-sum-of-hosting-costs-of-the-selected-computations", eq(got, exp),
                  detail=lambda: dict(assignment=asg, value=got, expected=exp, form=form))
    # frame: table of binary variables unchanged; a second constraint built from the same table follows the same rule (all selected)
    env.prove("hosting.frame.binary-variable-table-unchanged", _table(bv) == bv_before, detail=lambda: (bv_before, _table(bv)))
    c2 = env.call(REP.create_agent_hosting_constraint, own, hosting_func, bv)
    asg = {bv[(cn, own)].name: 1 for cn in comps}
    got = c2 if isinstance(c2, Raised) else _evaluate(env, c2, asg, form, {"Bc9_a9": 1})
    env.prove("hosting.frame.second-constraint-from-the-same-table-follows-the-same-rule",
              (not isinstance(got, Raised)) and eq(got, ssum([hc[cn] for cn in comps])), detail=lambda: dict(assignment=asg, value=got, form=form))
    env.prove("hosting.frame.binary-variable-table-unchanged", _table(bv) == bv_before, detail=lambda: (bv_before, _table(bv)))


Contract(
    "repair.hosting_constraint", ["C26"], ["pydcop.reparation:create_agent_hosting_constraint"],
    h_hosting,
    lambda tier: [dict(n=n) for n in ((1, 2, 3, 4, 5) if tier == "quick" else (1, 2, 3, 4, 5, 6))],
    mode="B", must_cover=["post"],
    desc="hosting constraint of an agent: value = sum over the selected candidate computations of the agent's hosting cost; all 2^n assignments",
)


_COMM_SHAPES = [
    # own agent, candidate computation, its candidate agents, fixed neighbours {comp: host}, candidate neighbours {comp: [agents]}
    dict(own="a2", cand="c3", agts=["a2"], fixed={}, cneigh={}),
    dict(own="a2", cand="c3", agts=["a5", "a2"], fixed={"c1": "a4"}, cneigh={}),
    dict(own="a2", cand="c3", agts=["a5", "a2"], fixed={"c1": "a4", "c6": "a2"}, cneigh={"c2": ["a1", "a2"]}),
    dict(own="a5", cand="c1", agts=["a5"], fixed={}, cneigh={"c2": ["a1", "a5"], "c3": ["a5", "a4"]}),
    dict(own="a5", cand="c1", agts=["a1", "a5"], fixed={"c6": "a1"}, cneigh={"c2": [], "c3": ["a4"]},
         others={"c4": ["a5", "a3"]}),
]
_COMM_SHAPES_T = [
    dict(own="a1", cand="c2", agts=["a1", "a3"], fixed={"c1": "a4", "c6": "a4", "c5": "a1"}, cneigh={"c3": ["a1", "a2", "a3"], "c4": ["a3", "a5"]}),
    dict(own="a1", cand="c2", agts=["a1"], fixed={}, cneigh={"c3": ["a2", "a3"], "c4": ["a3", "a5"], "c1": ["a1", "a4"]}),
]


def _comm_table(env, prefix="comm"):
    tab = {}

    def comm(comp_name, neigh_comp, neigh_agt):
        k = (comp_name, neigh_comp, neigh_agt)
        if k not in tab:
            tab[k] = env.real("%s(%s,%s,%s)" % (prefix, comp_name, neigh_comp, neigh_agt))
        return tab[k]

    return comm, tab


def h_comm(env):
    import pydcop.reparation as REP
    from pydcop.dcop.objects import create_binary_variables
    p = env.params
    own, cand = p["own"], p["cand"]
    # orphaned_binvars of setup_repair
    bv = OrderedDict()
    bv.update(create_binary_variables("B", ([cand], p["agts"])))
    for v, ags in p["cneigh"].items():
        bv.update(create_binary_variables("B", ([v], ags)))
    for v, ags in p.get("others", {}).items():       # variables of other candidate computations of the same agent
        bv.update(create_binary_variables("B", ([v], ags)))
    comm, tab = _comm_table(env)
    info = (list(p["agts"]), dict(p["fixed"]), {v: list(a) for v, a in p["cneigh"].items()})
    bv_before, info_before = _table(bv), _deep(info)
    c = env.call(REP.create_agent_comp_comm_constraint, own, cand, info, comm, bv)
    if isinstance(c, Raised):
        env.prove("comm.constraint-is-built", False, detail=lambda: c.tb)
        return
    env.prove("comm.frame.candidate-info-and-binary-variable-table-unchanged[after-building]", info == info_before and _table(bv) == bv_before,
              detail=lambda: dict(info_before=info_before, info_after=info))
    local = bv[(cand, own)].name
    pairs = [(v, a) for v, ags in p["cneigh"].items() for a in ags]
    needed = [local] + [bv[(v, a)].name for v, a in pairs]
    form = env.choice("form", FORMS)
    if form in ("kwargs", "dict", "list", "kwargs-reordered", "dict-reordered"):
        # these call paths take the values of the constraint's own scope: the scope must carry what the sum needs
        env.prove("comm.scope-has-the-local-variable-and-every-candidate-neighbour-variable",
                  set(needed) <= set(_scope_names(c)), detail=lambda: (_scope_names(c), needed))
    names = [v.name for v in bv.values()]
    free = needed
    rest = [n for n in names if n not in needed]
    for bits in _bits(len(free)):
        asg = {n: 1 for n in rest}
        asg.update(dict(zip(free, bits)))
        for v in c.dimensions:
            asg.setdefault(v.name, 0)
        got = _evaluate(env, c, asg, form, {"Bc9_a9": 1})
        if isinstance(got, Raised):
            env.prove("comm.evaluates[%s]" % form, False, detail=lambda: (asg, got.tb))
            return
        env.cover("post")
        with_fixed = ssum([comm(cand, v, a) for v, a in p["fixed"].items()])
        with_cand = ssum([asg[bv[(v, a)].name] * comm(cand, v, a) for v, a in pairs])
        exp = asg[local] * (with_fixed + with_cand)
        env.prove("comm.value-is-local-hosting-times-sum-of-comm-costs-to-fixed-and-selected-candidate-neighbours",
                  eq(got, exp), detail=lambda: dict(assignment=asg, value=got, expected=exp, form=form))
    # frame: the candidate information (a triple of lists / dicts the agent keeps for the whole repair) and the table of
    # binary variables are read, not written; a second constraint built from the same information follows the same rule
    env.prove("comm.frame.candidate-info-and-binary-variable-table-unchanged[after-evaluating]", info == info_before and _table(bv) == bv_before,
              detail=lambda: dict(info_before=info_before, info_after=info))
    c2 = env.call(REP.create_agent_comp_comm_constraint, own, cand, info, comm, bv)
    asg = {n: 1 for n in names}
    if not isinstance(c2, Raised):
        for v in c2.dimensions:
            asg.setdefault(v.name, 0)
    got = c2 if isinstance(c2, Raised) else _evaluate(env, c2, asg, form, {"Bc9_a9": 1})
    exp = ssum([comm(cand, v, a) for v, a in p["fixed"].items()]) + ssum([comm(cand, v, a) for v, a in pairs])
    env.prove("comm.frame.second-constraint-from-the-same-info-follows-the-same-rule", (not isinstance(got, Raised)) and eq(got, exp),
              detail=lambda: dict(assignment=asg, value=got, expected=exp, form=form))
    env.prove("comm.frame.candidate-info-and-binary-variable-table-unchanged[after-a-second-constraint]",
              info == info_before and _table(bv) == bv_before, detail=lambda: dict(info_before=info_before, info_after=info))


Contract(
    "repair.comm_constraint", ["C26"], ["pydcop.reparation:create_agent_comp_comm_constraint"],
    h_comm,
    lambda tier: _COMM_SHAPES + (_COMM_SHAPES_T if tier == "thorough" else []),
    mode="B", must_cover=["post"],
    desc="communication constraint of (agent, candidate computation): x_local * (sum_fixed comm(c,n,host(n)) + sum_{cand. neighbour n, agent a} x_n^a comm(c,n,a)); "
         "comm is an arbitrary real function; all binary assignments of the scope",
)


# =====================================================================================
# C26 - candidate information computed from discovery
# =====================================================================================

_GRAPHS = {
    # name -> list of links (each a list of computation indexes); hyper-links allowed
    "none": [],
    "chain": [[0, 1], [1, 2], [2, 3], [3, 4], [4, 5]],
    "star": [[0, 1], [0, 2], [0, 3], [0, 4], [0, 5]],
    "complete": [[i, j] for i in range(6) for j in range(i + 1, 6)],
    "hyper": [[0, 1, 2], [2, 3], [3, 4, 5], [1, 4]],
    "grid": [[0, 1], [1, 2], [0, 3], [1, 4], [2, 5], [3, 4], [4, 5]],      # the 3x2 grid of test_reparation_removal
}


def _mk_graph(comps, gname):
    from pydcop.computations_graph.objects import Link, ComputationGraph, ComputationNode
    n = len(comps)
    links = [Link([comps[i] for i in l]) for l in _GRAPHS[gname] if all(i < n for i in l)]
    nodes = [ComputationNode(cn, "test", links=[l for l in links if l.has_node(cn)]) for cn in comps]
    nbrs = {cn: set() for cn in comps}
    for l in _GRAPHS[gname]:
        if all(i < n for i in l):
            for i in l:
                for j in l:
                    if i != j:
                        nbrs[comps[i]].add(comps[j])
    return ComputationGraph("test", nodes=nodes), nbrs


def _mk_discovery(agents, hosting, replicas):
    """the orchestrator's Discovery filled through its real registration API"""
    from pydcop.infrastructure.discovery import Discovery
    d = Discovery("orchestrator", "addr_orchestrator")
    for a in agents:
        d.register_agent(a, "addr_" + a, publish=False)
        # technical computations every agent hosts: never orphaned, never candidates
        d.register_computation("_mgt_" + a, a, publish=False)
        d.register_computation("_replication_" + a, a, publish=False)
    for cn, a in hosting.items():
        d.register_computation(cn, a, publish=False)
    for cn, ags in replicas.items():
        for a in ags:
            d.register_replica(cn, a, publish=False)
    return d


def _no_dup(xs):
    xs = list(xs)
    return len(xs) == len(set(xs))


def _observe_deployment(d, cg, agents, comps):
    """what the removal functions are handed, as a caller reads it: discovery (host and replica holders of every
    computation, computations of every agent) and the computation graph (neighbours and links of every computation)"""
    return dict(
        agents=sorted(d.agents()),
        host={c: d.computation_agent(c) for c in comps},
        replicas={c: frozenset(d.replica_agents(c)) for c in comps},
        hosted={a: sorted(d.agent_computations(a)) for a in agents},
        nodes=[n.name for n in cg.nodes],
        neighbours={c: sorted(cg.neighbors(c)) for c in comps},
        links={c: sorted(sorted(l.nodes) for l in cg.links_for_node(c)) for c in comps})


def _check_removal_case(env, RM, d, cg, agents, hosting, replicas, nbrs, departed, pristine=None):
    """all the obligations of one (discovery state, departed list); returns False when one failed.
    ``pristine``: _observe_deployment of (d, cg) as built, for the frame obligations"""
    comps_all = list(hosting)
    if pristine is None:
        pristine = _observe_deployment(d, cg, agents, comps_all)
    handed = []     # (function, the list argument handed in, its expected content)
    ok = _check_removal_case_(env, RM, d, cg, agents, hosting, replicas, nbrs, departed, handed)
    # frame: the removal functions compute information FROM the departed list, the orphaned list, discovery and the graph; the
    # orchestrator hands the same objects to every function and for every candidate agent (_agents_removal)
    bad = [(fn, got, exp) for fn, got, exp in handed if got != exp]
    ok &= env.prove("removal.frame.list-arguments-unchanged", not bad, detail=lambda: bad[:3])
    now = _observe_deployment(d, cg, agents, comps_all)
    ok &= env.prove("removal.frame.discovery-and-computation-graph-unchanged", now == pristine,
                    detail=lambda: dict(departed=list(departed), before=pristine, after=now))
    return ok


def _scribble_info(r):
    """use a returned candidate-info triple the way its receiver may: edit the lists / dicts"""
    try:
        agts, fixed, cands = r
        if isinstance(agts, list):
            agts.append("zz_agent")
        if isinstance(fixed, dict):
            fixed["zz_comp"] = "zz_agent"
        if isinstance(cands, dict):
            for v in cands.values():
                if isinstance(v, list):
                    v.append("zz_agent")
            cands["zz_comp"] = ["zz_agent"]
    except Exception:  # noqa
        pass


def _check_removal_case_(env, RM, d, cg, agents, hosting, replicas, nbrs, departed, handed):
    dep = set(departed)
    survivors = [a for a in agents if a not in dep]
    orphaned = {cn for cn, a in hosting.items() if a in dep}
    exp_cand_agents = {a for o in orphaned for a in replicas.get(o, ()) if a not in dep}
    state = lambda: dict(hosting=hosting, replicas={k: sorted(v) for k, v in replicas.items()},  # noqa
                         neighbours={k: sorted(v) for k, v in nbrs.items()}, departed=list(departed))
    ok = True

    def arg(fn, xs):
        xs = list(xs)
        handed.append((fn, xs, list(xs)))
        return xs

    r = env.call(RM._removal_orphaned_computations, arg("orphaned_computations", departed), d)
    if isinstance(r, Raised):
        return env.prove("removal.orphaned.no-raise", False, detail=lambda: (state(), r.tb))
    ok &= env.prove("removal.orphaned-are-exactly-the-computations-hosted-on-departed-agents",
                    set(r) == orphaned and _no_dup(r), detail=lambda: (state(), r))
    orphan_list = list(r) if set(r) == orphaned else sorted(orphaned)

    r = env.call(RM._removal_candidate_agents, arg("candidate_agents", departed), d)
    if isinstance(r, Raised):
        return env.prove("removal.candidate-agents.no-raise", False, detail=lambda: (state(), r.tb))
    ok &= env.prove("removal.candidate-agents-are-exactly-the-surviving-holders-of-a-replica-of-an-orphaned-computation",
                    set(r) == exp_cand_agents and _no_dup(r), detail=lambda: (state(), r, sorted(exp_cand_agents)))

    for o in sorted(orphaned):
        r = env.call(RM._removal_candidate_computation_info, o, arg("candidate_computation_info", departed), cg, d)
        ok &= _check_comp_info(env, "removal.computation-info", r, o, dep, orphaned, hosting, replicas, nbrs, state)
        _scribble_info(r)   # the triple is the receiver's: editing it reaches neither discovery / the graph nor a later answer

    for a in survivors + [x for x in departed if x in agents][:1]:
        exp_comps = {o for o in orphaned if a in replicas.get(o, ())}
        r = env.call(RM._removal_candidate_computations_for_agt, a, arg("candidate_computations_for_agt", orphan_list), d)
        if isinstance(r, Raised):
            return env.prove("removal.candidate-computations.no-raise", False, detail=lambda: (state(), a, r.tb))
        ok &= env.prove("removal.candidate-computations-of-an-agent-are-exactly-the-orphaned-computations-it-holds-a-replica-of",
                        set(r) == exp_comps and _no_dup(r), detail=lambda: (state(), a, r, sorted(exp_comps)))
        if a in dep:
            continue
        r = env.call(RM._removal_candidate_agt_info, a, arg("candidate_agt_info", departed), cg, d)
        if isinstance(r, Raised):
            return env.prove("removal.agent-info.no-raise", False, detail=lambda: (state(), a, r.tb))
        ok &= env.prove("removal.agent-info-has-one-entry-per-candidate-computation-of-the-agent",
                        isinstance(r, dict) and set(r) == exp_comps, detail=lambda: (state(), a, r, sorted(exp_comps)))
        if isinstance(r, dict):
            for o in sorted(set(r) & orphaned):
                ok &= _check_comp_info(env, "removal.agent-info", r[o], o, dep, orphaned, hosting, replicas, nbrs, state)
                ok &= env.prove("removal.agent-info.the-agent-is-a-candidate-of-each-of-its-entries",
                                (not isinstance(r[o], Raised)) and a in list(r[o][0]), detail=lambda: (state(), a, o, r[o]))
            for v in r.values():
                _scribble_info(v)
    return ok


def _check_comp_info(env, area, r, o, dep, orphaned, hosting, replicas, nbrs, state):
    if isinstance(r, Raised):
        return env.prove(area + ".no-raise", False, detail=lambda: (state(), o, r.tb))
    good = isinstance(r, tuple) and len(r) == 3
    if not env.prove(area + ".is-a-triple", good, detail=lambda: (state(), o, r)):
        return False
    agts, fixed, cands = r
    ok = True
    exp_agts = {a for a in replicas.get(o, ()) if a not in dep}
    ok &= env.prove(area + ".candidates-are-exactly-the-surviving-agents-holding-a-replica",
                    set(agts) == exp_agts and _no_dup(agts), detail=lambda: (state(), o, agts, sorted(exp_agts)))
    exp_fixed = {n: hosting[n] for n in nbrs[o] if n not in orphaned and n != o}
    ok &= env.prove(area + ".fixed-neighbours-are-the-non-orphaned-neighbours-with-their-host",
                    dict(fixed) == exp_fixed, detail=lambda: (state(), o, fixed, exp_fixed))
    ok &= env.prove(area + ".fixed-neighbours-are-hosted-on-surviving-agents",
                    all(a not in dep for a in dict(fixed).values()), detail=lambda: (state(), o, fixed))
    exp_cn = {n: {a for a in replicas.get(n, ()) if a not in dep} for n in nbrs[o] if n in orphaned and n != o}
    ok &= env.prove(area + ".candidate-neighbours-are-the-orphaned-neighbours-with-their-surviving-replica-holders",
                    set(cands) == set(exp_cn) and all(set(cands[n]) == exp_cn[n] and _no_dup(cands[n]) for n in cands if n in exp_cn),
                    detail=lambda: (state(), o, cands, {k: sorted(v) for k, v in exp_cn.items()}))
    return ok


def _subsets(xs):
    xs = list(xs)
    for r in range(len(xs) + 1):
        for s in itertools.combinations(xs, r):
            yield list(s)


def h_removal_exhaustive(env):
    """every hosting map x every family of replica sets x every departed subset, small sizes"""
    import importlib
    RM = env.call(importlib.import_module, "pydcop.reparation.removal")
    if isinstance(RM, Raised):
        env.prove("removal.module-imports", False, detail=lambda: RM.tb)
        return
    p = env.params
    agents = AGENTS[:p["agents"]]
    comps = COMPS[:p["comps"]]
    maps = list(itertools.product(agents, repeat=len(comps)))
    i, n = p.get("part", (0, 1))
    hmap = env.choice("hosting", maps[i::n])
    hosting = dict(zip(comps, hmap))
    gname = env.choice("graph", p["graphs"])
    cg, nbrs = _mk_graph(comps, gname)
    on_host = p.get("replica_on_host", False)
    per_comp = []
    for cn in comps:
        pool = [a for a in agents if on_host or a != hosting[cn]]
        per_comp.append(list(_subsets(pool)))
    for combo in itertools.product(*per_comp):
        replicas = {cn: set(s) for cn, s in zip(comps, combo)}
        d = _mk_discovery(agents, hosting, replicas)
        pristine = _observe_deployment(d, cg, agents, comps)
        for departed in _subsets(agents):
            env.cover("post")
            if not _check_removal_case(env, RM, d, cg, agents, hosting, replicas, nbrs, departed, pristine):
                return
            if len(departed) == 2:   # the order of the departed list is not part of the result
                if not _check_removal_case(env, RM, d, cg, agents, hosting, replicas, nbrs, departed[::-1], pristine):
                    return


def _removal_ex_shapes(tier):
    out = []
    for part in range(9):
        out.append(dict(agents=3, comps=3, graphs=["chain", "hyper"], part=(part, 9)))
    out.append(dict(agents=2, comps=2, graphs=["chain", "none"], replica_on_host=True))
    out.append(dict(agents=3, comps=2, graphs=["chain"], replica_on_host=True))
    if tier == "thorough":
        for part in range(16):
            out.append(dict(agents=4, comps=3, graphs=["complete"], part=(part, 16)))
        for part in range(16):
            out.append(dict(agents=3, comps=4, graphs=["grid", "star"], part=(part, 16)))
    return out


_REMOVAL_TARGETS = ["pydcop.reparation.removal:_removal_orphaned_computations", "pydcop.reparation.removal:_removal_candidate_agents",
                    "pydcop.reparation.removal:_removal_candidate_computations_for_agt",
                    "pydcop.reparation.removal:_removal_candidate_computation_info", "pydcop.reparation.removal:_removal_candidate_agt_info"]

Contract(
    "repair.removal_info.exhaustive", ["C26"], _REMOVAL_TARGETS, h_removal_exhaustive, _removal_ex_shapes,
    mode="E", must_cover=["post"],
    budget=dict(quick=dict(max_paths=20000, timeout_s=300), thorough=dict(max_paths=400000, timeout_s=3000)),
    assumptions=["removal: every computation of the computation graph is registered (hosted) in discovery; computation names do not "
                 "start with '_' or 'B' (those are pyDCOP's technical / repair computations)"],
    desc="real Discovery + ComputationGraph; ALL hosting maps, ALL replica-set families, ALL departed subsets for 3 agents x 3 computations "
         "(thorough: 4x3, 3x4): orphaned, candidate agents, candidate computations, per-computation and per-agent info",
)


def h_removal_sampled(env):
    """5 agents / 6 computations: seeded pseudo-random states, every departed subset (plus an unknown agent)"""
    import importlib
    RM = env.call(importlib.import_module, "pydcop.reparation.removal")
    if isinstance(RM, Raised):
        env.prove("removal.module-imports", False, detail=lambda: RM.tb)
        return
    p = env.params
    agents = AGENTS[:p["agents"]]
    comps = COMPS[:p["comps"]]
    gname = env.choice("graph", p["graphs"])
    cg, nbrs = _mk_graph(comps, gname)
    rng = _pyrandom.Random(p["seed"] * 7919 + len(gname))
    for it in range(p["states"]):
        used = agents[:rng.randint(1, len(agents))]     # some agents host nothing
        hosting = {cn: rng.choice(used) for cn in comps}
        dens = rng.choice([0.15, 0.4, 0.7])
        replicas = {cn: {a for a in agents if a != hosting[cn] and rng.random() < dens} for cn in comps}
        d = _mk_discovery(agents, hosting, replicas)
        pristine = _observe_deployment(d, cg, agents, comps)
        for departed in _subsets(agents):
            if rng.random() < 0.5:
                departed = departed[::-1]
            env.cover("post")
            if not _check_removal_case(env, RM, d, cg, agents, hosting, replicas, nbrs, departed, pristine):
                return
        # an agent discovery has never heard of leaves together with a known one
        if not _check_removal_case(env, RM, d, cg, agents, hosting, replicas, nbrs, ["a9", agents[0]], pristine):
            return


def _removal_s_shapes(tier):
    k = 8 if tier == "quick" else 32
    st = 40 if tier == "quick" else 150
    out = [dict(agents=5, comps=6, graphs=["grid", "hyper", "complete"], seed=s, states=st) for s in range(k)]
    out += [dict(agents=4, comps=5, graphs=["star", "chain", "none"], seed=100 + s, states=st) for s in range(k // 4)]
    return out


Contract(
    "repair.removal_info.sampled", ["C26"], _REMOVAL_TARGETS, h_removal_sampled, _removal_s_shapes,
    mode="E", must_cover=["post"],
    budget=dict(quick=dict(max_paths=20000, timeout_s=300), thorough=dict(max_paths=400000, timeout_s=3000)),
    assumptions=["removal: every computation of the computation graph is registered (hosted) in discovery; computation names do not "
                 "start with '_' or 'B' (those are pyDCOP's technical / repair computations)"],
    desc="5 agents x 6 computations (grid, hyper-links, complete graph): seeded pseudo-random hosting/replica states, ALL 32 departed subsets each",
)


# =====================================================================================
# C26 - candidate info -> repair DCOP of one agent (built the way setup_repair builds it)
# =====================================================================================

_STATES = {
    "chain4": dict(agents=["a2", "a5", "a1", "a4"], comps=["c3", "c1", "c2", "c6"], graph="chain",
                   hosting={"c3": "a2", "c1": "a5", "c2": "a1", "c6": "a4"},
                   replicas={"c3": ["a5", "a1"], "c1": ["a2", "a4"], "c2": ["a5", "a4"], "c6": ["a1"]}),
    "two_on_one": dict(agents=["a2", "a5", "a1"], comps=["c3", "c1", "c2"], graph="hyper",
                       hosting={"c3": "a2", "c1": "a2", "c2": "a5"},
                       replicas={"c3": ["a5", "a1"], "c1": ["a1"], "c2": ["a1", "a2"]}),
    "grid6": dict(agents=["a2", "a5", "a1", "a4", "a3"], comps=["c3", "c1", "c2", "c6", "c4", "c5"], graph="grid",
                  hosting={"c3": "a2", "c1": "a5", "c2": "a1", "c6": "a4", "c4": "a3", "c5": "a2"},
                  replicas={"c3": ["a5", "a4"], "c1": ["a1"], "c2": ["a3", "a2"], "c6": ["a2", "a5"], "c4": ["a5", "a4"], "c5": ["a4", "a1"]}),
}


def h_repair_dcop(env):
    import importlib
    import pydcop.reparation as REP
    from pydcop.dcop import relations as R
    from pydcop.dcop.objects import create_binary_variables
    RM = env.call(importlib.import_module, "pydcop.reparation.removal")
    if isinstance(RM, Raised):
        env.prove("repairdcop.removal-module-imports", False, detail=lambda: RM.tb)
        return
    p = env.params
    st = _STATES[p["state"]]
    agents, comps, hosting = st["agents"], st["comps"], st["hosting"]
    replicas = {k: set(v) for k, v in st["replicas"].items()}
    cg, nbrs = _mk_graph(comps, st["graph"])
    d = _mk_discovery(agents, hosting, replicas)
    departed = env.choice("departed", [s for s in _subsets(agents) if 1 <= len(s) <= p.get("max_departed", 2)])
    dep = set(departed)
    orphaned = {cn for cn in comps if hosting[cn] in dep}
    holders = {o: [a for a in agents if a in replicas[o] and a not in dep] for o in orphaned}
    cand_agents = sorted({a for o in orphaned for a in holders[o]})
    if not cand_agents:
        env.assume(False)
    own = env.choice("own", cand_agents)
    K = [o for o in comps if o in orphaned and own in holders[o]]

    info = env.call(RM._removal_candidate_agt_info, own, list(departed), cg, d)
    if isinstance(info, Raised):
        env.prove("repairdcop.info-is-computed", False, detail=lambda: info.tb)
        return
    # ---- ResilientAgent.setup_repair, variables and constraints
    fp = {o: env.real("footprint_" + o) for o in K}
    hc = {o: env.real("hosting_cost_%s_%s" % (own, o)) for o in K}
    remaining = env.real("remaining_capacity_" + own)
    comm, _tab = _comm_table(env)

    def footprint_func(c_name):
        return fp[c_name]

    def hosting_func(c_name):
        return hc[c_name]

    def build():
        orphaned_binvars, candidate_binvars, hosted_cs = {}, {}, {}
        for candidate_comp, candidate_info in info.items():
            agts, _, neighbors = candidate_info
            v_binvar = create_binary_variables("B", ([candidate_comp], candidate_info[0]))
            orphaned_binvars.update(v_binvar)
            candidate_binvars[(candidate_comp, own)] = v_binvar[(candidate_comp, own)]
            hosted_cs[candidate_comp] = REP.create_computation_hosted_constraint(candidate_comp, v_binvar)
            for neighbor in neighbors:
                orphaned_binvars.update(create_binary_variables("B", ([neighbor], neighbors[neighbor])))
        capacity_c = REP.create_agent_capacity_constraint(own, remaining, footprint_func, candidate_binvars)
        hosting_c = REP.create_agent_hosting_constraint(own, hosting_func, candidate_binvars)
        comm_cs = {}
        for (comp, agt), _var in candidate_binvars.items():
            comm_cs[comp] = REP.create_agent_comp_comm_constraint(agt, comp, info[comp], comm, orphaned_binvars)
        return orphaned_binvars, hosted_cs, capacity_c, hosting_c, comm_cs

    pristine = _observe_deployment(d, cg, agents, comps)
    info_before = _deep(info)
    b = env.call(build)
    if isinstance(b, Raised):
        env.prove("repairdcop.constraints-are-built-from-the-info", False, detail=lambda: (departed, own, info, b.tb))
        return
    orphaned_binvars, hosted_cs, capacity_c, hosting_c, comm_cs = b
    vars_before = _table(orphaned_binvars)
    # frame: the candidate information received from the orchestrator is read by the four builders, not written
    env.prove("repairdcop.frame.candidate-info-unchanged[after-building-the-constraints]", info == info_before,
              detail=lambda: dict(before=info_before, after=info))
    # the repair variables the statement's rules talk about: x_o^a, o orphaned and known to `own`, a surviving holder
    known = list(K)
    for o in K:
        for n in sorted(nbrs[o]):
            if n in orphaned and n not in known:
                known.append(n)
    xs = [(o, a) for o in known for a in holders[o]]
    name = lambda o, a: "B%s_%s" % (o, a)  # noqa  (create_binary_variables naming)
    env.prove("repairdcop.one-binary-variable-per-orphaned-computation-and-surviving-replica-holder",
              sorted(v.name for v in orphaned_binvars.values()) == sorted(name(o, a) for o, a in xs),
              detail=lambda: (departed, own, sorted(v.name for v in orphaned_binvars.values()), xs))
    if len(xs) > p.get("max_vars", 5):
        env.assume(False)
    bits = env.choice("assignment", _bits(len(xs)))
    x = dict(zip(xs, bits))
    asg = {name(o, a): b_ for (o, a), b_ in x.items()}
    det = lambda: dict(departed=departed, own=own, info=info, assignment=asg)  # noqa

    shared = dict(asg)     # one assignment dict serves every evaluation, as in MGM2

    def val(label, cs):
        r = env.call(R.assignment_cost, shared, list(cs))
        if isinstance(r, Raised):
            env.prove("repairdcop.%s-evaluates" % label, False, detail=lambda: (det(), r.tb))
            return None
        return r

    env.cover("post")
    got = val("hosted", [hosted_cs[o] for o in K])
    if got is not None:
        exp = ssum([0 if sum(x[(o, a)] for a in holders[o]) == 1 else PENALTY for o in K])
        env.prove("repairdcop.hosted-constraints-are-0-iff-exactly-one-candidate-hosts-each-computation",
                  And(eq(got, exp), Iff(eq(got, 0), all(sum(x[(o, a)] for a in holders[o]) == 1 for o in K))), detail=lambda: (det(), got, exp))
    got = val("capacity", [capacity_c])
    if got is not None:
        fits = le(ssum([fp[o] for o in K if x[(o, own)] == 1]), remaining)
        env.prove("repairdcop.capacity-constraint-is-0-iff-selected-footprints-fit-remaining-capacity",
                  And(Iff(eq(got, 0), fits), Implies(Not(fits), eq(got, PENALTY))), detail=lambda: (det(), got, fp, remaining))
    got = val("hosting", [hosting_c])
    if got is not None:
        exp = ssum([hc[o] for o in K if x[(o, own)] == 1])
        env.prove("repairdcop.hosting-cost-is-the-sum-over-computations-selected-on-the-agent", eq(got, exp), detail=lambda: (det(), got, exp))
    got = val("comm", [comm_cs[o] for o in K if o in comm_cs])
    if got is not None and set(comm_cs) == set(K):
        exp = 0
        for o in K:
            if x[(o, own)] != 1:
                continue
            for n in sorted(nbrs[o]):
                if n in orphaned:
                    for a in holders[n]:
                        exp = exp + x[(n, a)] * comm(o, n, a)
                else:
                    exp = exp + comm(o, n, hosting[n])
        env.prove("repairdcop.communication-cost-is-the-sum-over-locally-selected-computations-of-comm-to-each-neighbour-on-its-(selected)-host",
                  eq(got, exp), detail=lambda: (det(), got, exp))
    else:
        env.prove("repairdcop.one-communication-constraint-per-candidate-computation", set(comm_cs) == set(K), detail=det)
    # ---- frame: nothing the constraints were built from, or evaluated on, has been written into
    env.prove("repairdcop.frame.assignment-shared-by-all-evaluations-unchanged",
              set(shared) == set(asg) and all(shared[k_] is asg[k_] for k_ in asg), detail=lambda: dict(handed=asg, after=shared))
    env.prove("repairdcop.frame.candidate-info-unchanged[after-evaluating-the-constraints]", info == info_before,
              detail=lambda: dict(before=info_before, after=info))
    env.prove("repairdcop.frame.binary-variable-table-unchanged", _table(orphaned_binvars) == vars_before)
    now = _observe_deployment(d, cg, agents, comps)
    env.prove("repairdcop.frame.discovery-and-computation-graph-unchanged", now == pristine, detail=lambda: dict(before=pristine, after=now))
    # the same information serves a second build (the agent sets up its repair again when another agent leaves): same values
    first = [val("hosted", [hosted_cs[o] for o in K]), val("capacity", [capacity_c]), val("hosting", [hosting_c]),
             val("comm", [comm_cs[o] for o in K if o in comm_cs])]
    b2 = env.call(build)
    if isinstance(b2, Raised):
        env.prove("repairdcop.frame.constraints-are-built-again-from-the-same-info", False, detail=lambda: (departed, own, info, b2.tb))
        return
    _, hosted2, capacity2, hosting2, comm2 = b2
    second = [val("hosted", [hosted2[o] for o in K if o in hosted2]), val("capacity", [capacity2]), val("hosting", [hosting2]),
              val("comm", [comm2[o] for o in K if o in comm2])]
    if all(v is not None for v in first + second):
        env.prove("repairdcop.frame.constraints-built-again-from-the-same-info-have-the-same-values",
                  And([eq(x, y) for x, y in zip(first, second)]), detail=lambda: (det(), first, second))


Contract(
    "repair.dcop_of_agent", ["C26"],
    ["pydcop.reparation.removal:_removal_candidate_agt_info", "pydcop.reparation:create_computation_hosted_constraint",
     "pydcop.reparation:create_agent_capacity_constraint", "pydcop.reparation:create_agent_hosting_constraint",
     "pydcop.reparation:create_agent_comp_comm_constraint"],
    h_repair_dcop,
    lambda tier: ([dict(state="chain4"), dict(state="two_on_one"), dict(state="grid6", max_departed=1)]
                  + ([dict(state="grid6", max_departed=2, max_vars=7)] if tier == "thorough" else [])),
    mode="B", must_cover=["post"],
    trusted=["the variable/constraint assembly of ResilientAgent.setup_repair is transcribed in the harness (setup_repair itself needs a running agent)"],
    desc="discovery state + departed set -> real _removal_candidate_agt_info -> binary variables and the 4 kinds of constraints assembled as in "
         "setup_repair -> values (through assignment_cost) equal the repair rules stated on the discovery state, for all binary assignments",
)


# =====================================================================================
# C25 - acceptance rule of a replica host
# =====================================================================================

class _ActiveComp:
    """an active computation hosted by the agent, as far as _remaining_capacity looks at it"""

    def __init__(self, name, footprint):
        self.name = name
        self._fp = footprint

    def footprint(self):
        return self._fp


class _StubAgent:
    """what UCSReplication uses of its Agent: name, agent_def, computations()"""

    def __init__(self, name, agent_def, active):
        self.name = name
        self.agent_def = agent_def
        self._active = list(active)

    def computations(self, include_technical=False):
        return list(self._active)


def _fresh_process_state(U):
    """the memo table of UCSReplication is process-wide state: a path of the exploration starts
    from a fresh process (empty table), like the first use in a real process"""
    m = getattr(U.UCSReplication, "memoize_footprint", None)
    if isinstance(m, dict):
        m.clear()


def _comp_def(name, neighbors=()):
    from pydcop.algorithms import AlgorithmDef, ComputationDef
    from pydcop.computations_graph.objects import ComputationNode
    return ComputationDef(ComputationNode(name, "test", neighbors=list(neighbors)), AlgorithmDef("dsa", {}, "min"))


def _worst_case(held, k):
    """max over the sets S of at most k-1 owners of the total footprint of the replicas held for S (footprints >= 0)"""
    owners = sorted({o for o, _ in held.values()})
    best = 0
    for r in range(0, min(max(k - 1, 0), len(owners)) + 1):
        for S in itertools.combinations(owners, r):
            tot = ssum([f for o, f in held.values() if o in S])
            best = smax([best, tot])
    return best


_OWNERSHIP = {
    "same": {"c3": "a4", "c1": "a4", "c2": "a4"},
    "mixed": {"c3": "a4", "c1": "a1", "c2": "a4"},
    "distinct": {"c3": "a4", "c1": "a1", "c2": "a3"},
}


def h_accept(env):
    import importlib
    U = env.call(importlib.import_module, "pydcop.replication.dist_ucs_hostingcosts")
    if isinstance(U, Raised):
        env.prove("accept.module-imports", False, detail=lambda: U.tb)
        return
    from pydcop.infrastructure.discovery import Discovery
    from pydcop.dcop.objects import AgentDef
    p = env.params
    _fresh_process_state(U)
    k = p["k"]
    owner_of = _OWNERSHIP[p["owners"]]
    comps = list(owner_of)
    hosts = ["a2", "a5"][:p.get("hosts", 2)]
    fp = {cn: env.real("footprint_" + cn, lo=0) for cn in comps}
    reps, discs, rem, held, sent, stubs = {}, {}, {}, {}, [], {}
    for h in hosts:
        cap = env.real("capacity_" + h)
        active = [_ActiveComp("v_%s_%d" % (h, i), env.real("active_footprint_%s_%d" % (h, i), lo=0)) for i in range(p.get("active", 1))]
        agent = _StubAgent(h, AgentDef(h, capacity=cap, default_route=1), active)
        d = Discovery(h, "addr_" + h)
        for a in set(owner_of.values()) | set(hosts):
            d.register_agent(a, "addr_" + a, publish=False)
        if p.get("via") == "build":
            r = env.call(U.build_replication_computation, agent, d)
        else:
            r = env.call(U.UCSReplication, agent, d, k_target=k)
        if isinstance(r, Raised):
            env.prove("accept.replication-computation-is-built", False, detail=lambda: r.tb)
            return
        r.message_sender = lambda src, dst, msg, prio=None, on_error=None: sent.append((src, dst, msg))
        reps[h], discs[h], stubs[h] = r, d, agent
        rem[h] = cap - ssum([c.footprint() for c in active])
        held[h] = {}
    # frame: what a replication computation is handed and only reads - its agent's definition (capacity, routes, hosting
    # costs), the footprints of the active computations, the other agent's discovery - and the replicas it already holds
    all_agents = sorted(set(owner_of.values()) | set(hosts))

    def observe_def(h_):
        ad = stubs[h_].agent_def
        return [ad.name, ad.capacity, ad.default_route, ad.default_hosting_cost, sorted(ad.routes), sorted(ad.hosting_costs)] + \
               [ad.route(a) for a in all_agents] + [ad.hosting_cost(cn_) for cn_ in comps] + \
               [c_.footprint() for c_ in stubs[h_].computations()]

    def observe_disc(h_):
        out = {}
        for cn_ in comps:
            try:
                out[cn_] = (discs[h_].computation_agent(cn_), frozenset(discs[h_].replica_agents(cn_)))
            except Exception:  # noqa  (not registered on this agent)
                out[cn_] = None
        return out

    def same_obs(x, y):
        # symbolic numbers: the same object, else equal for every value of the inputs (an obligation for the solver, no fork)
        return len(x) == len(y) and And([True if a is b else (eq(a, b) if (is_sym(a) or is_sym(b)) else a == b) for a, b in zip(x, y)])

    defs_before = {h_: observe_def(h_) for h_ in hosts}
    history = []
    for step in range(p["ops"]):
        h = env.choice("host%d" % step, hosts)
        cn = env.choice("comp%d" % step, comps)
        kind = env.choice("op%d" % step, ["offer", "remove"]) if held[h] else "offer"
        r, d = reps[h], discs[h]
        owner = owner_of[cn]
        det = lambda: dict(k=k, history=history, op=(kind, h, cn), held=held, remaining=rem, footprints=fp)  # noqa
        others_before = {hh: observe_disc(hh) for hh in hosts if hh != h}
        entries_before = {hh: {c_: v_ for c_, v_ in reps[hh].hosted_replicas.items()} for hh in hosts}
        if kind == "remove":
            if cn not in held[h]:
                env.assume(False)
            out = env.call(r.remove_replica, cn)
            history.append(("remove", h, cn))
            if isinstance(out, Raised):
                env.prove("remove.no-raise", False, detail=lambda: (det(), out.tb))
                return
            del held[h][cn]
            env.cover("removed")
            env.prove("remove.replica-is-forgotten-and-unregistered-from-discovery",
                      cn not in r.hosted_replicas and cn not in r.replicas and h not in d.replica_agents(cn), detail=det)
        else:
            # the request reaches the __hosting__ node of agent h: UCSReplication._visit_path
            path = (owner, h, "__hosting__")
            acc_hosts = []
            rc = p.get("replica_count", 2)
            was_held = cn in held[h]
            worst = _worst_case(held[h], k)
            visited, cdef = [owner, h], _comp_def(cn)
            out = env.call(r._visit_path, 10, 1, path, [(2, path)], visited, cdef, fp[cn], rc, acc_hosts)
            history.append(("offer", h, cn))
            # (the paths table and the hosts list are updated in place by design: the visited path is removed, the accepting
            # agent appended; not frame violations)
            env.prove("accept.frame.visited-list-and-computation-definition-unchanged",
                      visited == [owner, h] and cdef.name == cn and list(cdef.node.neighbors) == [] and cdef.algo.algo == "dsa",
                      detail=lambda: (det(), visited, cdef))
            if isinstance(out, Raised):
                env.prove("accept.no-raise", False, detail=lambda: (det(), out.tb))
                return
            accepted = acc_hosts == [h]
            env.cover("accepted" if accepted else "rejected")
            env.prove("accept.answer-is-consistent", isinstance(out, tuple) and out[1] == (rc - 1 if accepted else rc) and acc_hosts in ([], [h]),
                      detail=lambda: (det(), out, acc_hosts))
            if was_held:
                env.prove("accept.a-computation-is-never-replicated-twice-on-the-same-agent", not accepted, detail=det)
            if accepted:
                env.prove("accept.C25.only-if-remaining-capacity-covers-new-footprint-plus-worst-case-of-replicas-held-for-any-k-1-owners",
                          le(fp[cn] + worst, rem[h]), detail=lambda: (det(), dict(worst_case=worst)))
                held[h][cn] = (owner, fp[cn])
                env.prove("accept.replica-is-recorded-in-discovery", h in d.replica_agents(cn), detail=det)
                got = r.hosted_replicas.get(cn)
                env.prove("accept.replica-is-recorded-with-its-owner-and-footprint",
                          got is not None and got[0] == owner and eq(got[1], fp[cn]), detail=lambda: (det(), got))
        # frame: an offer / a removal on one agent, about one computation, leaves every agent definition, the other agent's
        # discovery and the entries of the other held replicas as they were
        for hh in hosts:
            env.prove("accept.frame.agent-definition-and-active-footprints-unchanged", same_obs(observe_def(hh), defs_before[hh]),
                      detail=lambda: (det(), hh, defs_before[hh], observe_def(hh)))
            if hh != h:
                env.prove("accept.frame.discovery-of-the-other-agent-unchanged", observe_disc(hh) == others_before[hh],
                          detail=lambda: (det(), hh, others_before[hh], observe_disc(hh)))
            now = reps[hh].hosted_replicas
            kept = [c_ for c_ in entries_before[hh] if not (hh == h and c_ == cn)]
            env.prove("accept.frame.entries-of-the-other-held-replicas-unchanged",
                      all(c_ in now and now[c_][0] == entries_before[hh][c_][0] and now[c_][1] is entries_before[hh][c_][1] for c_ in kept),
                      detail=lambda: (det(), hh, entries_before[hh], dict(now)))
        # frame, both hosts: exactly the accepted and not yet removed replicas are held
        for hh in hosts:
            env.prove("accept.held-replicas-are-exactly-the-accepted-ones",
                      set(reps[hh].hosted_replicas) == set(held[hh]) and set(reps[hh].replicas) == set(held[hh]),
                      detail=lambda: (det(), hh, dict(reps[hh].hosted_replicas)))


def _accept_shapes(tier):
    out = [dict(k=1, owners="mixed", ops=2, hosts=2, active=1)]
    for k, ow in ((2, "same"), (2, "mixed"), (2, "distinct"), (3, "mixed")):
        out.append(dict(k=k, owners=ow, ops=3, hosts=2, active=1))
    out.append(dict(k=3, owners="mixed", ops=3, hosts=1, active=0, via="build"))
    out.append(dict(k=2, owners="same", ops=2, hosts=1, active=2, replica_count=1))
    if tier == "thorough":
        out.append(dict(k=3, owners="distinct", ops=3, hosts=2, active=1))
        out.append(dict(k=3, owners="same", ops=3, hosts=2, active=1))
        out.append(dict(k=1, owners="same", ops=3, hosts=2, active=1))
        for k in (2, 3):
            for ow in ("same", "mixed", "distinct"):
                out.append(dict(k=k, owners=ow, ops=4, hosts=2, active=0))
    return out


Contract(
    "replication.acceptance", ["C25"],
    ["pydcop.replication.dist_ucs_hostingcosts:UCSReplication._visit_path", "pydcop.replication.dist_ucs_hostingcosts:UCSReplication._can_host",
     "pydcop.replication.dist_ucs_hostingcosts:UCSReplication._max_footprint", "pydcop.replication.dist_ucs_hostingcosts:UCSReplication._remaining_capacity",
     "pydcop.replication.dist_ucs_hostingcosts:UCSReplication._accept_replica", "pydcop.replication.dist_ucs_hostingcosts:UCSReplication.remove_replica"],
    h_accept, _accept_shapes,
    mode="B", must_cover=["accepted", "rejected", "removed"],
    budget=dict(quick=dict(max_paths=40000, timeout_s=300), thorough=dict(max_paths=400000, timeout_s=3000)),
    assumptions=["replication: footprints are >= 0", "replication: every exploration path starts with an empty UCSReplication.memoize_footprint (fresh process)"],
    desc="sequences of <= 3 offer/remove operations on one or two UCSReplication objects of the same process, k in 1..3, symbolic "
         "footprints/capacities: a replica is accepted only if remaining capacity >= new footprint + worst case over any k-1 owners of the "
         "footprints held; never twice on an agent; accepted replicas are recorded (hosted_replicas, discovery); removal forgets them",
)


# =====================================================================================
# C25 - bounded runs of the real request/answer protocol
# =====================================================================================

class _RepNet:
    """n real UCSReplication objects (stub agents, one real Discovery each, no directory) wired through an
    in-memory router with per-channel FIFO queues; the replicate(k) orders of the orchestrator are events too"""

    def __init__(self, U, dep, k, copy_msgs):
        from pydcop.infrastructure.discovery import Discovery
        from pydcop.dcop.objects import AgentDef
        self.k = k
        self.copy_msgs = copy_msgs
        self.dep = dep
        self.reps, self.discs, self.done, self.raw_hosts = OrderedDict(), {}, {}, {}
        self.channels = OrderedDict()
        self.todo = deque()
        self.delivered = 0
        self.accepts = []
        owner = {c: a for a, cs in dep["comps"].items() for c in cs}
        self.owner = owner
        for a in dep["agents"]:
            adef = AgentDef(a, capacity=dep["capacity"][a], default_route=dep["default_route"], routes=dict(dep["routes"].get(a, {})),
                            default_hosting_cost=dep["default_hosting"], hosting_costs=dict(dep["hosting"].get(a, {})))
            active = [_ActiveComp(c, dep["footprint"][c]) for c in dep["comps"].get(a, [])]
            agent = _StubAgent(a, adef, active)
            self.adefs = getattr(self, "adefs", {})
            self.adefs[a] = adef
            d = Discovery(a, "addr_" + a)
            for b in dep["agents"]:
                d.register_agent(b, "addr_" + b, publish=False)
            for c, b in owner.items():
                d.register_computation(c, b, publish=False)
            r = U.UCSReplication(agent, d, k_target=k)
            r.message_sender = self._post
            self.done[a] = []
            r.replication_done = (lambda hosts, _a=a: self.done[_a].append({c: set(h) for c, h in hosts.items()}))
            orig = r.computation_replicated

            def replicated(computation, hosts, _o=orig, _a=a):
                self.raw_hosts.setdefault(computation, []).append(list(hosts))
                return _o(computation, hosts)
            r.computation_replicated = replicated
            orig_acc = r._accept_replica

            def accept(origin_agt, comp_def, footprint, _o=orig_acc, _r=r, _a=a):
                rem = dep["capacity"][_a] - sum(dep["footprint"][c] for c in dep["comps"].get(_a, []))
                worst = _worst_case(dict(_r.hosted_replicas), k)
                self.accepts.append(dict(agent=_a, computation=comp_def.name, footprint=footprint, remaining=rem, worst_case_held=worst,
                                         ok=(rem >= footprint + worst), own=comp_def.name in _r.computations,
                                         twice=comp_def.name in _r.hosted_replicas))
                return _o(origin_agt, comp_def, footprint)
            r._accept_replica = accept
            for c in dep["comps"].get(a, []):
                r.add_computation(_comp_def(c, dep["neighbors"][c]), dep["footprint"][c])
            self.reps[a], self.discs[a] = r, d
            self.todo.append(a)

    def _post(self, src, dst, msg, prio=None, on_error=None):
        if self.copy_msgs:
            import copy
            msg = copy.deepcopy(msg)          # what serialisation between two processes does
        self.channels.setdefault((src, dst), deque()).append(msg)

    def events(self):
        ev = [("replicate", a) for a in self.todo]
        ev += [("deliver", key) for key, q in self.channels.items() if q]
        return ev

    def fire(self, ev):
        kind, what = ev
        if kind == "replicate":
            self.todo.remove(what)
            self.reps[what].start()
            self.reps[what].replicate(self.k)
        else:
            msg = self.channels[what].popleft()
            self.delivered += 1
            self.reps[what[1][len("_replication_"):]].on_message(what[0], msg, 0)

    def start_all_then(self):
        """the computations are started by the agents before the orchestrator asks for replication"""
        for r in self.reps.values():
            r.start()


def _gen_deployment(rng, n_agents, max_comps):
    agents = AGENTS[:n_agents]
    rng.shuffle(agents)
    comps, i = {}, 0
    for a in agents:
        comps[a] = []
        for _ in range(rng.randint(0 if n_agents > 3 and rng.random() < 0.2 else 1, max_comps)):
            comps[a].append("v%d" % (7 * i % 13))
            i += 1
    allc = [c for a in agents for c in comps[a]]
    nb = {c: set() for c in allc}
    order = list(allc)
    rng.shuffle(order)
    for j in range(1, len(order)):                      # connected, then a few extra links
        o = order[rng.randrange(j)]
        nb[order[j]].add(o)
        nb[o].add(order[j])
    for _ in range(rng.randint(0, len(order))):
        x, y = rng.choice(order), rng.choice(order)
        if x != y:
            nb[x].add(y)
            nb[y].add(x)
    if len(order) > 2 and rng.random() < 0.15:          # an isolated computation
        z = order[-1]
        for o in nb[z]:
            nb[o].discard(z)
        nb[z] = set()
    costs = rng.choice([[1], [1, 2, 3], [0, 1, 5], [0.5, 1.5, 2, 10]])
    routes = {a: {} for a in agents}                    # symmetric, the way yamldcop builds the AgentDefs
    for i1, a in enumerate(agents):
        for b in agents[i1 + 1:]:
            if rng.random() < 0.6:
                routes[a][b] = routes[b][a] = rng.choice(costs)
    return dict(
        agents=agents, comps=comps, neighbors={c: sorted(v) for c, v in nb.items()},
        footprint={c: rng.choice([0, 1, 2, 5]) for c in allc},
        capacity={a: rng.choice([0, 3, 6, 10, 100]) for a in agents},
        default_route=rng.choice(costs), default_hosting=rng.choice([0, 1, 4]),
        routes=routes,
        hosting={a: {c: rng.choice([0, 1, 3, 20]) for c in allc if rng.random() < 0.5} for a in agents},
    )


def h_protocol(env):
    import importlib
    U = env.call(importlib.import_module, "pydcop.replication.dist_ucs_hostingcosts")
    if isinstance(U, Raised):
        env.prove("protocol.module-imports", False, detail=lambda: U.tb)
        return
    p = env.params
    policy = env.choice("schedule", p["schedules"])
    copy_msgs = env.choice("messages", p.get("messages", ["copied", "shared"])) == "copied"
    rng0 = _pyrandom.Random(p["seed"])
    for it in range(p["runs"]):
        dep = _gen_deployment(_pyrandom.Random(rng0.randrange(10 ** 9)), p["agents"], p["max_comps"])
        k = 1 + (it + p["seed"]) % 3
        _fresh_process_state(U)
        det = lambda: dict(deployment=dep, k=k, schedule=policy, copied=copy_msgs, run=it)  # noqa
        import copy as _copy
        dep_before = _copy.deepcopy(dep)
        net = env.call(_RepNet, U, dep, k, copy_msgs)
        if isinstance(net, Raised):
            env.prove("protocol.replication-computations-are-built", False, detail=lambda: (det(), net.tb))
            return
        srng = _pyrandom.Random(it * 31 + 7)
        steps = 0
        while steps < p.get("max_steps", 4000):
            ev = net.events()
            if not ev:
                break
            if policy == "fifo":
                e = ev[0]
            elif policy == "lifo":
                e = ev[-1]
            elif policy == "rr":
                e = ev[steps % len(ev)]
            else:
                e = ev[srng.randrange(len(ev))]
            out = env.call(net.fire, e)
            steps += 1
            if isinstance(out, Raised):
                env.prove("protocol.no-handler-raises", False, detail=lambda: (det(), e, out.tb))
                return
        env.cover("ran")
        quiescent = not net.events()
        if not env.prove("protocol.reaches-quiescence-within-the-step-bound", quiescent, detail=lambda: (det(), steps)):
            return
        if not _check_placement(env, net, dep, k, det):
            return
        # frame: the search reads the agent definitions (routes, hosting costs, capacity), it does not write into them
        allc = [c for a in dep["agents"] for c in dep["comps"][a]]
        bad = []
        for a, ad in net.adefs.items():
            for b in dep["agents"]:
                exp = 0 if a == b else dep_before["routes"].get(a, {}).get(b, dep_before["default_route"])
                if ad.route(b) != exp:
                    bad.append(("route", a, b, ad.route(b), exp))
            for c in allc + ["zz_unknown"]:
                exp = dep_before["hosting"].get(a, {}).get(c, dep_before["default_hosting"])
                if ad.hosting_cost(c) != exp:
                    bad.append(("hosting_cost", a, c, ad.hosting_cost(c), exp))
            if ad.capacity != dep_before["capacity"][a] or dict(ad.routes) != dep_before["routes"].get(a, {}) \
                    or dict(ad.hosting_costs) != dep_before["hosting"].get(a, {}):
                bad.append(("tables", a, ad.capacity, dict(ad.routes), dict(ad.hosting_costs)))
        if not env.prove("protocol.frame.agent-definitions-unchanged-by-the-search", not bad, detail=lambda: (det(), bad[:4])):
            return
        if not env.prove("protocol.frame.deployment-tables-unchanged", dep == dep_before, detail=lambda: (dep_before, dep)):
            return


def _check_placement(env, net, dep, k, det):
    ok = True
    ok &= env.prove("protocol.every-agent-reports-replication-done", all(len(net.done[a]) >= 1 for a in dep["agents"]),
                    detail=lambda: (det(), {a: len(v) for a, v in net.done.items()}))
    bad = [x for x in net.accepts if not x["ok"]]
    ok &= env.prove("protocol.C25.every-acceptance-had-remaining-capacity-for-new-footprint-plus-worst-case-of-k-1-owners", not bad,
                    detail=lambda: (det(), bad[:2]))
    if net.accepts:
        env.cover("placed")
    if any(len([h for h in dep["agents"] if c in net.reps[h].hosted_replicas]) < min(k, len(dep["agents"]) - 1) for c in net.owner):
        env.cover("target-not-reached")
    if any(len([h for h in dep["agents"] if c in net.reps[h].hosted_replicas]) == k for c in net.owner):
        env.cover("target-reached")
    for c, a in net.owner.items():
        holders = [h for h in dep["agents"] if c in net.reps[h].hosted_replicas]
        d2 = lambda: (det(), dict(computation=c, owner=a, holders=holders, reported=[x.get(c) for x in net.done[a]],  # noqa
                                  raw=net.raw_hosts.get(c)))
        ok &= env.prove("protocol.replicas-are-not-on-the-owner", a not in holders, detail=d2)
        ok &= env.prove("protocol.at-most-k-replicas", len(holders) <= k, detail=d2)
        ok &= env.prove("protocol.replicas-are-on-distinct-agents", all(_no_dup(hs) for hs in net.raw_hosts.get(c, [])), detail=d2)
        ok &= env.prove("protocol.each-replica-is-recorded-in-discovery",
                        all(h in net.discs[h].replica_agents(c) for h in holders), detail=d2)
        ok &= env.prove("protocol.each-replica-is-held-for-its-owner", all(net.reps[h].hosted_replicas[c][0] == a for h in holders), detail=d2)
        if net.done[a]:
            ok &= env.prove("protocol.reported-hosts-are-the-agents-holding-a-replica",
                            set(net.done[a][-1].get(c, set())) == set(holders), detail=d2)
    return ok


def _protocol_shapes(tier):
    runs = 12 if tier == "quick" else 60
    out = []
    for i, (n, mc) in enumerate([(3, 1), (3, 2), (4, 1), (4, 2), (5, 2), (6, 1)]):
        out.append(dict(agents=n, max_comps=mc, seed=11 + i, runs=runs, schedules=["fifo", "random", "lifo", "rr"]))
    if tier == "thorough":
        for i, (n, mc) in enumerate([(3, 2), (4, 2), (5, 1), (6, 2)]):
            out.append(dict(agents=n, max_comps=mc, seed=101 + i, runs=runs, schedules=["random", "fifo"]))
    return out


Contract(
    "replication.protocol_runs", ["C25"],
    ["pydcop.replication.dist_ucs_hostingcosts:UCSReplication.replicate", "pydcop.replication.dist_ucs_hostingcosts:UCSReplication.on_replicate_request",
     "pydcop.replication.dist_ucs_hostingcosts:UCSReplication.on_replicate_answer", "pydcop.replication.dist_ucs_hostingcosts:UCSReplication._visit_path",
     "pydcop.replication.dist_ucs_hostingcosts:UCSReplication._add_hosting_path", "pydcop.replication.dist_ucs_hostingcosts:UCSReplication.computation_replicated",
     "pydcop.replication.path_utils:affordable_path_from", "pydcop.replication.path_utils:cheapest_path_to", "pydcop.replication.path_utils:remove_path"],
    h_protocol, _protocol_shapes,
    mode="E", must_cover=["ran", "placed", "target-reached", "target-not-reached"],
    budget=dict(quick=dict(max_paths=20000, timeout_s=300), thorough=dict(max_paths=400000, timeout_s=3000)),
    assumptions=["replication protocol: no agent leaves during replication; every agent's discovery already knows all agents and active computations",
                 "replication protocol: route costs are symmetric and >= 0 (as pydcop.dcop.yamldcop builds them), hosting costs and footprints >= 0"],
    trusted=["stub Agent (name, agent_def, computations()) and an in-memory FIFO router replace Agent/Messaging/communication layer"],
    desc="BOUNDED TESTING of the distributed search, not a termination proof: seeded pseudo-random deployments (3-6 agents, 0-2 computations each, "
         "concrete capacities/route/hosting costs incl. ties and zeros, k in 1..3) run to quiescence under fifo/lifo/round-robin/random FIFO-channel schedules, "
         "messages copied or shared; every agent reports replication_done, replicas not on the owner, <= k, distinct, recorded in discovery",
)
