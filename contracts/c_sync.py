"""C08: synchronous computations run in proper rounds under any asynchronous (per-channel FIFO) order.

Functions under contract: SynchronousComputationMixin._sync_message_handler / _switch_cycle /
start / post_msg (pydcop.infrastructure.computations).  A sidecar computation class uses the real
mixin; in each round it sends an algorithm message to an ARBITRARY subset of its neighbours (the
subset is an explored choice), silent neighbours get the implicit synchronisation message.
E-mode: graph shapes x start orders x delivery schedules (exhaustive on the small graphs)."""
import itertools
import random as _pyrandom
from collections import OrderedDict

from pvc.contract import Contract
from .net import Net, HandlerRaised

GRAPHS = {
    "pair": {"a": ["b"], "b": ["a"]},
    "chain3": {"a": ["b"], "b": ["a", "c"], "c": ["b"]},
    "triangle": {"a": ["b", "c"], "b": ["a", "c"], "c": ["a", "b"]},
    "star4": {"h": ["x", "y", "z"], "x": ["h"], "y": ["h"], "z": ["h"]},
    "isolated": {"a": ["b"], "b": ["a"], "c": []},
}


class RawNet(Net):
    """the router of contracts.net around computations built by the harness itself"""

    def __init__(self, env, comps):
        from collections import deque
        self.env = env
        self.channels = OrderedDict()
        self.seq = 0
        self.log = []
        self.values = {}
        self.value_events = []
        self.finished = []
        self.cycles = {}
        self.started = []
        self.posted = 0
        self.delivered = 0
        self.comps = OrderedDict()
        for c in comps:
            self.comps[c.name] = c
            self._wire(c)


def _mk_class():
    from pydcop.infrastructure.computations import (SynchronousComputationMixin, MessagePassingComputation, Message, register)

    class Probe(SynchronousComputationMixin, MessagePassingComputation):
        def __init__(self, name, neighbors, chooser, rounds, style="return"):
            super().__init__(name)
            self.style = style
            self._nbrs = list(neighbors)
            self.chooser = chooser
            self.rounds = rounds
            self.calls = []      # (cycle_id, {sender: payload})
            self.sent = []       # (cycle at sending, target, payload)

        @property
        def neighbors(self):
            return list(self._nbrs)

        @register("algo")
        def _on_algo(self, sender, msg, t):
            pass

        def on_start(self):
            for tgt in self.chooser(self.name, 0, self._nbrs):
                payload = (self.name, 0)
                self.sent.append((0, tgt, payload))
                self.post_msg(tgt, Message("algo", payload))

        def on_new_cycle(self, messages, cycle_id):
            self.calls.append((cycle_id, {s: m.content for s, (m, t) in messages.items()}))
            if cycle_id + 1 >= self.rounds:
                return None  # stays silent: only implicit synchronisation from now on
            # the two documented ways of sending the messages of a round: post them from on_new_cycle, or return them
            # (style 'mixed': both in the same round, 'post+empty': everything posted and an empty list returned)
            out = []
            for i, tgt in enumerate(self.chooser(self.name, cycle_id + 1, self._nbrs)):
                payload = (self.name, cycle_id + 1)
                self.sent.append((cycle_id + 1, tgt, payload))
                direct = self.style in ("post", "post+empty") or (self.style == "mixed" and (i + cycle_id) % 2 == 0)
                if direct:
                    self.post_msg(tgt, Message("algo", payload))
                else:
                    out.append((tgt, Message("algo", payload)))
            if self.style == "post":
                return None
            return out

    return Probe


def h_sync(env):
    p = env.params
    g = GRAPHS[p["graph"]]
    rounds = p["rounds"]
    Probe = _mk_class()
    subset_mode = p.get("subsets", "explore")
    rng = _pyrandom.Random(p.get("sched_seed", 0) * 7919 + p.get("_seed", 0))

    def chooser(name, cycle, nbrs):
        if not nbrs:
            return []
        if subset_mode == "all":
            return list(nbrs)
        if subset_mode == "none":
            return []
        if subset_mode == "random":
            return [n for n in nbrs if rng.random() < 0.5]
        subsets = [list(c) for r in range(len(nbrs) + 1) for c in itertools.combinations(nbrs, r)]
        return env.choice("subset_%s_%d" % (name, cycle), subsets)
    comps = [Probe(n, g[n], chooser, rounds, p.get("style", "return")) for n in g]
    net = RawNet(env, comps)
    order = list(net.comps)
    so = p.get("start_order", "fwd")
    if so == "rev":
        order.reverse()
    elif so == "explore":
        order = list(env.choice("start_order", list(itertools.permutations(order))))
    policy = p.get("policy", "fifo")

    def done(nt):
        return all(c.current_cycle >= rounds for c in nt.comps.values() if c.neighbors)
    try:
        if p.get("paused_start"):
            # the hosting agent paused the computations before starting them: what they post while paused is held and goes
            # out, in order, at the resume (C19) - through the mixin's own post_msg
            for n in order:
                net.comps[n].pause(True)
        for n in order:
            net.start(n)
            if p.get("paused_start") == "resume-each":
                net.comps[n].pause(False)
            if p.get("interleave_start"):
                net.run("fifo" if policy == "explore" else policy, max_steps=p.get("between", 1), rng=rng)
        if p.get("paused_start") and p.get("paused_start") != "resume-each":
            for n in order:
                net.comps[n].pause(False)
        net.run(policy, max_steps=400, rng=rng, until=done)
    except HandlerRaised as e:
        env.prove("sync.no-invalid-cycle-or-two-messages-error", False, detail=lambda: "%s\n%s" % (e, e.tb))
        return
    env.cover("ran")
    env.prove("sync.every-computation-advances-to-the-last-round", done(net),
              detail=lambda: {n: c.current_cycle for n, c in net.comps.items()})
    sent = {}
    for c in net.comps.values():
        for cyc, tgt, payload in c.sent:
            sent[(c.name, tgt, cyc)] = payload
    for c in net.comps.values():
        if not c.neighbors:
            continue
        ids = [cid for cid, _ in c.calls]
        env.prove("sync.rounds-are-handed-out-once-each-in-order", ids == list(range(len(ids))), detail=lambda: (c.name, ids))
        for cid, msgs in c.calls:
            # round cid is handed exactly the algorithm messages the neighbours sent in their round cid
            expect = {s: sent[(s, c.name, cid)] for s in c.neighbors if (s, c.name, cid) in sent}
            env.prove("sync.a-round-is-handed-exactly-the-messages-its-neighbours-sent-in-the-previous-round",
                      msgs == expect, detail=lambda: dict(computation=c.name, round=cid, got=msgs, expected=expect))


def _shapes(tier, prop=None):
    q = [dict(graph="pair", rounds=2, policy="explore", start_order="explore"),
         dict(graph="chain3", rounds=1, subsets="random", policy="explore", sched_seed=1),
         dict(graph="chain3", rounds=2, policy="fifo"),
         dict(graph="triangle", rounds=2, subsets="random", policy="random", sched_seed=2, start_order="rev", interleave_start=True),
         dict(graph="star4", rounds=2, subsets="none", policy="lifo"),
         dict(graph="isolated", rounds=2, subsets="all", policy="rr")]
    q += [dict(graph="triangle", rounds=3, subsets="random", policy="random", sched_seed=i, interleave_start=bool(i % 2), between=i % 3) for i in range(3, 9)]
    q += [dict(graph="chain3", rounds=2, subsets="all", policy="fifo", paused_start=True),
          dict(graph="triangle", rounds=2, subsets="random", policy="random", sched_seed=4, paused_start="resume-each", style="post"),
          dict(graph="star4", rounds=2, subsets="random", policy="rr", sched_seed=5, paused_start=True, style="mixed")]
    if prop == "C19":
        # for C19 only the shapes in which computations are paused before they start (posts held until the resume)
        return [d for d in q if d.get("paused_start")]
    q += [dict(graph="pair", rounds=3, policy="explore", style="mixed"), dict(graph="chain3", rounds=3, subsets="all", policy="fifo", style="post"),
          dict(graph="chain3", rounds=2, policy="fifo", style="mixed"), dict(graph="chain3", rounds=2, policy="lifo", style="post+empty"),
          dict(graph="star4", rounds=3, subsets="random", policy="random", sched_seed=3, style="mixed", interleave_start=True)]
    q += [dict(graph="triangle", rounds=3, subsets="random", policy="random", sched_seed=i, interleave_start=bool(i % 2), between=i % 3,
               style=("mixed", "post", "post+empty")[i % 3]) for i in range(9, 15)]
    if tier != "thorough":
        return q
    q = q + [dict(graph=g, rounds=4, subsets="random", policy="random", sched_seed=i, interleave_start=bool(i % 2), between=i % 4,
                  start_order=("rev" if i % 2 else "fwd"), style=("mixed", "post", "post+empty")[i % 3])
             for g in ("star4", "triangle", "chain3") for i in range(40, 58)]
    return q + [dict(graph="pair", rounds=3, policy="explore", start_order="explore"),
                dict(graph="chain3", rounds=2, subsets="random", policy="explore", sched_seed=1), dict(graph="chain3", rounds=3, policy="fifo"),
                dict(graph="chain3", rounds=2, subsets="all", policy="explore", start_order="explore"),
                dict(graph="chain3", rounds=2, subsets="none", policy="explore"),
                dict(graph="triangle", rounds=1, subsets="all", policy="explore")] \
        + [dict(graph=g, rounds=4, subsets="random", policy="random", sched_seed=i, interleave_start=bool(i % 2), between=i % 4, start_order=("rev" if i % 2 else "fwd"))
           for g in ("star4", "triangle", "chain3") for i in range(10, 40)]


Contract(
    "sync.mixin", ["C08", "C19"],
    ["pydcop.infrastructure.computations:SynchronousComputationMixin._sync_message_handler",
     "pydcop.infrastructure.computations:SynchronousComputationMixin._switch_cycle",
     "pydcop.infrastructure.computations:SynchronousComputationMixin.start",
     "pydcop.infrastructure.computations:SynchronousComputationMixin.post_msg",
     "pydcop.infrastructure.computations:MessagePassingComputation.start",
     "pydcop.infrastructure.computations:MessagePassingComputation.on_message"],
    h_sync, _shapes, mode="E", must_cover=["ran"],
    trusted=["router: per-channel FIFO delivery, one computation per agent; messages to a not-yet-started computation are buffered by the real on_message (C19)"],
    assumptions=["C08: delivery schedules exhaustive on the 2-node graph and (with seeded subsets) on the 3-node chain; seeded random on the larger graphs"],
    budget=dict(quick=dict(max_paths=60000, timeout_s=200), thorough=dict(max_paths=1500000, timeout_s=3000)),
    desc="sidecar computation on the real synchronous mixin sending to arbitrary subsets: no cycle error, rounds in order, each round gets exactly the previous round's messages",
)
