"""C19: messages held across start or pause keep their original order.

Functions under contract: MessagePassingComputation.start / pause / on_message /
post_msg (pydcop.infrastructure.computations).  The ghost outbox is the
``message_sender`` the runtime installs; the agent's queue (priority, then FIFO -
that is C18's guarantee, assumed here) is emulated to turn re-injection order into
handling order.  E-mode: every history of <= N operations."""
import itertools

from pvc.contract import Contract
from pvc.explore import Raised

OPS = ["recvA", "recvB", "queueA", "post", "start", "pause", "resume"]


def _mk():
    from pydcop.infrastructure.computations import MessagePassingComputation, Message, register

    class Probe(MessagePassingComputation):
        def __init__(self):
            super().__init__("probe")
            self.handled = []

        @register("t")
        def _on_t(self, sender, msg, t):
            self.handled.append((sender, msg.content))

    return Probe(), Message


def h_buffers(env):
    p = env.params
    n = p["n"]
    ops = list(p.get("prefix", [])) + [env.choice("op%d" % i, p.get("ops", OPS)) for i in range(n)]
    comp, Message = _mk()
    outbox = []       # what left the computation for other computations, in order
    queue = []        # the hosting agent's queue: (priority, seq, src, msg)
    seq = [0]

    reinjected = set()   # contents of the messages that went through a re-injection
    rebuffered = [False]  # did a re-injected message get buffered again (computation paused again / not started) ?

    def sender(src, dst, msg, prio=None, on_error=None):
        seq[0] += 1
        if dst == comp.name:
            if id(msg) in reinjected:
                rebuffered[0] = True
            reinjected.add(id(msg))
            queue.append((prio if prio is not None else 20, seq[0], src, msg))
        else:
            outbox.append((dst, msg.content))
    comp.message_sender = sender
    received = []     # reception order (what the property calls 'reception order')
    posted = []       # posting order
    k = [0]

    def drain():
        # the agent loop (Agent._run / _handle_message): lowest priority value first, FIFO inside a
        # priority (C18); every message goes to on_message whatever the state of the computation
        while queue:
            queue.sort(key=lambda e: (e[0], e[1]))
            prio, _, src, msg = queue.pop(0)
            comp.on_message(src, msg, 0)

    def deliver_new(src, handle=True):
        # a new message reaches the agent's queue (normal priority); with handle=False the agent thread has
        # not yet picked it up when the next operation (e.g. start) runs
        k[0] += 1
        m = Message("t", "m" if p.get("same_content") else "m%d" % k[0])     # same_content: all messages compare equal
        received.append((src, m.content))
        seq[0] += 1
        queue.append((20, seq[0], src, m))
        if handle:
            drain()

    started = False
    for op in ops:
        r = None
        if op == "recvA":
            r = env.call(deliver_new, "A")
        elif op == "recvB":
            r = env.call(deliver_new, "B")
        elif op == "queueA":
            r = env.call(deliver_new, "A", False)
        elif op == "step":
            # the agent thread handles exactly one queued message (management operations such as pause / resume /
            # start may be interleaved between two message handlings)
            def one():
                if queue:
                    queue.sort(key=lambda e: (e[0], e[1]))
                    prio, _, src, msg = queue.pop(0)
                    comp.on_message(src, msg, 0)
            r = env.call(one)
        elif op == "start_nodrain":
            if started:
                continue
            started = True
            r = env.call(comp.start)
        elif op == "resume_nodrain":
            r = env.call(comp.pause, False)
        elif op == "post":
            k[0] += 1
            m = Message("t", "p" if p.get("same_content") else "p%d" % k[0])
            posted.append(("other", m.content))
            r = env.call(comp.post_msg, "other", m)
        elif op == "start":
            if started:
                continue
            started = True
            r = env.call(comp.start)
            if not isinstance(r, Raised):
                r = env.call(drain)
        elif op == "pause":
            r = env.call(comp.pause, True)
        elif op == "resume":
            r = env.call(comp.pause, False)
            if not isinstance(r, Raised):
                r = env.call(drain)
        if isinstance(r, Raised):
            env.prove("buffers.no-operation-raises", False, detail=lambda: (ops, r.tb))
            return
    # bring the computation to a started, running state and let the agent drain its queue
    if not started:
        r = env.call(comp.start)
    r = env.call(comp.pause, False)
    r2 = env.call(drain)
    if isinstance(r, Raised) or isinstance(r2, Raised):
        env.prove("buffers.no-operation-raises", False, detail=lambda: (ops, r, r2))
        return
    env.cover("post")
    det = lambda: dict(ops=ops, received=received, handled=comp.handled, posted=posted, outbox=outbox)  # noqa
    env.prove("buffers.every-received-message-handled-exactly-once",
              sorted(comp.handled) == sorted(received), detail=det)
    if rebuffered[0]:
        # known finding KF-BUF-1: a message that was re-injected and then buffered AGAIN (the computation was paused again,
        # or resumed while not started, before the agent handled it) is re-queued behind the re-injected messages still waiting
        env.prove("buffers.messages-handled-in-reception-order[a-re-injected-message-was-buffered-again]", comp.handled == received, detail=det)
    else:
        env.prove("buffers.messages-handled-in-reception-order", comp.handled == received, detail=det)
    env.prove("buffers.every-posted-message-sent-exactly-once", sorted(outbox) == sorted(posted), detail=det)
    env.prove("buffers.messages-sent-in-posting-order", outbox == posted, detail=det)
    env.prove("buffers.nothing-left-in-the-buffers",
              comp._paused_messages_recv == [] and comp._paused_messages_post == [] and not queue, detail=det)


Contract(
    "computations.buffers", ["C19"],
    ["pydcop.infrastructure.computations:MessagePassingComputation.start", "pydcop.infrastructure.computations:MessagePassingComputation.pause",
     "pydcop.infrastructure.computations:MessagePassingComputation.on_message", "pydcop.infrastructure.computations:MessagePassingComputation.post_msg"],
    h_buffers,
    lambda tier: [dict(n=4), dict(n=5, ops=["recvA", "recvB", "post", "start", "pause", "resume"]), dict(n=5, ops=["recvA", "queueA", "start", "pause", "resume"]),
                  dict(n=6, ops=["queueA", "step", "start_nodrain", "pause", "resume_nodrain"]),
                  # posts and receptions held in the same pause, a newer message already queued at the resume
                  dict(n=5, prefix=["start"], ops=["recvA", "queueA", "post", "pause", "resume"]),
                  dict(n=5, prefix=["start", "pause"], ops=["recvA", "recvB", "queueA", "post", "resume_nodrain", "step"]),
                  dict(n=5, ops=["recvA", "recvB", "post", "start", "pause", "resume"], same_content=True)]
    + ([dict(n=6), dict(n=7, ops=["recvA", "recvB", "post", "pause", "resume", "start"]), dict(n=7, ops=["recvA", "queueA", "start", "pause", "resume"])] if tier == "thorough" else []),
    mode="E", must_cover=["post"],
    trusted=["agent queue emulated as (priority, FIFO) - the guarantee of C18"],
    budget=dict(quick=dict(max_paths=60000, timeout_s=200), thorough=dict(max_paths=2000000, timeout_s=3000)),
    desc="all histories of receptions (2 senders), posts, start, pause, resume: handled exactly once in reception order, sent exactly once in posting order",
)
