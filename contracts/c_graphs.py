"""Contracts on pydcop.computations_graph (C16, C17).

C16  constraints hyper-graph / factor graph / ordered graph mirror the DCOP
C17  the pseudo-tree is a valid DFS forest of the constraint graph; building it never crashes

E-mode: the inputs are *structures* (which scopes exist, in which order variables and
constraints were created, how the DCOP is handed to the builder), all enumerated with
``env.choice``.  The oracle is computed from the scope list alone (sets of variable
names), never from pyDcop objects.

Fixtures are non-identity on purpose: variable names are not in creation order and
their lexical order is neither creation nor numeric order ("v10" < "v2", "B" < "a");
constraint names are not in creation order either; scopes list their variables in a
non-sorted order; two constraints may share a scope."""
import itertools
import math
import random
import sys

from pvc.contract import Contract
from pvc.explore import Raised

# creation order of the variables; sorted(): B < a < a1 < b < v1 < v10 < v2 < z
VAR_NAMES = ["v10", "v2", "b", "a1", "z", "B", "a", "v1"]
# constraint names handed out in creation order (not sorted, none is a variable name)
CON_NAMES = ["k3", "K1", "k10", "k2", "q", "C", "k0", "k21"]


def _con_name(i):
    return CON_NAMES[i] if i < len(CON_NAMES) else "k%d_%d" % ((i * 7) % 100, i)


def _var_names(n):
    if n <= len(VAR_NAMES):
        return VAR_NAMES[:n]
    # bigger graphs: n<idx> handed out in a fixed shuffled order
    idx = list(range(n))
    random.Random(12345).shuffle(idx)
    return ["n%d" % i for i in idx]


# ------------------------------------------------------------------ scope sets

def all_scopes(n, max_arity):
    """every scope of 1..max_arity variables (indices into the creation order); the listed
    order of the variables inside a scope is deliberately not always ascending"""
    out = []
    for k in range(1, max_arity + 1):
        for comb in itertools.combinations(range(n), k):
            out.append(tuple(reversed(comb)) if sum(comb) % 2 else comb)
    return out


def _edges(n):
    return [(j, i) if (i + j) % 2 else (i, j) for i, j in itertools.combinations(range(n), 2)]


def _random_scopes(n, k, seed, max_arity):
    r = random.Random(seed * 7919 + k)
    m = r.randint(0, 2 * n)
    out = []
    for _ in range(m):
        a = r.choice([1, 2, 2, 2, 3] + list(range(3, max_arity + 1)))
        a = max(1, min(a, n))
        out.append(tuple(r.sample(range(n), a)))
    return out


def _family(name, n):
    """named graph families (binary unless said otherwise)"""
    if name == "chain":
        return [(i + 1, i) if i % 2 else (i, i + 1) for i in range(n - 1)]
    if name == "clique":
        return _edges(n)
    if name == "star":
        return [(i, 0) for i in range(1, n)]
    if name == "ring":
        return [(i, (i + 1) % n) for i in range(n)] if n > 2 else _edges(n)
    if name == "bintree":
        return [((i - 1) // 2, i) for i in range(1, n)]
    if name == "grid3":
        w = 3
        e = []
        for i in range(n):
            if (i % w) + 1 < w and i + 1 < n:
                e.append((i, i + 1))
            if i + w < n:
                e.append((i + w, i))
        return e
    if name == "two-cliques-chain-isolated":
        # K4 on 0..3, K3 on 4..6, chain 7-8-9, isolated 10, 11 (n is 12)
        return _edges(4) + [(a + 4, b + 4) for a, b in _edges(3)] + [(7, 8), (9, 8)]
    if name == "nary-overlap":
        # 4-ary, 5-ary and ternary scopes overlapping, one unary, one isolated variable (n is 9)
        return [(3, 0, 2, 1), (2, 4, 5, 6, 3), (6, 7, 0), (7,), (1, 0)]
    if name == "nary-disconnected":
        # two components made of n-ary scopes + duplicate scope + isolated variable (n is 8)
        return [(0, 1, 2), (2, 1, 0), (2, 3), (4, 5, 6), (6, 4), (5,)]
    raise ValueError(name)


def pick_scopes(env, p):
    """the scope list of this path (list of tuples of variable indices)"""
    n = p["n"]
    enum = p["enum"]
    if enum == "subsets":            # every subset of the candidate scopes
        cands = all_scopes(n, p.get("max_arity", 2)) if not p.get("edges_only") else _edges(n)
        scopes = [s for i, s in enumerate(cands) if env.choice("has%d" % i, [False, True])]
    elif enum == "upto":             # every set of at most k candidate scopes
        cands = all_scopes(n, p.get("max_arity", 3))
        combos = [c for k in range(p["k"] + 1) for c in itertools.combinations(range(len(cands)), k)]
        scopes = [cands[i] for i in env.choice("scopes", combos)]
    elif enum == "random":           # seeded pseudo-random hypergraphs (deterministic)
        k = env.choice("sample", list(range(p["samples"])))
        scopes = _random_scopes(n, k, p.get("seed", 1), p.get("max_arity", 4))
    elif enum == "family":
        scopes = list(_family(p["family"], n))
    else:
        raise ValueError(enum)
    if p.get("dup") and scopes and env.choice("dup", [False, True]):
        scopes = scopes + [tuple(reversed(scopes[0]))]   # a second constraint on the same scope
    if p.get("reverse_constraints") and env.choice("rev_cons", [False, True]):
        scopes = list(reversed(scopes))
    return scopes


# ------------------------------------------------------------------ building the real objects

def _domain():
    from pydcop.dcop.objects import Domain
    return Domain("d", "", [10, 0])


def make_variables(names, vkind):
    from pydcop.dcop.objects import Variable, VariableWithCostDict
    d = _domain()
    vs = []
    for i, nm in enumerate(names):
        if vkind == "mixed" and i % 2:
            vs.append(VariableWithCostDict(nm, d, {10: 1.5, 0: 0}))
        else:
            vs.append(Variable(nm, d))
    return vs


def make_constraint(cname, svars, ckind, all_vars):
    from pydcop.dcop import relations as R
    if ckind == "matrix":
        import numpy as np
        return R.NAryMatrixRelation(svars, np.zeros(tuple(len(v.domain) for v in svars)), name=cname)
    if ckind == "func":
        if len(svars) == 1:
            return R.UnaryFunctionRelation(cname, svars[0], lambda x: 0)

        def f(**kw):
            return 0
        return R.NAryFunctionRelation(f, svars, name=cname, f_kwargs=True)
    if ckind == "expr":
        return R.constraint_from_str(cname, " + ".join(v.name for v in svars), all_vars)
    raise ValueError(ckind)


def build_problem(env, p, scopes):
    """-> (names, variables, constraints, cscope) ; cscope: constraint name -> frozenset of variable names"""
    n = p["n"]
    names = _var_names(n)
    order = list(range(n))
    if p.get("var_orders") == "all":
        order = list(env.choice("var_order", list(itertools.permutations(range(n)))))
    elif p.get("var_orders") == "both" and env.choice("var_rev", [False, True]):
        order = order[::-1]
    vkind = env.choice("vkind", p["vkinds"]) if len(p.get("vkinds", [])) > 1 else (p.get("vkinds") or ["plain"])[0]
    ckind = env.choice("ckind", p["ckinds"]) if len(p.get("ckinds", [])) > 1 else (p.get("ckinds") or ["matrix"])[0]
    vs_by_idx = make_variables(names, vkind)
    variables = [vs_by_idx[i] for i in order]
    cons = []
    cscope = {}
    for k, s in enumerate(scopes):
        cn = _con_name(k)
        c = make_constraint(cn, [vs_by_idx[i] for i in s], ckind, vs_by_idx)
        cons.append(c)
        cscope[cn] = frozenset(names[i] for i in s)
    return names, variables, cons, cscope


def call_builder(env, p, module, variables, cons):
    """hand the problem to module.build_computation_graph in one of the ways the API allows
    -> (via, graph or Raised, frame) ; frame: the _Frame snapshot of everything handed over, taken before the call"""
    from pydcop.dcop.dcop import DCOP
    vias = p.get("vias", ["dcop", "lists", "dcop-grown"])
    via = env.choice("via", vias) if len(vias) > 1 else vias[0]
    if via == "lists":
        # the caller keeps the two lists it hands over (frame: they are his, the builder only reads them)
        vlist, clist = list(variables), list(cons)
        fr = _Frame(env, p, module, variables, cons, lists=(vlist, clist))
        return via, fr.build(), fr
    dcop = DCOP("g", "min")
    if via == "dcop":
        for v in variables:
            dcop.add_variable(v)
        for c in cons:
            dcop.add_constraint(c)
    elif via == "dcop-implicit":
        # variables enter the DCOP through their constraints; only the others are added explicitly (last)
        for c in cons:
            dcop.add_constraint(c)
        for v in variables:
            if v.name not in dcop.variables:
                dcop.add_variable(v)
    elif via == "dcop-grown":
        # a DCOP whose graph was already built once and that has grown since through its public API (more constraints,
        # more variables): the graph under contract is the one of the DCOP as it is now
        cl = list(cons)
        half = len(cl) // 2
        for c in cl[:half]:
            dcop.add_constraint(c)
        vl = list(variables)
        for v in vl[:1]:
            if v.name not in dcop.variables:
                dcop.add_variable(v)
        env.call(module.build_computation_graph, dcop)      # not judged
        for c in cl[half:]:
            dcop.add_constraint(c)
        for v in vl:
            if v.name not in dcop.variables:
                dcop.add_variable(v)
    else:
        raise ValueError(via)
    fr = _Frame(env, p, module, variables, cons, dcop=dcop)
    return via, fr.build(), fr


def _depth():
    f = sys._getframe()
    d = 0
    while f is not None:
        d += 1
        f = f.f_back
    return d


def _call(env, p, fn, *a, **kw):
    if not p.get("default_recursion_limit"):
        return env.call(fn, *a, **kw)
    # the checker's workers raise the recursion limit; the library is judged with CPython's
    # default budget of 1000 frames, counted from the call (the harness' own frames are not charged)
    old = sys.getrecursionlimit()
    sys.setrecursionlimit(1000 + _depth())
    try:
        return env.call(fn, *a, **kw)
    finally:
        sys.setrecursionlimit(old)


# ------------------------------------------------------------------ frame: the builders only read what they are given

def _guard(f):
    """an observation that fails is an observation (it differs from the one taken before the call)"""
    try:
        return f()
    except Exception as e:  # noqa
        return ("observation-raised", type(e).__name__, str(e)[:200])


def _obs_variables(variables):
    out = []
    for v in variables:
        vals = tuple(v.domain.values)
        out.append((id(v), v.name, id(v.domain), v.domain.name, vals, v.initial_value, tuple([v.cost_for_val(x) for x in vals])))
    return out


def _obs_scopes(cons):
    """what a caller sees of a constraint (1): its name and its scope - the variable objects, in order"""
    out = []
    for c in cons:
        dims = list(c.dimensions)
        out.append((id(c), c.name, [id(v) for v in dims], [v.name for v in dims]))
    return out


def _obs_values(cons):
    """what a caller sees of a constraint (2): its values.  The builders have no business with them: probed on the
    two corner assignments (every variable at its first / at its last value), which also says that the constraint
    is still callable on its scope (the price of a path is a few calls; the relations have their own contracts)"""
    out = []
    for c in cons:
        dims = list(c.dimensions)
        out.append((c(**{v.name: v.domain.values[0] for v in dims}), c(**{v.name: v.domain.values[-1] for v in dims})))
    return out


def _obs_dict(d):
    return [(k, id(v)) for k, v in d.items()]


class _Frame:
    """Everything handed to build_computation_graph (the two lists or the DCOP, the variables, the constraints)
    observed through the public API before the call; `check` observes again and states that nothing moved.
    Identity (``id``) is the identity of the objects *held by the caller*: the same objects, in the same
    containers, in the same order.  Private attributes are never looked at."""

    WHAT = dict(containers="the-lists-or-the-dcop-handed-over-hold-the-same-objects-in-the-same-order",
                scopes="constraints-keep-their-name-and-scope",
                variables="variables-and-their-domains-unchanged",
                values="constraints-keep-their-values-on-the-probed-assignments")

    def __init__(self, env, p, module, variables, cons, lists=None, dcop=None):
        self.env, self.p, self.module = env, p, module
        self.variables, self.cons = list(variables), list(cons)
        self.lists, self.dcop = lists, dcop
        self.small = len(self.variables) <= 40
        self.before = self.observe(True)

    def build(self):
        """the call under contract, on the objects the caller holds (again and again the same ones)"""
        if self.lists is not None:
            return _call(self.env, self.p, self.module.build_computation_graph, None,
                         variables=self.lists[0], constraints=self.lists[1])
        return _call(self.env, self.p, self.module.build_computation_graph, self.dcop)

    def _containers(self):
        if self.lists is not None:
            return [[id(x) for x in l] for l in self.lists]
        d = self.dcop
        return (d.name, d.objective, _obs_dict(d.variables), _obs_dict(d.constraints), _obs_dict(d.domains),
                _obs_dict(d.agents), _obs_dict(d.external_variables), [id(v) for v in d.all_variables])

    def observe(self, full):
        o = dict(containers=_guard(self._containers), scopes=_guard(lambda: _obs_scopes(self.cons)))
        if full:
            o["variables"] = _guard(lambda: _obs_variables(self.variables))
            o["values"] = _guard(lambda: _obs_values(self.cons))
        return o

    def check(self, prove, area, info, full=False, when=""):
        after = self.observe(full)
        for key, a in after.items():
            b = self.before[key]
            prove("%s.frame.%s%s" % (area, self.WHAT[key], when), a == b,
                  detail=lambda: (info(), key, "before", b if self.small else None, "after", a if self.small else None))


def _scribble(g):
    """what the owner of a graph may do with it: extend the lists its nodes publish.  Nothing of that may
    reach the DCOP / the lists / the constraints the graph was built from."""
    mark = "<frame-mark>"
    for nd in list(g.nodes):
        for attr in ("constraints", "variables", "constraints_names", "neighbors", "links"):
            x = _guard(lambda: getattr(nd, attr, None))
            if isinstance(x, list):
                x.append(mark)
    if isinstance(g.nodes, list):
        g.nodes.append(mark)


def _frame_epilogue(env, prove, area, fr, g, info, second=None):
    """the frame obligations of the four builders, stated after the obligations of the property:
      1. the inputs are as they were before the call (the containers, the names and scopes of the constraints);
      2. (small problems) a second graph built from the very same objects satisfies `second` (the same oracle as
         the first one) - a builder that consumed / marked its inputs gives a wrong second graph;
      3. writing into the lists published by the returned graph(s) does not reach the inputs: observed once more,
         this time with the variables / domains and the values of the constraints (probed)."""
    fr.check(prove, area, info)
    graphs = [g]
    if second is not None and fr.small:
        g2 = fr.build()
        if isinstance(g2, Raised):
            prove(area + ".frame.second-build-from-the-same-inputs-does-not-raise", False, detail=lambda: (info(), g2.tb[-1500:]))
        else:
            second(g2)
            graphs.append(g2)
    for x in graphs:
        _guard(lambda: _scribble(x))
    fr.check(prove, area, info, full=True, when="-after-a-second-build-and-writing-into-the-returned-graphs")


# ------------------------------------------------------------------ oracle (from the scope list only)

def model(names, cscope):
    cons_of = {v: {c for c, s in cscope.items() if v in s} for v in names}
    nbrs_of = {v: set() for v in names}
    for s in cscope.values():
        for a in s:
            nbrs_of[a] |= (s - {a})
    return cons_of, nbrs_of


def _names(xs):
    return sorted(x.name for x in xs)


def _nodes_by_name(nodes):
    d = {}
    for nd in nodes:
        d.setdefault(nd.name, []).append(nd)
    return d


class _Stop(Exception):
    """enough failing obligations on this path (every failure is replayed in a process of its own)"""


class _Prover:
    """env.prove, but a label that already failed on this path is not stated again and the path ends after
    3 distinct failing obligations"""

    def __init__(self, env):
        self.env = env
        self.failed = set()

    def __call__(self, label, cond, detail=None):
        if label in self.failed:
            return False
        ok = self.env.prove(label, cond, detail=detail)
        if not ok:
            self.failed.add(label)
            if len(self.failed) >= 3:
                raise _Stop()
        return ok


def _bounded(h):
    def harness(env):
        p = env.params
        if "multi" in p:      # several small shapes served by one job (a job costs a process start)
            p = p["multi"][env.choice("shape", list(range(len(p["multi"]))))]
        try:
            h(env, _Prover(env), p)
        except _Stop:
            pass
    harness.__name__ = h.__name__
    return harness


def _import(env, modname):
    import importlib
    return env.call(importlib.import_module, modname)


# ------------------------------------------------------------------ C16: constraints hyper-graph

def h_hypergraph(env, prove, p):
    m = _import(env, "pydcop.computations_graph.constraints_hypergraph")
    if isinstance(m, Raised):
        prove("hypergraph.module-imports", False, detail=lambda: m.tb)
        return
    scopes = pick_scopes(env, p)
    names, variables, cons, cscope = build_problem(env, p, scopes)
    via, g, fr = call_builder(env, p, m, variables, cons)
    info = lambda: dict(scopes=cscope, via=via, variables=[v.name for v in variables])  # noqa
    if isinstance(g, Raised):
        prove("hypergraph.build-does-not-raise", False, detail=lambda: (info(), g.tb))
        return
    env.cover("post")
    cons_of, nbrs_of = model(names, cscope)
    nodes = list(g.nodes)
    prove("hypergraph.one-node-per-variable", sorted(nd.name for nd in nodes) == sorted(names),
              detail=lambda: (info(), [nd.name for nd in nodes]))
    byname = _nodes_by_name(nodes)
    var_by_name = {v.name: v for v in variables}
    for nm in names:
        if len(byname.get(nm, [])) != 1:
            continue
        nd = byname[nm][0]
        prove("hypergraph.node-holds-its-variable", nd.variable == var_by_name[nm] and nd.variable.name == nm,
                  detail=lambda: (info(), nm, nd.variable))
        got = [c.name for c in nd.constraints]
        prove("hypergraph.node-lists-exactly-the-constraints-containing-its-variable", set(got) == cons_of[nm],
                  detail=lambda: (info(), nm, got, sorted(cons_of[nm])))
        prove("hypergraph.node-lists-each-constraint-once", len(got) == len(set(got)), detail=lambda: (info(), nm, got))
        objs_ok = all(any(c is k for k in cons) for c in nd.constraints)
        prove("hypergraph.node-constraints-are-the-dcop-constraints", objs_ok, detail=lambda: (info(), nm, got))
        nb = list(nd.neighbors)
        prove("hypergraph.neighbours-equal-shares-a-constraint", set(nb) == nbrs_of[nm],
                  detail=lambda: (info(), nm, sorted(nb), sorted(nbrs_of[nm])))
        prove("hypergraph.neighbours-listed-once-and-not-self", len(nb) == len(set(nb)) and nm not in nb,
                  detail=lambda: (info(), nm, nb))
        prove("hypergraph.graph-neighbors-api-agrees-with-node", set(g.neighbors(nm)) == set(nb),
                  detail=lambda: (info(), nm, list(g.neighbors(nm)), nb))
        # the hyper-edges at a node are its constraints: same names, same scopes
        lk = sorted((getattr(l, "name", None), tuple(sorted(l.nodes))) for l in nd.links)
        exp = sorted((c, tuple(sorted(cscope[c]))) for c in cons_of[nm])
        prove("hypergraph.node-links-are-its-constraints-with-their-scopes", lk == exp, detail=lambda: (info(), nm, lk, exp))
    # symmetry, stated on the graph's own data
    for a in names:
        for b in names:
            if a < b and len(byname.get(a, [])) == 1 and len(byname.get(b, [])) == 1:
                prove("hypergraph.neighbourhood-is-symmetric",
                          (b in byname[a][0].neighbors) == (a in byname[b][0].neighbors),
                          detail=lambda: (info(), a, b))
    gl = sorted((getattr(l, "name", None), tuple(sorted(l.nodes))) for l in g.links)
    exp_gl = sorted((c, tuple(sorted(s))) for c, s in cscope.items())
    prove("hypergraph.graph-links-are-the-constraints", gl == exp_gl, detail=lambda: (info(), gl, exp_gl))

    # ---- frame
    def second(g2):
        got = _guard(lambda: sorted(
            (nd.name, nd.variable == var_by_name.get(nd.name), sorted(c.name for c in nd.constraints), sorted(nd.neighbors),
             sorted((getattr(l, "name", None), tuple(sorted(l.nodes))) for l in nd.links)) for nd in g2.nodes))
        exp = sorted((nm, True, sorted(cons_of[nm]), sorted(nbrs_of[nm]),
                      sorted((c, tuple(sorted(cscope[c]))) for c in cons_of[nm])) for nm in names)
        prove("hypergraph.frame.second-graph-built-from-the-same-inputs-mirrors-the-dcop-too", got == exp,
              detail=lambda: (info(), got, exp))
    _frame_epilogue(env, prove, "hypergraph", fr, g, info, second)


# ------------------------------------------------------------------ C16: factor graph

def h_factor_graph(env, prove, p):
    m = _import(env, "pydcop.computations_graph.factor_graph")
    if isinstance(m, Raised):
        prove("factorgraph.module-imports", False, detail=lambda: m.tb)
        return
    scopes = pick_scopes(env, p)
    names, variables, cons, cscope = build_problem(env, p, scopes)
    via, g, fr = call_builder(env, p, m, variables, cons)
    info = lambda: dict(scopes=cscope, via=via, variables=[v.name for v in variables])  # noqa
    if isinstance(g, Raised):
        prove("factorgraph.build-does-not-raise", False, detail=lambda: (info(), g.tb))
        return
    env.cover("post")
    cons_of, _ = model(names, cscope)
    nodes = list(g.nodes)
    cnames = list(cscope)
    prove("factorgraph.one-node-per-variable-and-per-constraint",
              sorted(nd.name for nd in nodes) == sorted(names + cnames), detail=lambda: (info(), [nd.name for nd in nodes]))
    byname = _nodes_by_name(nodes)
    var_by_name = {v.name: v for v in variables}
    con_by_name = {c.name: c for c in cons}
    exp_links = {(c, v) for c, s in cscope.items() for v in s}

    def pairs(links):
        return sorted((getattr(l, "factor_node", None), getattr(l, "variable_node", None)) for l in links)

    for nm in names:
        if len(byname.get(nm, [])) != 1:
            continue
        nd = byname[nm][0]
        prove("factorgraph.variable-node-is-a-variable-node-holding-its-variable",
                  isinstance(nd, m.VariableComputationNode) and nd.variable == var_by_name[nm] and nd.variable.name == nm,
                  detail=lambda: (info(), nm, nd))
        nb = list(nd.neighbors)
        prove("factorgraph.variable-linked-to-f-iff-in-scope-of-f", set(nb) == cons_of[nm],
                  detail=lambda: (info(), nm, sorted(nb), sorted(cons_of[nm])))
        prove("factorgraph.bipartite-variable-neighbours-are-factors", all(x in cscope for x in nb), detail=lambda: (info(), nm, nb))
        prove("factorgraph.neighbours-listed-once", len(nb) == len(set(nb)), detail=lambda: (info(), nm, nb))
        got = pairs(nd.links)
        exp = sorted((c, nm) for c in cons_of[nm])
        prove("factorgraph.variable-node-links-are-its-factor-variable-pairs", got == exp, detail=lambda: (info(), nm, got, exp))
        prove("factorgraph.graph-neighbors-api-agrees-with-node", set(g.neighbors(nm)) == set(nb), detail=lambda: (info(), nm))
    for cn in cnames:
        if len(byname.get(cn, [])) != 1:
            continue
        nd = byname[cn][0]
        prove("factorgraph.factor-node-is-a-factor-node-holding-its-constraint",
                  isinstance(nd, m.FactorComputationNode) and nd.factor is con_by_name[cn],
                  detail=lambda: (info(), cn, nd))
        nb = list(nd.neighbors)
        prove("factorgraph.factor-linked-to-x-iff-x-in-its-scope", set(nb) == set(cscope[cn]),
                  detail=lambda: (info(), cn, sorted(nb), sorted(cscope[cn])))
        prove("factorgraph.bipartite-factor-neighbours-are-variables", all(x in var_by_name for x in nb), detail=lambda: (info(), cn, nb))
        prove("factorgraph.neighbours-listed-once", len(nb) == len(set(nb)), detail=lambda: (info(), cn, nb))
        got = pairs(nd.links)
        exp = sorted((cn, v) for v in cscope[cn])
        prove("factorgraph.factor-node-links-are-its-factor-variable-pairs", got == exp, detail=lambda: (info(), cn, got, exp))
    gl = pairs(g.links)
    prove("factorgraph.graph-links-x-f-iff-x-in-scope-of-f", gl == sorted(exp_links), detail=lambda: (info(), gl, sorted(exp_links)))
    prove("factorgraph.every-link-joins-one-variable-and-one-factor",
              all(f in cscope and v in var_by_name and set(l.nodes) == {f, v}
                  for l in g.links for f, v in [(getattr(l, "factor_node", None), getattr(l, "variable_node", None))]),
              detail=lambda: (info(), list(g.links)))

    # ---- frame
    def second(g2):
        got = _guard(lambda: (sorted((nd.name, sorted(nd.neighbors), pairs(nd.links)) for nd in g2.nodes), pairs(g2.links)))
        exp = (sorted([(nm, sorted(cons_of[nm]), sorted((c, nm) for c in cons_of[nm])) for nm in names]
                      + [(cn, sorted(cscope[cn]), sorted((cn, v) for v in cscope[cn])) for cn in cnames]),
               sorted(exp_links))
        prove("factorgraph.frame.second-graph-built-from-the-same-inputs-mirrors-the-dcop-too", got == exp,
              detail=lambda: (info(), got, exp))
    _frame_epilogue(env, prove, "factorgraph", fr, g, info, second)


# ------------------------------------------------------------------ C16: ordered graph

def h_ordered_graph(env, prove, p):
    m = _import(env, "pydcop.computations_graph.ordered_graph")
    if isinstance(m, Raised):
        prove("orderedgraph.module-imports", False, detail=lambda: m.tb)
        return
    scopes = pick_scopes(env, p)
    names, variables, cons, cscope = build_problem(env, p, scopes)
    via, g, fr = call_builder(env, p, m, variables, cons)
    info = lambda: dict(scopes=cscope, via=via, variables=[v.name for v in variables])  # noqa
    if isinstance(g, Raised):
        prove("orderedgraph.build-does-not-raise", False, detail=lambda: (info(), g.tb))
        return
    env.cover("post")
    nodes = list(g.nodes)
    prove("orderedgraph.one-node-per-variable", sorted(nd.name for nd in nodes) == sorted(names),
              detail=lambda: (info(), [nd.name for nd in nodes]))
    byname = _nodes_by_name(nodes)
    if any(len(byname.get(nm, [])) != 1 for nm in names):
        return
    lex = sorted(names)
    nxt, prv = {}, {}
    for i, nm in enumerate(lex):
        nd = byname[nm][0]
        exp_next = lex[i + 1] if i + 1 < len(lex) else None
        exp_prev = lex[i - 1] if i > 0 else None
        nl = [l for l in nd.links if l.type == "next"]
        pl = [l for l in nd.links if l.type == "previous"]
        prove("orderedgraph.exactly-one-next-link-except-last-in-lexical-order", len(nl) == (1 if exp_next else 0),
                  detail=lambda: (info(), nm, nl))
        prove("orderedgraph.exactly-one-previous-link-except-first-in-lexical-order", len(pl) == (1 if exp_prev else 0),
                  detail=lambda: (info(), nm, pl))
        prove("orderedgraph.order-links-start-at-their-node", all(l.source == nm for l in nl + pl), detail=lambda: (info(), nm, nl, pl))
        gn, gp = env.call(nd.get_next), env.call(nd.get_previous)
        nxt[nm], prv[nm] = gn, gp
        prove("orderedgraph.next-is-lexical-successor", (not isinstance(gn, Raised)) and gn == exp_next,
                  detail=lambda: (info(), nm, gn, exp_next))
        prove("orderedgraph.previous-is-lexical-predecessor", (not isinstance(gp, Raised)) and gp == exp_prev,
                  detail=lambda: (info(), nm, gp, exp_prev))
    # consistency, stated on the graph's own data: next(a) == b  <=>  previous(b) == a
    for a in names:
        for b in names:
            prove("orderedgraph.next-and-previous-are-mutually-consistent", (nxt[a] == b) == (prv[b] == a),
                      detail=lambda: (info(), a, b, nxt, prv))
    # the chain visits every variable exactly once
    starts = [nm for nm in names if prv[nm] is None]
    seen = []
    cur = starts[0] if len(starts) == 1 else None
    while cur is not None and cur in byname and cur not in seen:
        seen.append(cur)
        cur = nxt.get(cur)
    prove("orderedgraph.single-chain-through-all-variables", len(starts) == 1 and seen == lex, detail=lambda: (info(), starts, seen))

    # ---- frame
    def second(g2):
        got = _guard(lambda: sorted((nd.name, nd.get_previous(), nd.get_next()) for nd in g2.nodes))
        exp = [(nm, lex[i - 1] if i > 0 else None, lex[i + 1] if i + 1 < len(lex) else None) for i, nm in enumerate(lex)]
        prove("orderedgraph.frame.second-graph-built-from-the-same-inputs-chains-the-variables-in-lexical-order-too",
              got == exp, detail=lambda: (info(), got, exp))
    _frame_epilogue(env, prove, "orderedgraph", fr, g, info, second)


# ------------------------------------------------------------------ C17: pseudo-tree

def h_pseudotree(env, prove, p):
    m = _import(env, "pydcop.computations_graph.pseudotree")
    if isinstance(m, Raised):
        prove("pseudotree.module-imports", False, detail=lambda: m.tb)
        return
    scopes = pick_scopes(env, p)
    names, variables, cons, cscope = build_problem(env, p, scopes)
    big = len(names) > 40
    via, g, fr = call_builder(env, p, m, variables, cons)
    if big:
        info = lambda: dict(family=p.get("family"), n=p["n"], via=via)  # noqa
    else:
        info = lambda: dict(scopes=cscope, via=via, variables=[v.name for v in variables])  # noqa
    if isinstance(g, Raised):
        lab = "pseudotree.construction-never-raises"
        if p.get("family") == "chain" and p["n"] >= 100:
            lab = "pseudotree.construction-never-raises-on-long-chains"
        prove(lab, False, detail=lambda: (info(), repr(g.exc)[:200], g.tb[-1500:]))
        return
    env.cover("post")
    if p.get("family") == "chain" and p["n"] >= 100:
        prove("pseudotree.construction-never-raises-on-long-chains", True)
    else:
        prove("pseudotree.construction-never-raises", True)
    _check_pseudotree(env, prove, p, m, g, names, variables, cscope, info, big, "pseudotree.")
    # ---- frame (the second tree, built from the very same objects, is judged by the same oracle as the first)
    _frame_epilogue(env, prove, "pseudotree", fr, g, info,
                    lambda g2: _check_pseudotree(env, prove, p, m, g2, names, variables, cscope, info, big,
                                                 "pseudotree.frame.second-build-from-the-same-inputs."))


def _check_pseudotree(env, prove, p, m, g, names, variables, cscope, info, big, L):
    """the postcondition of C17 on a built graph; L: label prefix"""
    cons_of, nbrs_of = model(names, cscope)
    nodes = list(g.nodes)
    prove(L + "one-node-per-variable", sorted(nd.name for nd in nodes) == sorted(names),
              detail=lambda: (info(), [nd.name for nd in nodes][:50]))
    byname = _nodes_by_name(nodes)
    if any(len(byname.get(nm, [])) != 1 for nm in names) or len(byname) != len(names):
        return
    var_by_name = {v.name: v for v in variables}
    parent, pps, children, pcs = {}, {}, {}, {}
    TYPES = ("parent", "children", "pseudo_parent", "pseudo_children")
    for nm in names:
        nd = byname[nm][0]
        prove(L + "node-holds-its-variable", nd.variable == var_by_name[nm] and nd.variable.name == nm, detail=lambda: (info(), nm))
        rel = env.call(m.get_dfs_relations, nd)
        if isinstance(rel, Raised):
            prove(L + "get_dfs_relations-does-not-raise", False, detail=lambda: (info(), nm, rel.tb))
            return
        parent[nm], pps[nm], children[nm], pcs[nm] = rel[0], list(rel[1]), list(rel[2]), list(rel[3])
        links = list(nd.links)
        prove(L + "links-start-at-their-node-end-at-another-node-and-are-typed",
                  all(l.type in TYPES and l.source == nm and l.target in byname and l.target != nm for l in links),
                  detail=lambda: (info(), nm, links))
        prove(L + "at-most-one-parent-link", sum(1 for l in links if l.type == "parent") <= 1, detail=lambda: (info(), nm, links))
        # get_dfs_relations and the links tell the same story
        by_type = {t: sorted(l.target for l in links if l.type == t) for t in TYPES}
        prove(L + "get_dfs_relations-agrees-with-links",
                  by_type["parent"] == ([parent[nm]] if parent[nm] is not None else [])
                  and by_type["children"] == sorted(children[nm]) and by_type["pseudo_parent"] == sorted(pps[nm])
                  and by_type["pseudo_children"] == sorted(pcs[nm]), detail=lambda: (info(), nm, by_type, rel))
        for lst, what in ((children[nm], "children"), (pps[nm], "pseudo-parents"), (pcs[nm], "pseudo-children")):
            prove(L + "no-node-listed-twice-among-%s" % what, len(lst) == len(set(lst)), detail=lambda: (info(), nm, lst))
        got = [c.name for c in nd.constraints]
        prove(L + "node-carries-exactly-the-constraints-on-its-variable", set(got) == cons_of[nm],
                  detail=lambda: (info(), nm, got, sorted(cons_of[nm])))
        prove(L + "node-carries-each-constraint-once", len(got) == len(set(got)), detail=lambda: (info(), nm, got))
    # mutual consistency of the four link kinds
    for nm in names:
        if parent[nm] is not None:
            prove(L + "parent-lists-node-among-its-children", nm in children.get(parent[nm], ()),
                      detail=lambda: (info(), nm, parent[nm], children.get(parent[nm])))
        for c in children[nm]:
            prove(L + "child-has-node-as-parent", parent.get(c) == nm, detail=lambda: (info(), nm, c, parent.get(c)))
        for a in pps[nm]:
            prove(L + "pseudo-parent-lists-node-among-its-pseudo-children", nm in pcs.get(a, ()),
                      detail=lambda: (info(), nm, a, pcs.get(a)))
        for c in pcs[nm]:
            prove(L + "pseudo-child-lists-node-among-its-pseudo-parents", nm in pps.get(c, ()),
                      detail=lambda: (info(), nm, c, pps.get(c)))
        tree_nb = set(children[nm]) | ({parent[nm]} if parent[nm] is not None else set())
        back_nb = set(pps[nm]) | set(pcs[nm])
        prove(L + "a-pair-is-a-tree-edge-or-a-back-edge-not-both",
                  not (tree_nb & back_nb) and not (set(pps[nm]) & set(pcs[nm])) and parent[nm] not in children[nm],
                  detail=lambda: (info(), nm, parent[nm], children[nm], pps[nm], pcs[nm]))
    # no cycles: parent pointers lead to a root in < n steps; depth by iteration (no recursion in the oracle)
    depth = {}
    acyclic = True
    for nm in names:
        path = []
        cur = nm
        while cur is not None and cur not in depth and len(path) <= len(names):
            path.append(cur)
            cur = parent.get(cur)
        if len(path) > len(names) or (cur is not None and cur in path):
            acyclic = False
            break
        base = depth[cur] if cur is not None else -1
        for i, x in enumerate(reversed(path)):
            depth[x] = base + 1 + i
    prove(L + "parent-links-have-no-cycle", acyclic, detail=lambda: (info(), parent if not big else None))
    if not acyclic:
        return
    # walking down the children links from the roots meets every node exactly once
    roots = [nm for nm in names if parent[nm] is None]
    seen = {}
    stack = list(roots)
    steps = 0
    while stack and steps <= 2 * len(names):
        x = stack.pop()
        steps += 1
        seen[x] = seen.get(x, 0) + 1
        stack.extend(children[x])
    prove(L + "children-links-from-the-roots-reach-every-node-once",
              not stack and sorted(seen) == sorted(names) and all(v == 1 for v in seen.values()),
              detail=lambda: (info(), roots, seen if not big else None))

    def is_ancestor(a, x):
        """a is a proper ancestor of x"""
        if depth[a] >= depth[x]:
            return False
        for _ in range(depth[x] - depth[a]):
            x = parent[x]
        return x == a

    for nm in names:
        for a in pps[nm]:
            prove(L + "back-edges-lead-to-an-ancestor", is_ancestor(a, nm), detail=lambda: (info(), nm, a, parent if not big else None))
        linked = set(children[nm]) | set(pps[nm]) | set(pcs[nm]) | ({parent[nm]} if parent[nm] is not None else set())
        # a DFS forest *of the constraint graph*: its edges are edges of that graph
        prove(L + "every-link-joins-two-constraint-sharing-variables", linked <= nbrs_of[nm],
                  detail=lambda: (info(), nm, sorted(linked), sorted(nbrs_of[nm])))
        for o in nbrs_of[nm]:
            if o < nm:
                continue
            up, down = (o, nm) if depth[o] < depth[nm] else (nm, o)
            prove(L + "constraint-sharing-pair-is-ancestor-and-descendant", is_ancestor(up, down),
                      detail=lambda: (info(), nm, o, parent if not big else None))
            prove(L + "constraint-sharing-pair-directly-linked-by-tree-or-back-edge",
                      (parent[down] == up and down in children[up]) or (up in pps[down] and down in pcs[up]),
                      detail=lambda: (info(), up, down, parent[down], children[up], pps[down], pcs[up]))
        prove(L + "node-neighbours-are-the-linked-nodes", set(byname[nm][0].neighbors) == linked,
                  detail=lambda: (info(), nm, sorted(byname[nm][0].neighbors), sorted(linked)))


# ------------------------------------------------------------------ shapes

_KINDS = dict(vkinds=["plain", "mixed"], ckinds=["matrix", "func", "expr"])


def shapes_c16(tier):
    s = [
        # every hypergraph with unary/binary/ternary scopes on <= 3 variables, every constraint/variable kind,
        # every way of handing the problem over, duplicate scopes, both creation orders
        dict(n=1, enum="subsets", max_arity=1, vias=["dcop", "lists", "dcop-implicit", "dcop-grown"], dup=True, **_KINDS),
        dict(n=2, enum="subsets", max_arity=2, vias=["dcop", "lists", "dcop-implicit", "dcop-grown"], dup=True, **_KINDS),
        dict(n=3, enum="subsets", max_arity=3, vias=["dcop", "lists", "dcop-implicit", "dcop-grown"], dup=True, vkinds=["mixed"]),
        # 4 variables: every unary/binary hypergraph, every set of <= 3 scopes of arity <= 3, <= 2 scopes of arity <= 4
        # (all 16384 hypergraphs with arity <= 3 are in the thorough tier)
        dict(n=4, enum="subsets", max_arity=2, vias=["dcop"]),
        dict(n=4, enum="upto", k=3, max_arity=3, vias=["dcop"], var_orders="both"),
        dict(n=4, enum="upto", k=2, max_arity=4, vias=["lists", "dcop-implicit"], dup=True, vkinds=["mixed"], ckinds=["func"]),
        # named n-ary / disconnected families and seeded random hypergraphs up to 8 variables
        dict(n=9, enum="family", family="nary-overlap", vias=["dcop", "lists", "dcop-grown"]),
        dict(n=8, enum="family", family="nary-disconnected", vias=["dcop", "lists", "dcop-implicit", "dcop-grown"], var_orders="both"),
        dict(n=6, enum="random", samples=80, seed=1, max_arity=4, vias=["dcop", "lists", "dcop-grown"]),
        dict(n=8, enum="random", samples=80, seed=2, max_arity=5, vias=["dcop", "lists", "dcop-grown"], ckinds=["func"]),
    ]
    if tier == "thorough":
        s += [
            dict(n=1, enum="subsets", max_arity=1, vias=["dcop", "lists", "dcop-implicit", "dcop-grown"], var_orders="both", dup=True, **_KINDS),
            dict(n=2, enum="subsets", max_arity=2, vias=["dcop", "lists", "dcop-implicit", "dcop-grown"], var_orders="both", dup=True, **_KINDS),
            dict(n=3, enum="subsets", max_arity=3, vias=["dcop", "lists", "dcop-implicit", "dcop-grown"], dup=True,
                 vkinds=["mixed"], ckinds=["matrix", "func"]),
            dict(n=4, enum="subsets", max_arity=2, vias=["dcop"]),
            dict(n=4, enum="upto", k=4, max_arity=3, vias=["dcop"], var_orders="both"),
            dict(n=4, enum="upto", k=3, max_arity=4, vias=["lists", "dcop-implicit"], dup=True,
                 vkinds=["mixed"], ckinds=["func"]),
            dict(n=9, enum="family", family="nary-overlap", vias=["dcop", "lists", "dcop-grown"]),
            dict(n=8, enum="family", family="nary-disconnected", vias=["dcop", "lists", "dcop-implicit", "dcop-grown"], var_orders="both"),
            dict(n=6, enum="random", samples=150, seed=1, max_arity=4, vias=["dcop", "lists", "dcop-grown"]),
            dict(n=8, enum="random", samples=150, seed=2, max_arity=5, vias=["dcop", "lists", "dcop-grown"], ckinds=["func"]),
            dict(n=4, enum="subsets", max_arity=3, vias=["dcop"], vkinds=["plain"], ckinds=["matrix"]),   # all 16384
            dict(n=4, enum="subsets", max_arity=3, vias=["lists"], vkinds=["mixed"], ckinds=["func"]),
            dict(n=4, enum="upto", k=3, max_arity=4, vias=["lists", "dcop-implicit"], dup=True, reverse_constraints=True, var_orders="both"),
            dict(n=5, enum="subsets", max_arity=2, vias=["dcop"]),                      # 2^15 graphs with unary+binary scopes
            dict(n=5, enum="upto", k=4, max_arity=3, vias=["dcop", "lists", "dcop-grown"]),            # 15276 scope sets x 2
            dict(n=6, enum="upto", k=3, max_arity=3, vias=["dcop"]),                     # 11522 scope sets
            dict(n=6, enum="upto", k=2, max_arity=4, vias=["lists"], dup=True),
            dict(n=7, enum="random", samples=3000, seed=3, max_arity=5, vias=["dcop", "lists", "dcop-grown"]),
            dict(n=8, enum="random", samples=3000, seed=4, max_arity=6, vias=["dcop", "lists", "dcop-implicit", "dcop-grown"]),
        ]
    return s


def shapes_ordered(tier):
    s = [
        # the chain depends on names and creation order: every creation order of <= 5 variables
        dict(n=1, enum="subsets", max_arity=1, vias=["dcop", "lists", "dcop-implicit", "dcop-grown"]),
        dict(n=2, enum="subsets", max_arity=2, vias=["dcop", "lists", "dcop-implicit", "dcop-grown"], var_orders="all"),
        dict(n=3, enum="subsets", max_arity=1, vias=["dcop", "lists", "dcop-implicit", "dcop-grown"], var_orders="all"),
        dict(n=3, enum="subsets", edges_only=True, vias=["dcop-implicit"], var_orders="all"),
        dict(n=4, enum="upto", k=1, max_arity=3, vias=["dcop", "lists", "dcop-grown"], var_orders="all"),
        dict(n=5, enum="family", family="ring", vias=["dcop", "lists", "dcop-implicit", "dcop-grown"], var_orders="all"),
        dict(n=8, enum="random", samples=20, seed=5, max_arity=4, vias=["dcop", "lists", "dcop-implicit", "dcop-grown"], var_orders="both"),
        dict(n=30, enum="family", family="bintree", vias=["dcop", "lists", "dcop-grown"], var_orders="both"),
    ]
    if tier == "thorough":
        s += [
            dict(n=4, enum="subsets", max_arity=3, vias=["dcop"]),
            dict(n=3, enum="subsets", max_arity=2, vias=["dcop", "lists", "dcop-implicit", "dcop-grown"], var_orders="all"),
            dict(n=4, enum="upto", k=2, max_arity=3, vias=["dcop", "lists", "dcop-grown"], var_orders="all"),
            dict(n=6, enum="family", family="star", vias=["dcop", "lists", "dcop-grown"], var_orders="all"),
            dict(n=8, enum="random", samples=2000, seed=6, max_arity=4, vias=["dcop", "lists", "dcop-implicit", "dcop-grown"], var_orders="both"),
        ]
    return s


_RL = dict(default_recursion_limit=True)


def shapes_c17(tier):
    s = [dict(n=n, enum="subsets", edges_only=True, vias=["dcop", "lists", "dcop-grown"], **_RL) for n in (1, 2, 3, 4)]
    s += [
        dict(n=5, enum="subsets", edges_only=True, vias=["dcop"], **_RL),                 # all 1024 graphs on 5 nodes
        # n-ary scopes (unary, binary, ternary, 4-ary), duplicates, both creation orders
        dict(n=3, enum="subsets", max_arity=3, vias=["dcop", "lists", "dcop-implicit", "dcop-grown"], var_orders="both", dup=True,
             ckinds=["matrix", "func"], **_RL),
        dict(n=4, enum="upto", k=3, max_arity=4, vias=["dcop", "lists", "dcop-grown"], dup=True, **_RL),
        dict(n=5, enum="upto", k=2, max_arity=3, vias=["dcop"], var_orders="both", **_RL),
        dict(n=9, enum="family", family="nary-overlap", vias=["dcop", "lists", "dcop-grown"], var_orders="both", **_RL),
        dict(n=8, enum="family", family="nary-disconnected", vias=["dcop", "lists", "dcop-implicit", "dcop-grown"], var_orders="both", **_RL),
        dict(n=12, enum="family", family="two-cliques-chain-isolated", vias=["dcop", "lists", "dcop-grown"], var_orders="both", **_RL),
        dict(n=7, enum="family", family="clique", vias=["dcop", "lists", "dcop-grown"], **_RL),
        dict(n=9, enum="family", family="ring", vias=["dcop", "lists", "dcop-grown"], **_RL),
        dict(n=10, enum="family", family="star", vias=["dcop", "lists", "dcop-grown"], **_RL),
        dict(n=15, enum="family", family="bintree", vias=["dcop", "lists", "dcop-grown"], **_RL),
        dict(n=12, enum="family", family="grid3", vias=["dcop", "lists", "dcop-grown"], **_RL),
        dict(n=8, enum="random", samples=300, seed=7, max_arity=4, vias=["dcop", "lists", "dcop-grown"], **_RL),
        dict(n=12, enum="random", samples=150, seed=8, max_arity=3, vias=["dcop"], **_RL),
    ]
    # the never-crashes clause on long chains (one job per length)
    for n in (10, 100, 400, 600, 1000, 2000):
        s.append(dict(n=n, enum="family", family="chain", vias=["lists"] if n > 100 else ["dcop", "lists"], **_RL))
    if tier == "thorough":
        s += [
            dict(n=6, enum="subsets", edges_only=True, vias=["dcop"], **_RL),             # all 32768 graphs on 6 nodes
            dict(n=5, enum="subsets", edges_only=True, vias=["lists"], var_orders="both", **_RL),
            dict(n=4, enum="subsets", max_arity=3, vias=["dcop"], **_RL),                 # all 16384 hypergraphs on 4 nodes
            dict(n=5, enum="upto", k=3, max_arity=3, vias=["dcop", "lists", "dcop-grown"], **_RL),
            dict(n=4, enum="upto", k=3, max_arity=4, vias=["dcop", "lists", "dcop-grown"], dup=True, reverse_constraints=True, **_RL),
            dict(n=6, enum="upto", k=2, max_arity=4, vias=["dcop"], dup=True, **_RL),
            dict(n=7, enum="random", samples=4000, seed=9, max_arity=4, vias=["dcop", "lists", "dcop-grown"], **_RL),
            dict(n=10, enum="random", samples=3000, seed=10, max_arity=5, vias=["dcop", "lists", "dcop-grown"], **_RL),
            dict(n=25, enum="random", samples=300, seed=11, max_arity=3, vias=["dcop"], **_RL),
            dict(n=12, enum="family", family="clique", vias=["dcop", "lists", "dcop-grown"], **_RL),
            dict(n=63, enum="family", family="bintree", vias=["dcop", "lists", "dcop-grown"], **_RL),
            dict(n=60, enum="family", family="grid3", vias=["dcop"], **_RL),
            dict(n=200, enum="family", family="star", vias=["dcop"], **_RL),
            dict(n=300, enum="family", family="ring", vias=["lists"], **_RL),
            dict(n=450, enum="family", family="chain", vias=["dcop"], **_RL),
        ]
    return s


def _paths(p):
    """number of enumerated cases of a shape (to pack the small ones into one job)"""
    n = p["n"]
    e = p["enum"]
    if e == "subsets":
        c = 2 ** len(_edges(n) if p.get("edges_only") else all_scopes(n, p.get("max_arity", 2)))
    elif e == "upto":
        m = len(all_scopes(n, p.get("max_arity", 3)))
        c = sum(math.comb(m, k) for k in range(p["k"] + 1))
    elif e == "random":
        c = p["samples"]
    else:
        c = 1
    c *= 2 if p.get("dup") else 1
    c *= 2 if p.get("reverse_constraints") else 1
    c *= math.factorial(n) if p.get("var_orders") == "all" else (2 if p.get("var_orders") == "both" else 1)
    return c * len(p.get("vias", [1, 2])) * len(p.get("vkinds", [1])) * len(p.get("ckinds", [1]))


def _packed(fn, limit=700, keep=lambda p: False):
    def shapes(tier):
        small, out, tot = [], [], 0
        for p in fn(tier):
            if keep(p) or _paths(p) > limit:
                out.append(p)
                continue
            if small and tot + _paths(p) > 2 * limit:
                out.append(dict(multi=small))
                small, tot = [], 0
            small.append(p)
            tot += _paths(p)
        if small:
            out.append(dict(multi=small))
        return out
    return shapes


def _own_job(p):
    # a failing job stops at its first failure: the long chains (a RecursionError each) must not hide the rest
    return p.get("family") == "chain" and p["n"] >= 400


_BUDGET = dict(quick=dict(max_paths=60000, timeout_s=200.0), thorough=dict(max_paths=400000, timeout_s=1500.0))
_NODE_INIT = "pydcop.computations_graph.objects:ComputationNode.__init__"

Contract(
    "graphs.constraints_hypergraph", ["C16"],
    ["pydcop.computations_graph.constraints_hypergraph:build_computation_graph",
     "pydcop.computations_graph.constraints_hypergraph:VariableComputationNode.__init__",
     "pydcop.computations_graph.constraints_hypergraph:ConstraintLink.__init__",
     _NODE_INIT, "pydcop.computations_graph.objects:ComputationGraph.links",
     "pydcop.dcop.relations:find_dependent_relations"],
    _bounded(h_hypergraph), _packed(shapes_c16), mode="E", must_cover=["post"], budget=_BUDGET,
    assumptions=["graphs: variables are decision variables (no ExternalVariable in a scope); no zero-ary constraint; "
                 "constraint names differ from variable names"],
    desc="one node per variable; node.constraints = constraints containing it; neighbours = shares-a-constraint, symmetric; links = its constraints' scopes",
)

Contract(
    "graphs.factor_graph", ["C16"],
    ["pydcop.computations_graph.factor_graph:build_computation_graph",
     "pydcop.computations_graph.factor_graph:FactorComputationNode.__init__",
     "pydcop.computations_graph.factor_graph:VariableComputationNode.__init__",
     "pydcop.computations_graph.factor_graph:FactorGraphLink.__init__",
     "pydcop.computations_graph.factor_graph:ComputationsFactorGraph.__init__",
     _NODE_INIT, "pydcop.dcop.relations:find_dependent_relations"],
    _bounded(h_factor_graph), _packed(shapes_c16), mode="E", must_cover=["post"], budget=_BUDGET,
    desc="bipartite; one node per variable and per constraint; x - f linked iff x in scope(f), seen from both ends and in graph.links",
)

Contract(
    "graphs.ordered_graph", ["C16"],
    ["pydcop.computations_graph.ordered_graph:build_computation_graph",
     "pydcop.computations_graph.ordered_graph:OrderedConstraintGraph.__init__",
     "pydcop.computations_graph.ordered_graph:OrderLink.__init__",
     "pydcop.computations_graph.ordered_graph:VariableComputationNode.get_next",
     "pydcop.computations_graph.ordered_graph:VariableComputationNode.get_previous"],
    _bounded(h_ordered_graph), _packed(shapes_ordered), mode="E", must_cover=["post"], budget=_BUDGET,
    desc="one node per variable; next/previous links chain all variables in lexical order of their names, mutually consistent",
)

Contract(
    "graphs.pseudotree", ["C17"],
    ["pydcop.computations_graph.pseudotree:build_computation_graph",
     "pydcop.computations_graph.pseudotree:_generate_dfs_tree",
     "pydcop.computations_graph.pseudotree:_find_neighbors_relations",
     "pydcop.computations_graph.pseudotree:_BuildingNode.handle_token",
     "pydcop.computations_graph.pseudotree:_BuildingNode._propagate",
     "pydcop.computations_graph.pseudotree:_visit_tree",
     "pydcop.computations_graph.pseudotree:ComputationPseudoTree.__init__",
     "pydcop.computations_graph.pseudotree:PseudoTreeNode.__init__",
     "pydcop.computations_graph.pseudotree:get_dfs_relations"],
    _bounded(h_pseudotree), _packed(shapes_c17, keep=_own_job), mode="E", must_cover=["post"], budget=_BUDGET,
    assumptions=["pseudotree: the builder is called with CPython's default recursion budget (1000 frames) available to it"],
    desc="valid DFS forest: one node per variable, consistent parent/children/pseudo links, acyclic, every constraint-sharing pair "
         "ancestor/descendant and directly linked, node constraints exact; never raises (long chains included)",
)
