"""DSA family (dsa, adsa, dsatuto): contracts for C06 (only moves to a best-response
value), C07 (dsa: finishes after stop_cycle cycles), C08 (dsatuto: proper rounds),
C10 (selected values in domain).  Composite of real computations, symbolic costs."""
import itertools
import random as _pyrandom

from pvc.contract import Contract
from pvc.sym import And, Or, Not, Implies, eq, lt, le, is_sym, smin, smax
from . import fx
from .net import Net, build_dcop, global_cost, local_cost, HandlerRaised, get_spec, make_net, warm_up
from .c_mgm import SPECS


def _is_argopt(mode, name, val, assignment, variables, tabs, varcost):
    costs = [local_cost(name, d, assignment, tabs, varcost) for d in variables[name].domain]
    opt = smin(costs) if mode == "min" else smax(costs)
    return eq(local_cost(name, val, assignment, tabs, varcost), opt)


def _wrap_moves(net, algo, getter):
    """record, at every value selection after the initial one, the neighbour values the
    computation was looking at (``getter(comp)`` -> dict name -> value)"""
    net.moves = []
    net.moves_cycle = []
    for name, c in net.comps.items():
        orig = c._on_value_selection

        def on_vs(val, cost, cycle, _o=orig, _n=name, _c=c):
            view = None
            try:
                view = dict(getter(_c))
            except Exception:  # noqa
                view = None
            nth = len([e for e in net.value_events if e[0] == _n])
            net.moves.append((_n, val, view, nth))
            net.moves_cycle.append((_n, val, view, nth, getattr(_c, "cycle_count", 0)))
            _o(val, cost, cycle)
        c._on_value_selection = on_vs


def _check_moves(env, algo, net, mode, variables, tabs, varcost):
    names = list(net.comps)
    for n, val, view, nth in net.moves:
        concrete = (not is_sym(val)) and (val is None or val in list(variables[n].domain))
        env.prove("%s.C10.selected-values-in-domain" % algo, concrete, detail=lambda: (n, val))
        if not concrete or val is None or nth == 0 or view is None:
            continue
        nbrs = [m for m in net.comps[n].neighbors]
        if not all(m in view for m in nbrs):
            continue
        asg = {m: view[m] for m in nbrs}
        asg[n] = val
        for m in names:
            asg.setdefault(m, variables[m].domain[0])
        env.prove("%s.C06.moves-only-to-a-best-response-value" % algo,
                  _is_argopt(mode, n, val, asg, variables, tabs, varcost),
                  detail=lambda: dict(variable=n, new_value=val, neighbours=view, mode=mode))


# ---------------------------------------------------------------- DSA

def h_dsa(env):
    p = env.params
    spec = get_spec(env, p, SPECS)
    k = p["stop_cycle"]
    mode = env.choice("mode", p.get("modes", ["min", "max"]))
    variables, cons, tabs, varcost = build_dcop(env, spec, kinds=tuple(p.get("kinds", ("fin",))))
    ap = dict(p.get("algo_params", {}))
    ap["stop_cycle"] = k
    if p.get("warm_up"):
        warm_up(env, "dsa", mode, spec, ap)
    net = make_net(env, "dsa.computations-can-be-built", "dsa", mode, variables, cons, ap)
    if net is None:
        return
    if p.get("fixed_initial"):
        # initial values fixed to the first domain value instead of explored (keeps the 3-cycle shapes small)
        import pydcop.infrastructure.computations as IC
        rm = IC.random

        class _First:
            def __getattr__(self, a):
                return getattr(rm, a)

            def choice(self, seq):
                return list(seq)[0]
        IC.random = _First()
    _wrap_moves(net, "dsa", lambda c: c.current_cycle)
    order = list(net.comps)
    if p.get("start_order") == "rev":
        order.reverse()
    policy = p.get("policy", "fifo")
    rng = _pyrandom.Random(p.get("sched_seed", 0) * 7919 + p.get("_seed", 0))
    try:
        for n in order:
            net.start(n)
            if p.get("interleave_start"):
                net.run("fifo" if policy == "explore" else policy, max_steps=2, rng=rng)
        net.run(policy, max_steps=300 * k, rng=rng)
    except HandlerRaised as e:
        env.prove("dsa.C07.no-handler-raises", False, detail=lambda: "%s\n%s" % (e, e.tb))
        return
    env.cover("ran")
    names = list(net.comps)
    isolated = [n for n in names if not net.comps[n].neighbors]
    active = [n for n in names if n not in isolated]
    env.prove("dsa.C07.every-computation-finished-exactly-once", sorted(net.finished) == sorted(names),
              detail=lambda: dict(finished=net.finished, log=net.log[-10:]))
    env.prove("dsa.C07.finished-after-exactly-stop_cycle-cycles",
              all(net.comps[n].cycle_count == k for n in active) and all(net.comps[n].cycle_count == 0 for n in isolated),
              detail=lambda: {n: net.comps[n].cycle_count for n in names})
    env.prove("dsa.C07.nothing-posted-after-finishing", _nothing_after_finish(net), detail=lambda: net.log[-10:])
    _check_moves(env, "dsa", net, mode, variables, tabs, varcost)
    # ground truth: the j-th value message on channel m -> n is m's value for cycle j; the j-th evaluation of n
    # must be a best response to exactly those values (whatever n believes it received)
    chan = {}
    for ev in net.log:
        if ev[0] == "post" and hasattr(ev[3], "value"):
            chan.setdefault((ev[1], ev[2]), []).append(ev[3].value)
    for n, val, view, nth, cyc in net.moves_cycle:
        if nth == 0 or val is None or is_sym(val):
            continue
        nbrs = list(net.comps[n].neighbors)
        if not all(len(chan.get((m, n), [])) > cyc for m in nbrs):
            continue
        asg = {m: chan[(m, n)][cyc] for m in nbrs}
        asg[n] = val
        for m in names:
            asg.setdefault(m, variables[m].domain[0])
        env.prove("dsa.C06.moves-only-to-a-best-response-to-the-neighbours-values-of-that-cycle",
                  _is_argopt(mode, n, val, asg, variables, tabs, varcost),
                  detail=lambda: dict(variable=n, cycle=cyc, new_value=val, true_neighbour_values={m: chan[(m, n)][cyc] for m in nbrs}, believed=view))


def _nothing_after_finish(net):
    done = set()
    for ev in net.log:
        if ev[0] == "finished":
            done.add(ev[1])
        elif ev[0] == "post" and ev[1] in done:
            return False
    return True


P1 = dict(probability=1.0)


def _shapes_dsa(tier, prop=None):
    q = [
        dict(spec="pair2", stop_cycle=2),
        dict(spec="pair_cost", stop_cycle=2, algo_params=dict(variant="A", **P1)),
        dict(spec="chain3", stop_cycle=2, modes=["min"], algo_params=dict(variant="A", **P1)),
        dict(spec="iso2", stop_cycle=1, algo_params=dict(**P1)),
        dict(spec="double_pair", stop_cycle=2, modes=["min"], algo_params=dict(variant="C", **P1)),
        dict(spec="tri_nary", stop_cycle=1, modes=["min"], algo_params=dict(p_mode="arity", variant="A")),
        dict(spec="pair2", stop_cycle=2, modes=["max"], algo_params=dict(variant="B", **P1), start_order="rev", policy="lifo", interleave_start=True),
        # one neighbour runs a cycle ahead of the other (legal FIFO overtaking)
        dict(spec="chain3", stop_cycle=3, modes=["min"], algo_params=dict(variant="A", **P1), policy="favor:x1", fixed_initial=True),
        dict(spec="chain3", stop_cycle=3, modes=["min"], algo_params=dict(variant="C", **P1), policy="starve:x3", fixed_initial=True),
    ]
    q += [dict(spec="pair2", stop_cycle=1, kinds=("fin", "+inf"), algo_params=dict(variant="A", **P1)),
          dict(spec="pair2", stop_cycle=2, algo_params=dict(variant="B", **P1), warm_up=True),
          dict(spec="iso_unary", stop_cycle=2, algo_params=dict(variant="A", **P1))]     # constraints but no neighbour
    # 4-6 variables, several cycles, real probabilities: decided by the sampled native pass only
    big = [dict(spec="rand4", stop_cycle=4, algo_params=dict(variant="A"), sample_only=True, sample_factor=4, sample_part=0, policy="random", sched_seed=1),
           dict(spec="rand5", stop_cycle=3, algo_params=dict(variant="B"), sample_only=True, sample_factor=4, sample_part=1, nary=True),
           dict(spec="rand6", stop_cycle=3, algo_params=dict(variant="C", p_mode="arity"), sample_only=True, sample_factor=3, sample_part=2,
                connected=False, policy="lifo", interleave_start=True)]
    big.append(dict(spec="rand5", same_dom=True, max_dom=2, stop_cycle=4, algo_params=dict(variant="A"), sample_only=True, sample_factor=4,
                    sample_part=3, policy="random", sched_seed=2))      # equal domains: values of different neighbours can be confused
    if prop == "C10" and tier == "quick":
        return [q[1], q[3], q[6], big[1]]
    q = q + big
    if tier != "thorough" or prop == "C10":
        return q
    return q + [
        dict(spec="chain3", stop_cycle=2, algo_params=dict(variant="B", **P1)),
        dict(spec="chain3", stop_cycle=2, modes=["min"], algo_params=dict(variant="A")),
        dict(spec="chain3", stop_cycle=3, modes=["min"], algo_params=dict(variant="A", **P1)),
        dict(spec="triangle", stop_cycle=2, modes=["min"], algo_params=dict(variant="C", **P1)),
        dict(spec="pair3", stop_cycle=2, modes=["min"], algo_params=dict(variant="C")),
        dict(spec="iso", stop_cycle=1),
        dict(spec="tri_nary", stop_cycle=1, algo_params=dict(p_mode="arity")),
        dict(spec="pair2", stop_cycle=2, policy="explore", algo_params=dict(**P1)),
        dict(spec="star_cost", stop_cycle=2, modes=["min"], algo_params=dict(**P1)),
    ] + [dict(spec="chain3", stop_cycle=2, modes=["min"], algo_params=dict(variant="A", **P1), policy="random", sched_seed=i, interleave_start=bool(i % 2)) for i in range(1, 6)]


Contract(
    "dsa.cycles", ["C06", "C07", "C10"],
    ["pydcop.algorithms.dsa:DsaComputation.on_start", "pydcop.algorithms.dsa:DsaComputation._on_value_msg",
     "pydcop.algorithms.dsa:DsaComputation.evaluate_cycle", "pydcop.algorithms.dsa:DsaComputation.variant_a",
     "pydcop.algorithms.dsa:DsaComputation.variant_b", "pydcop.algorithms.dsa:DsaComputation.variant_c",
     "pydcop.algorithms.dsa:DsaComputation.probabilistic_change", "pydcop.algorithms.dsa:DsaComputation.exists_violated_constraint",
     "pydcop.dcop.relations:find_optimal", "pydcop.infrastructure.computations:VariableComputation.random_value_selection"],
    h_dsa, _shapes_dsa, mode="B", must_cover=["ran"],
    trusted=["random.choice / random.random / numpy.random.choice modelled as explored choice / fresh real in [0,1)",
             "router: per-channel FIFO delivery, one computation per agent (DESIGN.md 4)"],
    assumptions=["DSA: schedules explored = canonical orders + seeded random orders (+ exhaustive on the 2-node shape, thorough tier)"],
    budget=dict(quick=dict(max_paths=30000, timeout_s=300), thorough=dict(max_paths=400000, timeout_s=3000)),
    desc="composite of real DsaComputation objects: every move goes to an argopt of the local cost (constraints + own cost) for the neighbour values of that cycle; finishes after stop_cycle cycles; values in domain",
)


# ---------------------------------------------------------------- A-DSA (timer driven)

def h_adsa(env):
    p = env.params
    spec = get_spec(env, p, SPECS)
    mode = env.choice("mode", p.get("modes", ["min", "max"]))
    # kinds: a constraint may cost +inf (a hard constraint) on some assignments, including the first domain value's
    variables, cons, tabs, varcost = build_dcop(env, spec, kinds=tuple(p.get("kinds", ("fin",))))
    net = make_net(env, "adsa.computations-can-be-built", "adsa", mode, variables, cons, dict(p.get("algo_params", {})))
    if net is None:
        return
    _wrap_moves(net, "adsa", lambda c: c.current_assignment)
    names = list(net.comps)
    try:
        for n in names:
            net.start(n)
        # the periodic 'delayed_start' fires once per computation, in any order
        order = list(names)
        if p.get("start_order") == "rev":
            order.reverse()
        for n in order:
            net.comps[n].delayed_start()
            if p.get("interleave_start"):
                net.run("fifo", max_steps=1)
        for r in range(p.get("rounds", 2)):
            net.run("fifo", max_steps=100)
            for n in (order if r % 2 == 0 else reversed(order)):
                if net.comps[n].is_running:
                    net.comps[n].tick()
        net.run("fifo", max_steps=100)
    except HandlerRaised as e:
        env.prove("adsa.C10.no-handler-raises", False, detail=lambda: "%s\n%s" % (e, e.tb))
        if "find_best_values" in str(e.tb):
            env.prove("adsa.C06.best-response-helper-returns-for-every-allowed-cost", False, detail=lambda: "%s\n%s" % (e, e.tb))
        return
    except Exception as e:  # raised by delayed_start / tick called directly
        import traceback
        tb = traceback.format_exc(limit=8)
        env.prove("adsa.C10.no-handler-raises", False, detail=lambda: "%r\n%s" % (e, tb))
        if "find_best_values" in tb:
            env.prove("adsa.C06.best-response-helper-returns-for-every-allowed-cost", False, detail=lambda: "%r\n%s" % (e, tb))
        return
    env.cover("ran")
    env.prove("adsa.C06.best-response-helper-returns-for-every-allowed-cost", True)
    isolated = [n for n in names if not net.comps[n].neighbors]
    env.prove("adsa.C10.isolated-computations-finish-at-start", all(n in net.finished for n in isolated), detail=lambda: net.finished)
    _check_moves(env, "adsa", net, mode, variables, tabs, varcost)
    # the value an isolated variable settles on optimises its own cost
    for n in isolated:
        val = net.comps[n].current_value
        if (not is_sym(val)) and val in list(variables[n].domain):
            costs = [varcost[n](d) for d in variables[n].domain]
            opt = smin(costs) if mode == "min" else smax(costs)
            env.prove("adsa.C06.isolated-variable-takes-a-best-value", eq(varcost[n](val), opt), detail=lambda: (n, val))


SPECS["iso_str2"] = dict(vars={"x1": (["a", "b"], "func"), "x2": (["a", "b"], "plain"), "x3": (["r", "g"], "dict"), "x4": (["u", "v"], "plain")},
                         cons=[["x1", "x2"]])
SPECS["iso_str"] = dict(vars={"x1": (["a", "b"], "func"), "x2": (["a", "b"], "plain"), "x3": (["r", "g", "b"], "dict"), "x4": (["u", "v"], "plain")},
                        cons=[["x1", "x2"]])

Contract(
    "adsa.ticks", ["C06", "C10"],
    ["pydcop.algorithms.adsa:ADsaComputation.on_start", "pydcop.algorithms.adsa:ADsaComputation.delayed_start",
     "pydcop.algorithms.adsa:ADsaComputation._on_value_msg", "pydcop.algorithms.adsa:ADsaComputation.tick",
     "pydcop.algorithms.adsa:ADsaComputation.find_best_values", "pydcop.algorithms.adsa:ADsaComputation.probabilistic_change",
     "pydcop.algorithms.adsa:ADsaComputation.variant_a", "pydcop.algorithms.adsa:ADsaComputation.variant_b",
     "pydcop.algorithms.adsa:ADsaComputation.variant_c"],
    h_adsa,
    lambda tier: [dict(spec="pair2", rounds=2), dict(spec="iso_str2", rounds=1, modes=["min"], algo_params=dict(**P1)),
                  dict(spec="pair2", rounds=1, kinds=("fin", "+inf"), algo_params=dict(variant="A", **P1)),
                  dict(spec="pair_cost", rounds=1, algo_params=dict(variant="A", **P1)),
                  dict(spec="chain3", rounds=1, modes=["min"], algo_params=dict(variant="C", **P1), start_order="rev", interleave_start=True)]
    + ([dict(spec="chain3", rounds=2, algo_params=dict(variant="B", **P1)), dict(spec="pair3", rounds=2, algo_params=dict(**P1)), dict(spec="iso_str", rounds=1),
        dict(spec="pair_cost", rounds=2, algo_params=dict(variant="A", **P1))] if tier == "thorough" else []),
    mode="B", must_cover=["ran"],
    trusted=["timers: the periodic actions (delayed_start, tick) are invoked by the harness in a fixed order between deliveries",
             "random.* modelled as explored choices / fresh reals"],
    budget=dict(quick=dict(max_paths=30000, timeout_s=300), thorough=dict(max_paths=300000, timeout_s=2000)),
    desc="real ADsaComputation objects driven by explicit delayed_start/tick calls: selected values in domain, moves go to best-response values",
)


# ---------------------------------------------------------------- DSA-tuto (synchronous mixin)

def h_dsatuto(env):
    p = env.params
    spec = get_spec(env, p, SPECS)
    mode = env.choice("mode", p.get("modes", ["min"]))
    variables, cons, tabs, varcost = build_dcop(env, spec, kinds=tuple(p.get("kinds", ("fin",))))
    net = make_net(env, "dsatuto.computations-can-be-built", "dsatuto", mode, variables, cons, {})
    if net is None:
        return

    def view(c):
        # neighbour values handed to on_new_cycle for the round being evaluated
        return {s: m.value for s, (m, t) in c._cycle_messages.items() if hasattr(m, "value")}
    _wrap_moves(net, "dsatuto", view)
    rounds = p.get("rounds", 2)
    policy = p.get("policy", "fifo")
    rng = _pyrandom.Random(p.get("sched_seed", 0) * 7919 + p.get("_seed", 0))
    order = list(net.comps)
    if p.get("start_order") == "rev":
        order.reverse()
    try:
        for n in order:
            net.start(n)
            if p.get("interleave_start"):
                net.run("fifo" if policy == "explore" else policy, max_steps=2, rng=rng)
        net.run(policy, max_steps=2000, rng=rng,
                until=lambda nt: all(c.current_cycle >= rounds for c in nt.comps.values() if c.neighbors))
    except HandlerRaised as e:
        env.prove("dsatuto.C08.no-invalid-cycle-error", False, detail=lambda: "%s\n%s" % (e, e.tb))
        return
    env.cover("ran")
    env.prove("dsatuto.C08.no-invalid-cycle-error", True)
    env.prove("dsatuto.C08.every-computation-reached-the-last-round",
              all(c.current_cycle >= rounds for c in net.comps.values() if c.neighbors), detail=lambda: {n: c.current_cycle for n, c in net.comps.items()})
    _check_moves(env, "dsatuto", net, mode, variables, tabs, varcost)


Contract(
    "dsatuto.rounds", ["C06", "C08", "C10"],
    ["pydcop.algorithms.dsatuto:DsaTutoComputation.on_start", "pydcop.algorithms.dsatuto:DsaTutoComputation.on_new_cycle",
     "pydcop.infrastructure.computations:SynchronousComputationMixin._sync_message_handler",
     "pydcop.infrastructure.computations:SynchronousComputationMixin._switch_cycle",
     "pydcop.infrastructure.computations:SynchronousComputationMixin.start"],
    h_dsatuto,
    lambda tier: [dict(spec="pair2", rounds=2), dict(spec="chain3", rounds=1), dict(spec="pair_cost", rounds=2),
                  dict(spec="pair2", rounds=1, kinds=("fin", "+inf")),
                  dict(spec="pair2", rounds=3, start_order="rev", policy="lifo", interleave_start=True)]
    + ([dict(spec="triangle", rounds=2), dict(spec="pair3", rounds=2), dict(spec="pair2", rounds=2, policy="explore"), dict(spec="chain3", rounds=2),
        dict(spec="chain3", rounds=2, start_order="rev", policy="lifo", interleave_start=True)]
       + [dict(spec="chain3", rounds=2, policy="random", sched_seed=i, interleave_start=bool(i % 2)) for i in range(1, 6)] if tier == "thorough" else []),
    mode="B", must_cover=["ran"],
    trusted=["random.* modelled as explored choices / fresh reals", "router: per-channel FIFO delivery"],
    budget=dict(quick=dict(max_paths=30000, timeout_s=300), thorough=dict(max_paths=300000, timeout_s=2000)),
    desc="real DsaTutoComputation objects on the synchronous mixin: no cycle error, moves go to a best-response value, values in domain",
)
