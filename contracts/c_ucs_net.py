"""C25, the protocol side: real UCSReplication computations (real Agent, Discovery, AgentDef objects, agent threads
never started) wired through an in-memory router with one FIFO queue per (sender agent, receiver agent) pair.
Messages are handed over BY REFERENCE, as pyDCOP's InProcessCommunicationLayer does for agents sharing a process
(``byref``), or copied (what a serialising transport does).  E-mode: deployments, cost tables drawn from small grids
by a seed, delivery schedules (fifo, lifo, seeded random, favour / starve one agent).

Obligations, from the statement: no handler raises; the exchange quiesces; every agent reports replication done;
the replicas of a computation are on distinct agents other than the owner, at most k, each recorded in the host's
discovery; what the owner reports is what the hosts hold; no host is over-committed w.r.t. the worst case over
k-1 owners.  Bounded: <= 5 agents, <= 6 computations, seeds and schedules listed in the shapes."""
import copy
import random as _pyrandom
from collections import deque

from pvc.contract import Contract

DEPLOYS = {
    # name: (agents, {computation: (owner, neighbours)})
    "pair": (["a1", "a2"], {"c1": ("a1", ["c2"]), "c2": ("a2", ["c1"])}),
    "line3": (["a1", "a2", "a3"], {"c1": ("a1", ["c2"]), "c2": ("a2", ["c1", "c3"]), "c3": ("a3", ["c2"])}),
    "tri": (["a1", "a2", "a3"], {"c1": ("a1", ["c2", "c3"]), "c2": ("a2", ["c1", "c3"]), "c3": ("a3", ["c1", "c2"])}),
    "line4": (["a1", "a2", "a3", "a4"], {"c1": ("a1", ["c2"]), "c2": ("a2", ["c1", "c3"]), "c3": ("a3", ["c2", "c4"]), "c4": ("a4", ["c3"])}),
    # one agent owns two computations: two searches start from the same agent
    "line4_two": (["a1", "a2", "a3", "a4"], {"c1": ("a1", ["c2"]), "c1b": ("a1", []), "c2": ("a2", ["c1", "c3"]),
                                              "c3": ("a3", ["c2", "c4"]), "c4": ("a4", ["c3"])}),
    "line3_two": (["a1", "a2", "a3"], {"c1": ("a1", ["c2"]), "c1b": ("a1", ["c1"]), "c2": ("a2", ["c1", "c3"]), "c3": ("a3", ["c2"])}),
    "star4": (["a1", "a2", "a3", "a4"], {"c1": ("a1", ["c2", "c3", "c4"]), "c2": ("a2", ["c1"]), "c3": ("a3", ["c1"]), "c4": ("a4", ["c1"])}),
    "ring4_two": (["a1", "a2", "a3", "a4"], {"c1": ("a1", ["c2", "c4"]), "c2": ("a2", ["c1", "c3"]), "c2b": ("a2", ["c2"]),
                                              "c3": ("a3", ["c2", "c4"]), "c4": ("a4", ["c3", "c1"])}),
    "line5_two": (["a1", "a2", "a3", "a4", "a5"], {"c1": ("a1", ["c2"]), "c1b": ("a1", []), "c2": ("a2", ["c1", "c3"]), "c3": ("a3", ["c2", "c4"]),
                                                    "c4": ("a4", ["c3", "c5"]), "c5": ("a5", ["c4"])}),
}


def _costs(seed, agents, comps, kind):
    """capacities, footprints, routes, hosting costs of one instance"""
    rng = _pyrandom.Random(seed * 1009 + len(agents) * 31 + len(comps))
    if kind in ("roomy", "tenths"):
        cap = {a: 100 for a in agents}
    elif kind == "tight":
        cap = {a: rng.choice([1, 2, 3, 4, 6]) for a in agents}
    else:
        cap = {a: rng.choice([0, 2, 3, 5, 100]) for a in agents}
    fp = {c: rng.choice([1, 1, 2, 3]) for c in comps}
    # 'tenths': costs that are not representable in binary (0.1, 0.7 ...): budget + spent drifts by an ulp along a path
    tenths = kind == "tenths"
    rpool = [0.1, 0.2, 0.3, 0.7, 1.1] if tenths else [0.5, 1, 2, 3]
    dr = rng.choice([0.1, 0.3, 0.7] if tenths else [1, 1, 2])   # one default route for all (routes are symmetric, as the yaml loader builds them)
    default_route = {a: dr for a in agents}
    routes = {a: {b: rng.choice(rpool) for b in agents if b != a and rng.random() < (0.8 if tenths else 0.4)} for a in agents}
    for a in agents:                    # routes are symmetric, as the yaml loader builds them
        for b, r in list(routes[a].items()):
            routes[b][a] = r
    default_hosting = {a: rng.choice([0.1, 0.3, 0.6, 0.2] if tenths else [0, 0, 1, 5]) for a in agents}
    hosting = {a: {c: rng.choice([0.1, 0.2, 0.6, 1.3] if tenths else [0, 1, 2, 10]) for c in comps if rng.random() < 0.3} for a in agents}
    return cap, fp, default_route, routes, default_hosting, hosting


class _System:
    def __init__(self, env, agents, comps, k, costs, byref):
        from pydcop.algorithms import AlgorithmDef, ComputationDef
        from pydcop.computations_graph.objects import ComputationNode
        from pydcop.dcop.objects import AgentDef
        from pydcop.infrastructure.agents import Agent
        from pydcop.infrastructure.communication import InProcessCommunicationLayer
        from pydcop.infrastructure.computations import MessagePassingComputation
        from pydcop.replication.dist_ucs_hostingcosts import UCSReplication

        class Hosted(MessagePassingComputation):
            """a never-started computation: only there to take some of the agent's capacity"""
            def __init__(self, comp_def, footprint):
                super().__init__(comp_def.node.name)
                self.computation_def = comp_def
                self._fp = footprint

            def footprint(self):
                return self._fp

        cap, fp, default_route, routes, default_hosting, hosting = costs
        self.env, self.k, self.comps, self.byref = env, k, comps, byref
        self.cap, self.fp = cap, fp
        self.queues, self.order = {}, []
        self.agents, self.reps, self.done = {}, {}, {}
        self.raised = None
        self.log = []
        algo = AlgorithmDef("dsa", {}, "min")
        for a in agents:
            self.agents[a] = Agent(a, InProcessCommunicationLayer(),
                                   AgentDef(a, capacity=cap[a], default_route=default_route[a], routes=routes[a],
                                            default_hosting_cost=default_hosting[a], hosting_costs=hosting[a]))
        for agt in self.agents.values():        # every agent knows the others and where the computations are
            for o, oa in self.agents.items():
                agt.discovery.register_agent(o, oa.address, publish=False)
            for c, (owner, _) in comps.items():
                agt.discovery.register_computation(c, owner, publish=False)
        for a, agt in self.agents.items():
            rep = UCSReplication(agt, agt.discovery, k_target=k)
            self.reps[a] = rep
            rep.message_sender = self._sender(a)
            rep.replication_done = self._on_done(a)
            for c, (owner, nbs) in comps.items():
                if owner != a:
                    continue
                cd = ComputationDef(ComputationNode(c, "test", neighbors=nbs), algo)
                agt._computations[c] = Hosted(cd, fp[c])
                rep.add_computation(cd, fp[c])
            rep.start()

    def _sender(self, a):
        def send(src, dest, msg, prio=None, on_error=None):
            d = dest[len("_replication_"):]
            m = msg if self.byref else copy.deepcopy(msg)
            self.queues.setdefault((a, d), deque()).append((src, m))
            self.order.append((a, d))
        return send

    def _on_done(self, a):
        def done(replica_hosts):
            self.done.setdefault(a, []).append({c: set(h) for c, h in replica_hosts.items()})
        return done

    def enabled(self):
        return sorted(ch for ch, q in self.queues.items() if q)

    def deliver(self, ch):
        src, msg = self.queues[ch].popleft()
        self.order.remove(ch)
        self.log.append((ch, str(msg)[:100]))
        try:
            self.reps[ch[1]].on_message(src, msg, 0)
        except Exception as e:  # noqa - a raising handler kills the agent thread
            import traceback
            self.raised = (ch, "%s: %s" % (type(e).__name__, e), traceback.format_exc(limit=6))

    def run(self, policy, rng, max_steps):
        steps = 0
        while self.raised is None:
            en = self.enabled()
            if not en:
                return steps, True
            if policy == "fifo":
                ch = self.order[0]
            elif policy == "lifo":
                ch = self.order[-1]
            elif policy == "random":
                ch = en[rng.randrange(len(en))]
            elif policy.startswith("favor:"):
                n = policy.split(":")[1]
                pref = [c for c in en if n in c]
                ch = (pref or en)[rng.randrange(len(pref or en))]
            elif policy.startswith("starve:"):
                n = policy.split(":")[1]
                oth = [c for c in en if n not in c]
                ch = (oth or en)[rng.randrange(len(oth or en))]
            else:
                raise ValueError(policy)
            self.deliver(ch)
            steps += 1
            if steps >= max_steps:
                return steps, False
        return steps, True


def h_ucs_protocol(env):
    p = env.params
    agents, comps = DEPLOYS[p["deploy"]]
    k = env.choice("k", p.get("ks", [1, 2, 3]))
    cseed = env.choice("cost_seed", list(range(p.get("cost_from", 0), p.get("cost_to", 4))))
    costs = _costs(cseed, agents, comps, p.get("costs", "mixed"))
    policy = p.get("policy", "random")
    sseed = env.choice("sched_seed", list(range(p.get("scheds", 3)))) if policy not in ("fifo", "lifo") else 0
    rng = _pyrandom.Random(sseed * 7919 + cseed)
    byref = p.get("byref", True)
    try:
        sys_ = _System(env, agents, comps, k, costs, byref)
    except Exception:  # noqa
        import traceback
        tb = traceback.format_exc(limit=8)
        env.prove("ucs.C25.deployment-can-be-built", False, detail=lambda: tb)
        return
    order = sorted(sys_.reps)
    if p.get("start", "all-then-run") == "interleaved":
        rng2 = _pyrandom.Random(sseed + 17)
        rng2.shuffle(order)
    what = dict(deploy=p["deploy"], k=k, cost_seed=cseed, policy=policy, sched_seed=sseed, byref=byref, costs=costs)
    try:
        for a in order:
            sys_.reps[a].replicate(k)
            if p.get("start") == "interleaved":
                sys_.run(policy, rng, rng.randrange(0, 4))
    except Exception:  # noqa
        import traceback
        tb = traceback.format_exc(limit=8)
        env.prove("ucs.C25.replicate-does-not-raise", False, detail=lambda: (what, tb))
        return
    steps, quiet = sys_.run(policy, rng, p.get("max_steps", 20000))
    env.cover("ran")
    env.prove("ucs.C25.no-message-handler-raises", sys_.raised is None, detail=lambda: (what, sys_.raised, sys_.log[-6:]))
    if sys_.raised is not None:
        return
    env.prove("ucs.C25.the-exchange-of-replication-messages-quiesces", quiet, detail=lambda: (what, steps, sys_.log[-6:]))
    if not quiet:
        return
    env.prove("ucs.C25.every-agent-reports-replication-done", all(a in sys_.done for a in sys_.reps),
              detail=lambda: (what, sorted(sys_.done), {a: r._replication_in_progress for a, r in sys_.reps.items()}))
    env.prove("ucs.C25.replication-done-reported-once-per-request", all(len(v) == 1 for v in sys_.done.values()),
              detail=lambda: (what, {a: len(v) for a, v in sys_.done.items()}))
    hosts_of = {}
    for a, rep in sys_.reps.items():
        own = sum(sys_.fp[c] for c, (o, _) in comps.items() if o == a)
        remaining = sys_.cap[a] - own
        by_owner = {}
        for c, (owner, f) in rep.hosted_replicas.items():
            hosts_of.setdefault(c, []).append(a)
            by_owner[owner] = by_owner.get(owner, 0) + f
            env.prove("ucs.C25.no-replica-on-the-owner-of-the-computation", comps[c][0] != a, detail=lambda: (what, c, a))
            env.prove("ucs.C25.hosted-replica-records-the-true-owner-and-footprint", owner == comps[c][0] and f == sys_.fp[c],
                      detail=lambda: (what, c, a, owner, f))
            try:
                known = a in rep.discovery.replica_agents(c)
            except Exception:  # noqa
                known = False
            env.prove("ucs.C25.every-hosted-replica-is-recorded-in-discovery", known, detail=lambda: (what, c, a))
        worst = sum(sorted(by_owner.values(), reverse=True)[:max(k - 1, 0)])
        env.prove("ucs.C25.capacity-covers-the-worst-case-over-k-1-owners", worst <= remaining or not by_owner,
                  detail=lambda: (what, a, by_owner, remaining))
        env.prove("ucs.C25.hosted-replicas-and-replica-definitions-agree", set(rep.hosted_replicas) == set(rep.replicas),
                  detail=lambda: (what, a, sorted(rep.hosted_replicas), sorted(rep.replicas)))
    for c, hs in hosts_of.items():
        env.prove("ucs.C25.replicas-of-a-computation-on-distinct-agents", len(set(hs)) == len(hs), detail=lambda: (what, c, hs))
        env.prove("ucs.C25.at-most-k-replicas", len(hs) <= k, detail=lambda: (what, c, hs, k))
    for a, reports in sys_.done.items():
        last = reports[-1]
        for c, (o, _) in comps.items():
            if o != a:
                continue
            env.prove("ucs.C25.reported-hosts-are-the-agents-holding-the-replica", set(last.get(c, ())) == set(hosts_of.get(c, ())),
                      detail=lambda: (what, a, c, sorted(last.get(c, ())), sorted(hosts_of.get(c, ()))))


def _shapes(tier, prop=None):
    q = [
        dict(deploy="pair", policy="fifo", cost_to=4),
        dict(deploy="line3", policy="random", scheds=6, cost_to=8),
        dict(deploy="tri", policy="random", scheds=6, cost_to=8, costs="tight"),
        dict(deploy="line3_two", policy="random", scheds=8, cost_to=6),
        dict(deploy="line4_two", policy="random", scheds=12, cost_to=2, costs="roomy", ks=[3]),
        dict(deploy="line4_two", policy="random", scheds=12, cost_from=2, cost_to=4, costs="roomy", ks=[3]),
        dict(deploy="line4_two", policy="random", scheds=8, cost_to=6, ks=[2, 3], start="interleaved"),
        dict(deploy="line5_two", policy="random", scheds=10, cost_to=4, ks=[3], costs="roomy"),
        dict(deploy="line4", policy="lifo", cost_to=4),
        dict(deploy="star4", policy="favor:a1", scheds=2, cost_to=3, costs="tight"),
        dict(deploy="ring4_two", policy="starve:a2", scheds=6, cost_to=6),
        dict(deploy="ring4_two", policy="random", scheds=8, cost_to=6, costs="tight"),
        dict(deploy="line3", policy="random", scheds=2, cost_to=3, byref=False),
        # route / hosting costs in tenths (float drift in budget + spent), longer lines
        dict(deploy="line5_two", policy="fifo", cost_to=6, costs="tenths", ks=[2, 3], max_steps=6000),
        dict(deploy="line4", policy="random", scheds=2, cost_to=6, costs="tenths", ks=[1, 3], max_steps=6000),
        dict(deploy="ring4_two", policy="random", scheds=2, cost_to=4, costs="tenths", ks=[2], max_steps=6000),
    ]
    if tier != "thorough":
        return q
    t = list(q)
    for d in ("line4_two", "ring4_two", "line5_two", "line3_two"):
        for kind in ("roomy", "mixed", "tight", "tenths"):
            for lo in range(0, 12, 4):
                t.append(dict(deploy=d, policy="random", scheds=25, cost_from=lo, cost_to=lo + 4, costs=kind))
    for d in ("line4", "star4", "tri"):
        t.append(dict(deploy=d, policy="random", scheds=10, cost_to=8))
        t.append(dict(deploy=d, policy="random", scheds=5, cost_to=6, byref=False))
        t.append(dict(deploy=d, policy="random", scheds=5, cost_to=6, start="interleaved"))
    for n in ("a1", "a2", "a3"):
        t.append(dict(deploy="line4_two", policy="favor:" + n, scheds=6, cost_to=6))
        t.append(dict(deploy="line4_two", policy="starve:" + n, scheds=6, cost_to=6))
    return t


Contract(
    "replication.protocol", ["C25"],
    ["pydcop.replication.dist_ucs_hostingcosts:UCSReplication.replicate", "pydcop.replication.dist_ucs_hostingcosts:UCSReplication._on_replicate_msg",
     "pydcop.replication.dist_ucs_hostingcosts:UCSReplication.on_replicate_request", "pydcop.replication.dist_ucs_hostingcosts:UCSReplication.on_replicate_answer",
     "pydcop.replication.dist_ucs_hostingcosts:UCSReplication._visit_path", "pydcop.replication.dist_ucs_hostingcosts:UCSReplication._send_request",
     "pydcop.replication.dist_ucs_hostingcosts:UCSReplication._send_answer", "pydcop.replication.dist_ucs_hostingcosts:UCSReplication.computation_replicated",
     "pydcop.replication.dist_ucs_hostingcosts:UCSReplication._can_host", "pydcop.replication.dist_ucs_hostingcosts:UCSReplication._accept_replica",
     "pydcop.replication.path_utils:remove_path", "pydcop.replication.path_utils:cheapest_path_to", "pydcop.replication.path_utils:affordable_path_from"],
    h_ucs_protocol, _shapes, mode="E", must_cover=["ran"],
    trusted=["router: one FIFO queue per (sender agent, receiver agent); messages handed over by reference (byref) or deep-copied",
             "agent threads are not started: handlers are called by the harness, one at a time"],
    assumptions=["C25 protocol: deployments of 2-5 agents / 2-6 computations, costs from small grids (seeded), schedules fifo / lifo / seeded random / favour / starve",
                 "C25 protocol: no agent leaves during replication; route costs are symmetric (one default route, symmetric specific routes - what the yaml loader builds)"],
    budget=dict(quick=dict(max_paths=4000, timeout_s=200), thorough=dict(max_paths=40000, timeout_s=1500)),
    desc="real UCSReplication objects exchanging real messages: termination (quiescence, everyone reports done) and the safety clauses of the statement on the final state",
)
