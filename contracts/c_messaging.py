"""Agent messaging (C18) and discovery (C20).

C18  pydcop.infrastructure.communication.Messaging (+ InProcessCommunicationLayer, a real
     Discovery) and the loop of pydcop.infrastructure.agents.Agent, driven from ONE thread:
     every history of a few operations {post, register destination, next_msg, shutdown}.
     The oracle is a model of the inbox kept by the harness; the postconditions are the
     clauses of the property statement (exactly once / lowest type first / FIFO per sender
     among equal types / held until registration / drained after a clean shutdown).
C20  pydcop.infrastructure.discovery: real Discovery / DiscoveryComputation objects of 2-3
     agents and a real Directory / DirectoryComputation wired through an in-memory router
     (per-channel FIFO, the interleaving of the channels is explored).

Nothing of pyDcop is replaced; the harness only rebinds ``message_sender`` (what
Agent.add_computation does) and, for the agent loop, runs ``Agent._run`` in the calling
thread instead of the agent's own thread.
"""
import importlib

from pvc.contract import Contract
from pvc.explore import Raised
from pvc.sym import And, Or, Not, Implies, Iff, eq, lt, le, is_sym, PathAbort, Unsupported, BudgetExceeded


# =====================================================================================
#                                      C18
# =====================================================================================

def _infra():
    com = importlib.import_module("pydcop.infrastructure.communication")
    dis = importlib.import_module("pydcop.infrastructure.discovery")
    cmp_ = importlib.import_module("pydcop.infrastructure.computations")
    return com, dis, cmp_


class _Rec:
    """what the harness remembers of one posted message"""
    __slots__ = ("ident", "sender", "dest", "type", "msg", "seq", "posted_at", "state", "delivered")

    def __init__(self, ident, sender, dest, mtype, msg, posted_at):
        self.ident = ident
        self.sender = sender
        self.dest = dest
        self.type = mtype
        self.msg = msg
        self.seq = None           # rank in the inbox (set when the destination is / becomes registered)
        self.posted_at = posted_at
        self.state = "new"        # held | queued | optional | delivered
        self.delivered = 0

    def __repr__(self):
        return "#%d %s->%s type=%s %s seq=%s" % (self.ident, self.sender, self.dest, self.type, self.state, self.seq)


class _InboxModel:
    """the oracle: which messages are deliverable now, and in which order they became so.

    * a message posted to a registered destination is *queued* at once;
    * a message posted to a destination that is not registered is *held*; when the destination
      registers the held messages are queued in their posting order;
    * after the shutdown nothing new has to be accepted: what is posted (or released) then is
      *optional* (the code drops it; delivering it once would not contradict the statement)."""

    def __init__(self, algo_type):
        self.algo_type = algo_type
        self.records = []
        self.registered = set()
        self.shutdown = False
        self.nseq = 0
        self.step = 0

    def queued(self):
        return [r for r in self.records if r.state == "queued"]

    def held(self, dest=None):
        return [r for r in self.records if r.state == "held" and (dest is None or r.dest == dest)]

    def post(self, sender, dest, mtype, msg):
        r = _Rec(len(self.records), sender, dest, self.algo_type if mtype is None else mtype, msg, self.step)
        self.step += 1
        self.records.append(r)
        if self.shutdown:
            r.state = "optional"
        elif dest in self.registered:
            self._enqueue(r)
        else:
            r.state = "held"
        return r

    def _enqueue(self, r):
        r.state = "queued"
        r.seq = self.nseq
        self.nseq += 1

    def register(self, dest):
        self.step += 1
        self.registered.add(dest)
        for r in self.held(dest):
            if self.shutdown:
                r.state = "optional"
            else:
                self._enqueue(r)

    def unregister(self, dest):
        self.step += 1
        self.registered.discard(dest)

    def find(self, msg):
        for r in self.records:
            if r.msg is msg:
                return r
        return None


def _check_delivery(env, area, model, got_sender, got_dest, got_msg, got_type):
    """obligations at the moment a message leaves the inbox (returned by next_msg / handed
    to the destination's handler).  Returns the record (or None)."""
    r = model.find(got_msg)
    pending = model.queued()
    det = lambda: dict(delivered=(got_sender, got_dest, got_msg, got_type), record=r, pending=pending,  # noqa
                       all=model.records)
    env.prove(area + ".delivered-message-was-posted", r is not None, detail=det)
    if r is None:
        return None
    r.delivered += 1
    env.prove(area + ".each-message-delivered-at-most-once", r.delivered == 1, detail=det)
    if r.delivered != 1:
        return r
    env.prove(area + ".delivered-with-its-sender-destination-and-type",
              And(got_sender == r.sender, got_dest == r.dest, eq(got_type, r.type)), detail=det)
    if r.state == "optional":
        r.state = "delivered"
        return r
    env.prove(area + ".not-delivered-before-its-destination-is-registered", r.state == "queued", detail=det)
    if r.state != "queued":
        r.state = "delivered"
        return r
    for o in pending:
        if o is r:
            continue
        env.prove(area + ".lower-message-type-first", le(r.type, o.type), detail=det)
        if o.sender == r.sender and o.seq < r.seq:
            env.prove(area + ".posting-order-among-same-type-messages-of-one-sender", Not(eq(o.type, r.type)), detail=det)
    r.state = "delivered"
    return r


_SENDERS = ("s_loc", "r_snd")          # a computation of the agent itself / of another agent
_DESTS = ("k_reg", "e_late", "b_late")  # registered from the start / registered by an operation


class _MsgWorld:
    """agent a_one: real Discovery + InProcessCommunicationLayer + Messaging (under contract);
    agent a_two: the same, used to send to a_one through the in-process transport."""

    def __init__(self, env, com, dis, cmp_, late):
        self.env = env
        self.com, self.dis, self.cmp = com, dis, cmp_
        self.comm1 = com.InProcessCommunicationLayer()
        self.comm1.discovery = self.d1 = dis.Discovery("a_one", self.comm1)
        self.m1 = com.Messaging("a_one", self.comm1)
        self.comm2 = com.InProcessCommunicationLayer()
        self.comm2.discovery = self.d2 = dis.Discovery("a_two", self.comm2)
        self.m2 = com.Messaging("a_two", self.comm2)
        self.d2.register_agent("a_one", self.comm1, publish=False)
        self.d1.register_computation("s_loc", "a_one", self.comm1)
        self.d1.register_computation("k_reg", "a_one", self.comm1)
        self.d2.register_computation("r_snd", "a_two", self.comm2)
        # a_two believes that every destination lives on a_one (its view may be ahead of a_one's)
        for d in ("k_reg",) + tuple(late):
            self.d2.register_computation(d, "a_one", self.comm1, publish=False)
        self.model = _InboxModel(com.MSG_ALGO)
        self.model.registered.add("k_reg")
        self.nmsg = 0

    def new_msg(self):
        self.nmsg += 1
        return self.cmp.Message("ping", 100 + self.nmsg)

    def post(self, sender, dest, prio):
        msg = self.new_msg()
        self.model.post(sender, dest, prio, msg)
        m = self.m1 if sender == "s_loc" else self.m2
        if prio is None:
            return self.env.call(m.post_msg, sender, dest, msg)
        return self.env.call(m.post_msg, sender, dest, msg, prio)

    def register(self, dest):
        r = self.env.call(self.d1.register_computation, dest, "a_one", self.comm1)
        self.model.register(dest)
        return r

    def unregister(self, dest):
        r = self.env.call(self.d1.unregister_computation, dest, "a_one")
        self.model.unregister(dest)
        return r

    def shutdown(self):
        r = self.env.call(self.m1.shutdown)
        self.model.shutdown = True
        return r


def _prio(env, com, kind, step):
    if kind == "sym":
        return env.int("prio%d" % step, 0, 30)
    if kind == "const":
        return env.choice("prio%d" % step, [com.MSG_MGT, com.MSG_ALGO, None, com.MSG_VALUE])
    if kind == "mixed":
        k = env.choice("priokind%d" % step, ["sym", com.MSG_MGT, None])
        return env.int("prio%d" % step, 0, 30) if k == "sym" else k
    raise ValueError(kind)


def h_messaging(env):
    p = env.params
    mods = env.call(_infra)
    if isinstance(mods, Raised):
        env.prove("messaging.modules-import", False, detail=lambda: mods.tb)
        return
    com, dis, cmp_ = mods
    late = list(p.get("late", ["e_late"]))
    senders = list(p.get("senders", _SENDERS))
    dests = ["k_reg"] + late
    w = _MsgWorld(env, com, dis, cmp_, late)
    model = w.model
    area = "messaging"

    def do_next(tag):
        r = env.call(w.m1.next_msg, 0)
        if isinstance(r, Raised):
            env.prove(area + ".next_msg-never-raises", False, detail=lambda: r.tb)
            raise _Stop()
        ok = isinstance(r, tuple) and len(r) == 2
        env.prove(area + ".next_msg-returns-a-pair", ok, detail=lambda: r)
        if not ok:
            raise _Stop()
        full, _t = r
        if full is None:
            env.prove(area + ".next_msg-returns-a-pending-message-when-there-is-one", not model.queued(),
                      detail=lambda: dict(pending=model.queued(), all=model.records))
            return None
        env.cover("delivered")
        ok = isinstance(full, tuple) and len(full) == 4
        env.prove(area + ".next_msg-returns-a-ComputationMessage", ok, detail=lambda: full)
        if not ok:
            raise _Stop()
        return _check_delivery(env, area, model, full[0], full[1], full[2], full[3])

    try:
        for step in range(p["n_ops"]):
            opts = [("post", s, d) for s in senders for d in dests]
            opts += [("register", d) for d in late if d not in model.registered]
            if p.get("unregister"):
                opts += [("unregister", d) for d in late if d in model.registered]
            opts.append(("next",))
            if not model.shutdown:
                opts.append(("shutdown",))
            op = env.choice("op%d" % step, opts)
            if op[0] == "post":
                prio = _prio(env, com, p["prio"], step)
                r = w.post(op[1], op[2], prio)
                if isinstance(r, Raised):
                    env.prove(area + ".post_msg-never-raises", False, detail=lambda: r.tb)
                    return
                if op[2] not in model.registered:
                    env.cover("held")
            elif op[0] == "register":
                if model.held(op[1]):
                    env.cover("released")
                r = w.register(op[1])
                if isinstance(r, Raised):
                    env.prove(area + ".registration-with-held-messages-never-raises", False, detail=lambda: r.tb)
                    return
            elif op[0] == "unregister":
                r = w.unregister(op[1])
                if isinstance(r, Raised):
                    env.prove(area + ".unregistration-never-raises", False, detail=lambda: r.tb)
                    return
            elif op[0] == "shutdown":
                env.cover("shutdown")
                w.shutdown()
            else:
                do_next(step)
        # ---- end of the history: whatever is still held is released by registering its
        # destination (unless the agent was shut down), then the inbox is drained
        if not model.shutdown:
            for d in late:
                if d not in model.registered:
                    r = w.register(d)
                    if isinstance(r, Raised):
                        env.prove(area + ".registration-with-held-messages-never-raises", False, detail=lambda: r.tb)
                        return
        for _ in range(len(model.records) + 1):
            if do_next("drain") is None:
                break
        env.cover("drained")
        missing = [r for r in model.records if r.state == "queued" or (r.state == "held" and not model.shutdown)]
        env.prove(area + ".every-message-queued-before-the-end-or-the-shutdown-is-delivered-exactly-once",
                  not missing and all(r.delivered == 1 for r in model.records if r.state == "delivered"),
                  detail=lambda: dict(missing=missing, all=model.records))
    except _Stop:
        return


class _Stop(Exception):
    pass


def _shapes_messaging(tier):
    s = [
        dict(n_ops=4, prio="sym"),
        dict(n_ops=5, prio="sym", senders=["s_loc"]),
        dict(n_ops=5, prio="sym", senders=["r_snd"], late=["b_late"]),
        dict(n_ops=3, prio="const"),
        dict(n_ops=4, prio="const", senders=["r_snd"]),
        dict(n_ops=4, prio="mixed", senders=["s_loc"], late=["b_late"]),
    ]
    if tier == "thorough":
        s += [
            dict(n_ops=5, prio="sym"),
            dict(n_ops=6, prio="sym", senders=["s_loc"]),
            dict(n_ops=4, prio="const"),
            dict(n_ops=5, prio="mixed", senders=["r_snd"]),
            dict(n_ops=4, prio="sym", late=["e_late", "b_late"]),
            dict(n_ops=5, prio="sym", senders=["s_loc"], unregister=True),
        ]
    return s


Contract(
    "messaging.histories", ["C18"],
    ["pydcop.infrastructure.communication:Messaging.post_msg", "pydcop.infrastructure.communication:Messaging.next_msg",
     "pydcop.infrastructure.communication:Messaging._on_computation_registration",
     "pydcop.infrastructure.communication:Messaging.shutdown",
     "pydcop.infrastructure.communication:InProcessCommunicationLayer.send_msg",
     "pydcop.infrastructure.communication:InProcessCommunicationLayer.receive_msg",
     "pydcop.infrastructure.discovery:Discovery.register_computation",
     "pydcop.infrastructure.discovery:Discovery.subscribe_computation"],
    h_messaging, _shapes_messaging, mode="B", must_cover=["delivered", "held", "released", "shutdown", "drained"],
    trusted=["queue.PriorityQueue / heapq of CPython (executed for real, comparisons on symbolic message types fork)"],
    assumptions=["C18: all operations are issued from ONE thread (histories = sequential interleavings of the posts of two senders, "
                 "registrations, next_msg and shutdown); preemption of a thread inside post_msg / next_msg (e.g. between "
                 "'msg_queue_count += 1' and 'put', or inside _on_computation_registration) is NOT decided by this technique",
                 "C18: what is posted, or released by a registration, after Messaging.shutdown() may be dropped (documented behaviour); "
                 "it must still not be delivered twice"],
    budget=dict(quick=dict(max_paths=400000, timeout_s=300), thorough=dict(max_paths=4000000, timeout_s=3000)),
    desc="every history of <= 5 post/register/next_msg/shutdown operations on a real Messaging: exactly once, lowest type first, FIFO per sender, held until registration, drained after shutdown",
)
