"""Agent messaging (C18) and discovery (C20).

C18  pydcop.infrastructure.communication.Messaging (+ InProcessCommunicationLayer, a real
     Discovery) and the loop of pydcop.infrastructure.agents.Agent, driven from ONE thread:
     every history of a few operations {post, register destination, next_msg, shutdown}.
     The oracle is a model of the inbox kept by the harness; the postconditions are the
     clauses of the property statement (exactly once / lowest type first / FIFO per sender
     among equal types / held until registration / drained after a clean shutdown).
C20  pydcop.infrastructure.discovery: real Discovery / DiscoveryComputation objects of 2-3
     agents and a real Directory / DirectoryComputation wired through an in-memory router
     (per-channel FIFO, the interleaving of the channels is explored).

Nothing of pyDcop is replaced; the harness only rebinds ``message_sender`` (what
Agent.add_computation does) and, for the agent loop, runs ``Agent._run`` in the calling
thread instead of the agent's own thread.
"""
import importlib

from pvc.contract import Contract
from pvc.explore import Raised
from pvc.sym import And, Or, Not, Implies, Iff, eq, lt, le, is_sym, PathAbort, Unsupported, BudgetExceeded


# =====================================================================================
#                                      C18
# =====================================================================================

def _preimport():
    """called from the shapes functions, i.e. in the parent process of the check and only when C18 / C20 is the
    property being checked: the workers are forked and inherit the imported modules (importing requests, pulp, ...
    costs seconds per worker otherwise).  A module that does not import is reported by the harness, not here."""
    for m in ("pydcop.infrastructure.communication", "pydcop.infrastructure.discovery",
              "pydcop.infrastructure.computations", "pydcop.infrastructure.agents"):
        try:
            importlib.import_module(m)
        except BaseException:  # noqa
            pass


def _infra():
    com = importlib.import_module("pydcop.infrastructure.communication")
    dis = importlib.import_module("pydcop.infrastructure.discovery")
    cmp_ = importlib.import_module("pydcop.infrastructure.computations")
    return com, dis, cmp_


class _Rec:
    """what the harness remembers of one posted message"""
    __slots__ = ("ident", "sender", "dest", "type", "msg", "seq", "posted_at", "state", "delivered")

    def __init__(self, ident, sender, dest, mtype, msg, posted_at):
        self.ident = ident
        self.sender = sender
        self.dest = dest
        self.type = mtype
        self.msg = msg
        self.seq = None           # rank in the inbox (set when the destination is / becomes registered)
        self.posted_at = posted_at
        self.state = "new"        # held | queued | optional | delivered
        self.delivered = 0

    def __repr__(self):
        return "#%d %s->%s type=%s %s seq=%s" % (self.ident, self.sender, self.dest, self.type, self.state, self.seq)


class _InboxModel:
    """the oracle: which messages are deliverable now, and in which order they became so.

    * a message posted to a registered destination is *queued* at once;
    * a message posted to a destination that is not registered is *held*; when the destination
      registers the held messages are queued in their posting order;
    * after the shutdown nothing new has to be accepted: what is posted (or released) then is
      *optional* (the code drops it; delivering it once would not contradict the statement)."""

    def __init__(self, algo_type):
        self.algo_type = algo_type
        self.records = []
        self.registered = set()
        self.shutdown = False
        self.nseq = 0
        self.step = 0

    def queued(self):
        return [r for r in self.records if r.state == "queued"]

    def held(self, dest=None):
        return [r for r in self.records if r.state == "held" and (dest is None or r.dest == dest)]

    def post(self, sender, dest, mtype, msg):
        r = _Rec(len(self.records), sender, dest, self.algo_type if mtype is None else mtype, msg, self.step)
        self.step += 1
        self.records.append(r)
        if self.shutdown:
            r.state = "optional"
        elif dest in self.registered:
            self._enqueue(r)
        else:
            r.state = "held"
        return r

    def _enqueue(self, r):
        r.state = "queued"
        r.seq = self.nseq
        self.nseq += 1

    def register(self, dest):
        self.step += 1
        self.registered.add(dest)
        for r in self.held(dest):
            if self.shutdown:
                r.state = "optional"
            else:
                self._enqueue(r)

    def unregister(self, dest):
        self.step += 1
        self.registered.discard(dest)

    def find(self, msg):
        for r in self.records:
            if r.msg is msg:
                return r
        return None


def _check_delivery(env, area, model, got_sender, got_dest, got_msg, got_type):
    """obligations at the moment a message leaves the inbox (returned by next_msg / handed
    to the destination's handler).  Returns the record (or None)."""
    r = model.find(got_msg)
    pending = model.queued()
    det = lambda: dict(delivered=(got_sender, got_dest, got_msg, got_type), record=r, pending=pending,  # noqa
                       all=model.records)
    env.prove(area + ".delivered-message-was-posted", r is not None, detail=det)
    if r is None:
        return None
    r.delivered += 1
    env.prove(area + ".each-message-delivered-at-most-once", r.delivered == 1, detail=det)
    if r.delivered != 1:
        return r
    env.prove(area + ".delivered-with-its-sender-destination-and-type",
              And(got_sender == r.sender, got_dest == r.dest, eq(got_type, r.type)), detail=det)
    if r.state == "optional":
        r.state = "delivered"
        return r
    env.prove(area + ".not-delivered-before-its-destination-is-registered", r.state == "queued", detail=det)
    if r.state != "queued":
        r.state = "delivered"
        return r
    for o in pending:
        if o is r:
            continue
        env.prove(area + ".lower-message-type-first", le(r.type, o.type), detail=det)
        if o.sender == r.sender and o.seq < r.seq:
            env.prove(area + ".posting-order-among-same-type-messages-of-one-sender", Not(eq(o.type, r.type)), detail=det)
    r.state = "delivered"
    return r


class _Stop(Exception):
    pass


class _Hist:
    """the ``env`` handed to the history code.  Symbolic shapes: a thin wrapper, every choice is an
    ``env.choice`` (one engine path per history).  Enumerated shapes (``batch``): only the first
    ``env_levels`` choices go through the engine (they cut the job in parallel slices); the remaining choice
    vectors are enumerated here, depth first, a fresh world per history - a concrete history costs ~0.2 ms, far
    less than what the engine spends on scheduling a path."""

    def __init__(self, env, batch=False, env_levels=1):
        self.env = env
        self.params = env.params
        self.batch = batch
        self.env_levels = env_levels
        self._top = {}
        self._trace = []
        self._pos = 0
        self.failed = False
        self.log = []
        self.histories = 0

    @property
    def symbolic(self):
        return self.env.symbolic

    def runs(self):
        if not self.batch:
            yield self
            return
        while True:
            self._pos = 0
            self.log = []
            self.histories += 1
            yield self
            if self.failed:
                return
            t = self._trace
            while t and t[-1][0] >= t[-1][1] - 1:
                t.pop()
            if not t:
                return
            t[-1][0] += 1

    def choice(self, name, options):
        options = list(options)
        if not self.batch:
            v = self.env.choice(name, options)
        else:
            i = self._pos
            self._pos += 1
            if i < self.env_levels:
                if i not in self._top:
                    self._top[i] = self.env.choice(name, options)
                v = self._top[i]
            else:
                j = i - self.env_levels
                if j < len(self._trace):
                    k = self._trace[j][0]
                else:
                    self._trace.append([0, len(options)])
                    k = 0
                v = options[k]
        self.log.append((name, v))
        return v

    def int(self, name, lo=None, hi=None):
        if self.batch:
            raise Unsupported("symbolic input in an enumerated shape")
        v = self.env.int(name, lo, hi)
        self.log.append((name, v))
        return v

    def prove(self, label, cond, detail=None):
        log = list(self.log)
        ok = self.env.prove(label, cond, detail=lambda: "history=%r\n%s" % (log, detail() if callable(detail) else detail))
        if not ok:
            self.failed = True
        return ok

    def cover(self, label):
        self.env.cover(label)

    def assume(self, cond):
        self.env.assume(cond)

    def call(self, fn, *a, **kw):
        return self.env.call(fn, *a, **kw)

    def op_choice(self, step, opts):
        """the operation of step ``step``: fixed by the job (params['fix'], an index in the option list - the
        jobs of one shape partition its histories so that a job stays a single worker slice) or explored"""
        fix = self.params.get("fix") or ()
        if step < len(fix):
            if fix[step] >= len(opts):
                self.env.assume(False)
            v = opts[fix[step]]
            self.log.append(("op%d" % step, v))
            return v
        return self.choice("op%d" % step, opts)


_SENDERS = ("s_loc", "r_snd")          # a computation of the agent itself / of another agent
_DESTS = ("k_reg", "e_late", "b_late")  # registered from the start / registered by an operation


class _MsgWorld:
    """agent a_one: real Discovery + InProcessCommunicationLayer + Messaging (under contract);
    agent a_two: the same, used to send to a_one through the in-process transport."""

    def __init__(self, env, com, dis, cmp_, late):
        self.env = env
        self.com, self.dis, self.cmp = com, dis, cmp_
        self.comm1 = com.InProcessCommunicationLayer()
        self.comm1.discovery = self.d1 = dis.Discovery("a_one", self.comm1)
        self.m1 = com.Messaging("a_one", self.comm1)
        self.comm2 = com.InProcessCommunicationLayer()
        self.comm2.discovery = self.d2 = dis.Discovery("a_two", self.comm2)
        self.m2 = com.Messaging("a_two", self.comm2)
        self.d2.register_agent("a_one", self.comm1, publish=False)
        self.d1.register_computation("s_loc", "a_one", self.comm1)
        self.d1.register_computation("k_reg", "a_one", self.comm1)
        self.d2.register_computation("r_snd", "a_two", self.comm2)
        # a_two believes that every destination lives on a_one (its view may be ahead of a_one's)
        for d in ("k_reg",) + tuple(late):
            self.d2.register_computation(d, "a_one", self.comm1, publish=False)
        self.model = _InboxModel(com.MSG_ALGO)
        self.model.registered.add("k_reg")
        self.nmsg = 0

    def new_msg(self):
        self.nmsg += 1
        return self.cmp.Message("ping", 100 + self.nmsg)

    def post(self, sender, dest, prio):
        msg = self.new_msg()
        self.model.post(sender, dest, prio, msg)
        m = self.m1 if sender == "s_loc" else self.m2
        if prio is None:
            return self.env.call(m.post_msg, sender, dest, msg)
        return self.env.call(m.post_msg, sender, dest, msg, prio)

    def register(self, dest):
        r = self.env.call(self.d1.register_computation, dest, "a_one", self.comm1)
        self.model.register(dest)
        return r

    def unregister(self, dest):
        r = self.env.call(self.d1.unregister_computation, dest, "a_one")
        self.model.unregister(dest)
        return r

    def shutdown(self):
        r = self.env.call(self.m1.shutdown)
        self.model.shutdown = True
        return r


def _prio(env, com, kind, step):
    if kind == "sym":
        return env.int("prio%d" % step, 0, 30)
    if kind == "const":
        return env.choice("prio%d" % step, [com.MSG_MGT, com.MSG_ALGO, None, com.MSG_VALUE])
    if kind == "sym_hi":     # above MSG_MGT: spares the 'msg_type != MSG_MGT' fork of every post
        return env.int("prio%d" % step, 11, 30)
    if kind == "two":
        return env.choice("prio%d" % step, [com.MSG_ALGO, com.MSG_MGT])
    if kind == "mixed":
        k = env.choice("priokind%d" % step, ["sym", com.MSG_MGT, None])
        return env.int("prio%d" % step, 0, 30) if k == "sym" else k
    raise ValueError(kind)


def h_messaging(env):
    p = env.params
    mods = env.call(_infra)
    if isinstance(mods, Raised):
        env.prove("messaging.modules-import", False, detail=lambda: mods.tb)
        return
    hist = _Hist(env, bool(p.get("batch")), p.get("env_levels", 1))
    for e in hist.runs():
        _messaging_history(e, mods)


def _messaging_history(env, mods):
    p = env.params
    com, dis, cmp_ = mods
    late = list(p.get("late", ["e_late"]))
    senders = list(p.get("senders", _SENDERS))
    dests = ["k_reg"] + late
    w = _MsgWorld(env, com, dis, cmp_, late)
    model = w.model
    area = "messaging"

    def do_next(tag):
        r = env.call(w.m1.next_msg, 0)
        if isinstance(r, Raised):
            env.prove(area + ".next_msg-never-raises", False, detail=lambda: r.tb)
            raise _Stop()
        ok = isinstance(r, tuple) and len(r) == 2
        env.prove(area + ".next_msg-returns-a-pair", ok, detail=lambda: r)
        if not ok:
            raise _Stop()
        full, _t = r
        if full is None:
            env.prove(area + ".next_msg-returns-a-pending-message-when-there-is-one", not model.queued(),
                      detail=lambda: dict(pending=model.queued(), all=model.records))
            return None
        env.cover("delivered")
        ok = isinstance(full, tuple) and len(full) == 4
        env.prove(area + ".next_msg-returns-a-ComputationMessage", ok, detail=lambda: full)
        if not ok:
            raise _Stop()
        return _check_delivery(env, area, model, full[0], full[1], full[2], full[3])

    try:
        for step in range(p["n_ops"]):
            opts = [("post", s, d) for s in senders for d in dests]
            opts += [("register", d) for d in late if d not in model.registered]
            if p.get("unregister"):
                opts += [("unregister", d) for d in late if d in model.registered]
            opts.append(("next",))
            if not model.shutdown:
                opts.append(("shutdown",))
            op = env.op_choice(step, opts)
            if op[0] == "post":
                prio = _prio(env, com, p["prio"], step)
                r = w.post(op[1], op[2], prio)
                if isinstance(r, Raised):
                    env.prove(area + ".post_msg-never-raises", False, detail=lambda: r.tb)
                    return
                if op[2] not in model.registered:
                    env.cover("held")
            elif op[0] == "register":
                if model.held(op[1]):
                    env.cover("released")
                r = w.register(op[1])
                if isinstance(r, Raised):
                    env.prove(area + ".registration-with-held-messages-never-raises", False, detail=lambda: r.tb)
                    return
            elif op[0] == "unregister":
                r = w.unregister(op[1])
                if isinstance(r, Raised):
                    env.prove(area + ".unregistration-never-raises", False, detail=lambda: r.tb)
                    return
            elif op[0] == "shutdown":
                env.cover("shutdown")
                w.shutdown()
            else:
                do_next(step)
        # ---- end of the history: whatever is still held is released by registering its
        # destination (unless the agent was shut down), then the inbox is drained
        if not model.shutdown:
            for d in late:
                if d not in model.registered:
                    r = w.register(d)
                    if isinstance(r, Raised):
                        env.prove(area + ".registration-with-held-messages-never-raises", False, detail=lambda: r.tb)
                        return
        for _ in range(len(model.records) + 1):
            if do_next("drain") is None:
                break
        env.cover("drained")
        missing = [r for r in model.records if r.state == "queued" or (r.state == "held" and not model.shutdown)]
        env.prove(area + ".every-message-queued-before-the-end-or-the-shutdown-is-delivered-exactly-once",
                  not missing and all(r.delivered == 1 for r in model.records if r.state == "delivered"),
                  detail=lambda: dict(missing=missing, all=model.records))
    except _Stop:
        return


def _split(shape, levels=2):
    """one job per choice of the first ``levels`` operations (an index beyond the options of a step aborts the
    job at once): keeps every job of the quick tier within one worker slice"""
    n = len(shape.get("senders", _SENDERS)) * (1 + len(shape.get("late", ["e_late"]))) + len(shape.get("late", ["e_late"])) + 2
    n += 1 if shape.get("unregister") else 0
    out = [[]]
    for _ in range(levels):
        out = [f + [i] for f in out for i in range(n)]
    return [dict(shape, fix=f) for f in out]


def _shapes_messaging(tier):
    _preimport()
    # symbolic message types: one engine path per (history, ordering of the types), ~5-10 ms each
    s = [dict(n_ops=3, prio="sym", senders=["s_loc"]),                            # ~630 paths
         dict(n_ops=3, prio="sym", senders=["r_snd"], late=["b_late"]),           # ~630
         dict(n_ops=3, prio="sym_hi")]                                            # ~1 240
    if tier == "thorough":
        s += (_split(dict(n_ops=4, prio="sym"), 1)
              + _split(dict(n_ops=5, prio="sym_hi", senders=["s_loc"]), 1)
              + [dict(n_ops=3, prio="sym"),
                 dict(n_ops=4, prio="sym_hi", senders=["s_loc"]),
                 dict(n_ops=3, prio="mixed", senders=["r_snd"], late=["b_late"]),
                 dict(n_ops=4, prio="sym", senders=["r_snd"], late=["b_late"]),
                 dict(n_ops=4, prio="mixed", senders=["s_loc"], late=["b_late"]),
                 dict(n_ops=3, prio="sym", late=["e_late", "b_late"]),
                 dict(n_ops=4, prio="sym_hi", senders=["s_loc"], unregister=True)])
    return s


def _shapes_messaging_enum(tier):
    _preimport()
    # the pyDcop constants (and the default): histories enumerated inside the harness, ~0.2 ms each
    s = [
        dict(batch=True, n_ops=3, prio="const"),                                          # 6 700 histories
        dict(batch=True, n_ops=4, prio="const", senders=["r_snd"]),                       # 13 400
        dict(batch=True, n_ops=5, prio="two", senders=["s_loc"]),                         # 11 900
        dict(batch=True, n_ops=5, prio="two", senders=["r_snd"], late=["b_late"]),        # 11 900
    ]
    if tier == "thorough":
        s += [
            dict(batch=True, n_ops=4, prio="const"),
            dict(batch=True, n_ops=5, prio="two"),
            dict(batch=True, n_ops=6, prio="two", senders=["r_snd"]),
            dict(batch=True, n_ops=5, prio="two", late=["e_late", "b_late"], senders=["s_loc"]),
            dict(batch=True, n_ops=6, prio="two", senders=["s_loc"], unregister=True),
        ]
    return s


_MSG_TARGETS = ["pydcop.infrastructure.communication:Messaging.post_msg", "pydcop.infrastructure.communication:Messaging.next_msg",
                "pydcop.infrastructure.communication:Messaging._on_computation_registration",
                "pydcop.infrastructure.communication:Messaging.shutdown",
                "pydcop.infrastructure.communication:InProcessCommunicationLayer.send_msg",
                "pydcop.infrastructure.communication:InProcessCommunicationLayer.receive_msg",
                "pydcop.infrastructure.discovery:Discovery.register_computation",
                "pydcop.infrastructure.discovery:Discovery.subscribe_computation"]
_MSG_ASSUME = ["C18: all operations are issued from ONE thread (histories = sequential interleavings of the posts of two senders, "
               "registrations, next_msg and shutdown); preemption of a thread inside post_msg / next_msg (e.g. between "
               "'msg_queue_count += 1' and 'put', or inside _on_computation_registration) is NOT decided by this technique",
               "C18: what is posted, or released by a registration, after Messaging.shutdown() may be dropped (documented behaviour); "
               "it must still not be delivered twice"]
_MSG_COVER = ["delivered", "held", "released", "shutdown", "drained"]

Contract(
    "messaging.histories", ["C18"], _MSG_TARGETS, h_messaging, _shapes_messaging, mode="B", must_cover=_MSG_COVER,
    trusted=["queue.PriorityQueue / heapq of CPython (executed for real, comparisons on symbolic message types fork)"],
    assumptions=_MSG_ASSUME,
    budget=dict(quick=dict(max_paths=400000, timeout_s=560), thorough=dict(max_paths=4000000, timeout_s=3400)),
    desc="every history of <= 4 post/register/next_msg/shutdown operations on a real Messaging, message types = arbitrary integers: exactly once, lowest type first, FIFO per sender, held until registration, drained after shutdown",
)

Contract(
    "messaging.histories-enumerated", ["C18"], _MSG_TARGETS, h_messaging, _shapes_messaging_enum, mode="E", must_cover=_MSG_COVER,
    trusted=["queue.PriorityQueue / heapq of CPython (executed for real)"],
    assumptions=_MSG_ASSUME,
    budget=dict(quick=dict(max_paths=400000, timeout_s=560), thorough=dict(max_paths=4000000, timeout_s=3400)),
    desc="the same on every history of <= 5 operations with the message types MSG_MGT / MSG_VALUE / MSG_ALGO / default",
)


# ---------------------------------------------------------------- the agent loop (C18)

class _NoThread:
    """stands for the agent's thread: Agent.start() 'starts' it, the harness then runs the
    thread's target (Agent._run) itself, in the calling thread"""
    daemon = False

    def start(self):
        pass

    def join(self, timeout=None):
        pass


_REC_CLASS = {}


def _rec_class(cmp_):
    """a computation whose registered handler records (destination, sender, message)"""
    if cmp_ not in _REC_CLASS:
        class RecComputation(cmp_.MessagePassingComputation):
            def __init__(self, name, sink):
                super().__init__(name)
                self.sink = sink

            @cmp_.register("ping")
            def _on_ping(self, sender, msg, t):
                self.sink(self.name, sender, msg, t)

        _REC_CLASS[cmp_] = RecComputation
    return _REC_CLASS[cmp_]


_ENGINE_EXC = (PathAbort, Unsupported, BudgetExceeded)


def h_agent_loop(env):
    p = env.params
    mods = env.call(_infra)
    ag = env.call(importlib.import_module, "pydcop.infrastructure.agents")
    if isinstance(mods, Raised) or isinstance(ag, Raised):
        env.prove("agent.modules-import", False, detail=lambda: (mods, ag))
        return
    ag.sleep = lambda s: None          # Agent._on_stop waits 0.5 s for the network: no network here
    hist = _Hist(env, bool(p.get("batch")), p.get("env_levels", 2))
    for e in hist.runs():
        _agent_history(e, mods, ag)


def _agent_history(env, mods, ag):
    p = env.params
    com, dis, cmp_ = mods
    area = "agent"
    Rec = _rec_class(cmp_)
    late = list(p.get("late", ["e_late"]))
    senders = list(p.get("senders", _SENDERS))
    dests = ["k_reg"] + late

    a1 = ag.Agent("a_one", com.InProcessCommunicationLayer())
    a2 = ag.Agent("a_two", com.InProcessCommunicationLayer())
    a1.t = _NoThread()
    a2.discovery.register_agent("a_one", a1.address, publish=False)
    model = _InboxModel(com.MSG_ALGO)
    st = dict(budget=p["n_ops"], shutdown=False, step=0, handled=[], engine_exc=None, fatal=[], in_loop=False,
              current=None, nmsg=0)

    def guarded(fn):
        """harness code that runs inside Agent._run: the loop's 'except Exception' / bare 'except:' would swallow
        the engine's control exceptions and the harness' own errors, so they are kept and re-raised afterwards"""
        def g(*a, **kw):
            try:
                return fn(*a, **kw)
            except BaseException as e:  # noqa
                if st["engine_exc"] is None:
                    st["engine_exc"] = e
                a1.stop()
                return None
        return g

    @guarded
    def sink(dest, sender, msg, t):
        st["handled"].append((dest, sender, msg))
        cur = st["current"]
        st["current"] = None
        env.cover("handled")
        # the agent took ``cur`` out of the inbox and hands it to a computation: same message, right computation
        env.prove(area + ".handler-gets-the-message-just-taken-from-the-inbox-with-its-sender",
                  cur is not None and cur[2] is msg and cur[0] == sender and cur[1] == dest,
                  detail=lambda: dict(taken=cur, handed=(dest, sender, msg)))

    comps = {}

    def add(agent, name):
        c = Rec(name, sink)
        comps[name] = c
        r = env.call(agent.add_computation, c)
        if isinstance(r, Raised):
            return r
        return env.call(c.start)     # what Agent.run() does for each hosted computation

    for agent, name in ((a1, "s_loc"), (a1, "k_reg"), (a2, "r_snd")):
        r = add(agent, name)
        if isinstance(r, Raised):
            env.prove(area + ".add_computation-never-raises", False, detail=lambda: r.tb)
            return
    model.registered.add("k_reg")
    for d in dests:
        a2.discovery.register_computation(d, "a_one", a1.address, publish=False)

    # ---- observation points: what next_msg returns inside the loop, and fatal errors of the loop
    real_next = a1._messaging.next_msg

    def next_msg(timeout=0):
        # the loop waits up to 50 ms for a message; nobody else can post while this (single) thread
        # waits, so the wait is cut to 0: same result, no sleeping
        try:
            r = real_next(0)
        except _ENGINE_EXC as e:        # Agent._run has a bare 'except:' that would swallow the engine's signals
            st["engine_exc"] = e
            raise
        observe_next(r)
        return r

    @guarded
    def observe_next(r):
        full = r[0] if isinstance(r, tuple) and r else None
        if full is not None:
            env.prove(area + ".previous-message-was-handed-to-a-computation-before-the-next-is-taken",
                      st["current"] is None, detail=lambda: st["current"])
            ok = isinstance(full, tuple) and len(full) == 4
            env.prove(area + ".next_msg-returns-a-ComputationMessage", ok, detail=lambda: full)
            if ok:
                st["current"] = tuple(full)
                _check_delivery(env, area, model, full[0], full[1], full[2], full[3])
        else:
            env.prove(area + ".loop-sees-an-empty-inbox-only-when-nothing-is-pending", not model.queued(),
                      detail=lambda: dict(pending=model.queued()))

    a1._messaging.next_msg = next_msg
    a1.on_fatal_error = lambda e: st["fatal"].append(e)

    def do_op():
        step = st["step"]
        st["step"] += 1
        st["budget"] -= 1
        opts = [("post", s, d) for s in senders for d in dests]
        opts += [("add", d) for d in late if d not in model.registered]
        if not st["shutdown"]:
            opts.append(("shutdown",))
        op = env.choice("op%d" % step, opts)
        if op[0] == "post":
            prio = _prio(env, com, p["prio"], step)
            st["nmsg"] += 1
            msg = cmp_.Message("ping", 100 + st["nmsg"])
            model.post(op[1], op[2], prio, msg)
            if op[2] not in model.registered and not st["shutdown"]:
                env.cover("held")
            if st["in_loop"]:
                env.cover("posted-while-running")
            # through the computation's own API (MessagePassingComputation.post_msg -> Messaging.post_msg
            # [-> InProcessCommunicationLayer.send_msg/receive_msg -> Messaging.post_msg of a_one])
            r = env.call(comps[op[1]].post_msg, op[2], msg, prio)
            if isinstance(r, Raised):
                env.prove(area + ".post_msg-never-raises", False, detail=lambda: r.tb)
                raise _Stop()
        elif op[0] == "add":
            if model.held(op[1]) and not st["shutdown"]:
                env.cover("released")
            r = add(a1, op[1])
            model.register(op[1])
            if isinstance(r, Raised):
                env.prove(area + ".add_computation-never-raises", False, detail=lambda: r.tb)
                raise _Stop()
        else:
            if model.queued():
                env.cover("shutdown-with-pending-messages")
            a1.clean_shutdown()
            st["shutdown"] = True
            model.shutdown = True

    real_ppa = a1._process_periodic_action

    def between_two_loop_iterations():
        # the place where the effect of another thread's post / registration / shutdown request
        # becomes visible to the loop
        real_ppa()
        if st["engine_exc"] is None:
            inject()

    @guarded
    def inject():
        while st["budget"] > 0 and (not model.queued() or env.choice("inject%d" % st["step"], [False, True])):
            do_op()
        if st["budget"] <= 0 and not st["shutdown"]:
            if model.queued():
                env.cover("shutdown-with-pending-messages")
            a1.clean_shutdown()
            st["shutdown"] = True
            model.shutdown = True

    a1._process_periodic_action = between_two_loop_iterations

    try:
        # operations before the agent's thread runs (messages can be posted to a Messaging from its creation)
        while st["budget"] > 0 and env.choice("before_start%d" % st["step"], [False, True]):
            do_op()
    except _Stop:
        return
    r = env.call(a1.start)
    if isinstance(r, Raised):
        env.prove(area + ".start-never-raises", False, detail=lambda: r.tb)
        return
    st["in_loop"] = True
    r = env.call(a1._run)
    st["in_loop"] = False
    if st["engine_exc"] is not None:
        if isinstance(st["engine_exc"], _Stop):
            return
        raise st["engine_exc"]
    env.cover("loop-ended")
    env.prove(area + ".loop-ends-after-a-clean-shutdown-without-error", (not isinstance(r, Raised)) and not st["fatal"],
              detail=lambda: (r.tb if isinstance(r, Raised) else None, st["fatal"]))
    env.prove(area + ".loop-ended-because-of-the-shutdown", st["shutdown"])
    missing = [x for x in model.records if x.state == "queued"]
    env.prove(area + ".every-message-queued-before-the-clean-shutdown-was-handled",
              not missing and st["current"] is None, detail=lambda: dict(missing=missing, all=model.records, current=st["current"]))
    for x in model.records:
        n = sum(1 for (d, s, m) in st["handled"] if m is x.msg)
        if x.state == "delivered":
            env.prove(area + ".each-message-handled-exactly-once-by-its-destination",
                      n == 1 and all(d == x.dest and s == x.sender for (d, s, m) in st["handled"] if m is x.msg),
                      detail=lambda: dict(record=x, handled=st["handled"]))
        else:
            env.prove(area + ".no-message-handled-before-its-destination-registered-or-twice", n == 0,
                      detail=lambda: dict(record=x, handled=st["handled"]))


def _shapes_agent(tier):
    _preimport()
    s = [dict(n_ops=3, prio="sym_hi", senders=["r_snd"])]                     # ~400 paths (symbolic)
    if tier == "thorough":
        s += [dict(n_ops=3, prio="sym"), dict(n_ops=4, prio="sym_hi", senders=["s_loc"])]
    return s


def _shapes_agent_enum(tier):
    _preimport()
    s = [
        dict(batch=True, n_ops=3, prio="two"),                                            # ~5 500 histories
        dict(batch=True, n_ops=3, prio="const", senders=["s_loc"]),                       # ~5 500
        dict(batch=True, n_ops=4, prio="two", senders=["s_loc"]),                         # ~10 500
        dict(batch=True, n_ops=4, prio="two", senders=["r_snd"], late=["b_late"]),        # ~10 500
    ]
    if tier == "thorough":
        s += [
            dict(batch=True, n_ops=4, prio="two"),
            dict(batch=True, n_ops=5, prio="two", senders=["s_loc"]),
            dict(batch=True, n_ops=3, prio="const"),
            dict(batch=True, n_ops=4, prio="const", senders=["r_snd"]),
            dict(batch=True, n_ops=4, prio="two", late=["e_late", "b_late"], senders=["s_loc"]),
        ]
    return s


_AGT_TARGETS = ["pydcop.infrastructure.agents:Agent._run", "pydcop.infrastructure.agents:Agent._handle_message",
                "pydcop.infrastructure.agents:Agent.clean_shutdown", "pydcop.infrastructure.agents:Agent.add_computation",
                "pydcop.infrastructure.agents:Agent.start", "pydcop.infrastructure.agents:Agent._on_start",
                "pydcop.infrastructure.agents:Agent._on_stop",
                "pydcop.infrastructure.communication:Messaging.post_msg", "pydcop.infrastructure.communication:Messaging.next_msg",
                "pydcop.infrastructure.communication:Messaging._on_computation_registration",
                "pydcop.infrastructure.communication:Messaging.shutdown",
                "pydcop.infrastructure.computations:MessagePassingComputation.on_message",
                "pydcop.infrastructure.computations:MessagePassingComputation.post_msg"]
_AGT_COVER = ["handled", "held", "released", "posted-while-running", "shutdown-with-pending-messages", "loop-ended"]
_AGT_TRUSTED = ["Agent._run is executed in the harness' thread (Agent.t replaced by a no-op thread object); the operations of the "
                "other threads are injected between two iterations of the loop (hook on Agent._process_periodic_action)",
                "the 50 ms wait of next_msg inside the loop is cut to 0 (single thread: nothing can arrive while waiting); "
                "agents.sleep is a no-op (Agent._on_stop's 0.5 s network grace period)"]
_AGT_ASSUME = ["C18: the agent loop is run by one thread and the posts / registrations / shutdown request of the other threads take "
               "effect between two loop iterations or before the loop starts; finer preemption points are NOT decided",
               "C18: destinations are started computations (messages to a computation that is not started or is paused are "
               "buffered by the computation itself: property C19)"]

Contract(
    "agent.run-loop", ["C18"], _AGT_TARGETS, h_agent_loop, _shapes_agent, mode="B", must_cover=_AGT_COVER,
    trusted=_AGT_TRUSTED, assumptions=_AGT_ASSUME,
    budget=dict(quick=dict(max_paths=400000, timeout_s=560), thorough=dict(max_paths=4000000, timeout_s=3400)),
    desc="real Agent loop, message types = arbitrary integers: every history of <= 3 post/add_computation/clean_shutdown operations placed before the start or between loop iterations; each queued message handled once by its destination, by type then FIFO, all of them before the loop ends",
)

Contract(
    "agent.run-loop-enumerated", ["C18"], _AGT_TARGETS, h_agent_loop, _shapes_agent_enum, mode="E", must_cover=_AGT_COVER,
    trusted=_AGT_TRUSTED, assumptions=_AGT_ASSUME,
    budget=dict(quick=dict(max_paths=400000, timeout_s=560), thorough=dict(max_paths=4000000, timeout_s=3400)),
    desc="the same on every history of <= 4 operations with the pyDcop message types",
)
