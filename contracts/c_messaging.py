"""Agent messaging (C18) and discovery (C20).

C18  pydcop.infrastructure.communication.Messaging (+ InProcessCommunicationLayer, a real
     Discovery) and the loop of pydcop.infrastructure.agents.Agent, driven from ONE thread:
     every history of a few operations {post, register destination, next_msg, shutdown}.
     The oracle is a model of the inbox kept by the harness; the postconditions are the
     clauses of the property statement (exactly once / lowest type first / FIFO per sender
     among equal types / held until registration / drained after a clean shutdown).
C20  pydcop.infrastructure.discovery: real Discovery / DiscoveryComputation objects of 2-3
     agents and a real Directory / DirectoryComputation wired through an in-memory router
     (per-channel FIFO, the interleaving of the channels is explored).

Nothing of pyDcop is replaced; the harness only rebinds ``message_sender`` (what
Agent.add_computation does) and, for the agent loop, runs ``Agent._run`` in the calling
thread instead of the agent's own thread.
"""
import importlib

from pvc.contract import Contract
from pvc.explore import Raised
from pvc.sym import And, Not, eq, le, PathAbort, Unsupported, BudgetExceeded


# =====================================================================================
#                                      C18
# =====================================================================================

def _preimport():
    """called from the shapes functions, i.e. in the parent process of the check and only when C18 / C20 is the
    property being checked: the workers are forked and inherit the imported modules (importing requests, pulp, ...
    costs seconds per worker otherwise).  A module that does not import is reported by the harness, not here."""
    for m in ("pydcop.infrastructure.communication", "pydcop.infrastructure.discovery",
              "pydcop.infrastructure.computations", "pydcop.infrastructure.agents"):
        try:
            importlib.import_module(m)
        except BaseException:  # noqa
            pass


def _infra():
    com = importlib.import_module("pydcop.infrastructure.communication")
    dis = importlib.import_module("pydcop.infrastructure.discovery")
    cmp_ = importlib.import_module("pydcop.infrastructure.computations")
    return com, dis, cmp_


class _Rec:
    """what the harness remembers of one posted message"""
    __slots__ = ("ident", "sender", "dest", "type", "msg", "seq", "posted_at", "state", "delivered")

    def __init__(self, ident, sender, dest, mtype, msg, posted_at):
        self.ident = ident
        self.sender = sender
        self.dest = dest
        self.type = mtype
        self.msg = msg
        self.seq = None           # rank in the inbox (set when the destination is / becomes registered)
        self.posted_at = posted_at
        self.state = "new"        # held | queued | optional | delivered
        self.delivered = 0

    def __repr__(self):
        return "#%d %s->%s type=%s %s seq=%s" % (self.ident, self.sender, self.dest, self.type, self.state, self.seq)


class _InboxModel:
    """the oracle: which messages are deliverable now, and in which order they became so.

    * a message posted to a registered destination is *queued* at once;
    * a message posted to a destination that is not registered is *held*; when the destination
      registers the held messages are queued in their posting order;
    * after the shutdown nothing new has to be accepted: what is posted (or released) then is
      *optional* (the code drops it; delivering it once would not contradict the statement)."""

    def __init__(self, algo_type):
        self.algo_type = algo_type
        self.records = []
        self.registered = set()
        self.shutdown = False
        self.nseq = 0
        self.step = 0

    def queued(self):
        return [r for r in self.records if r.state == "queued"]

    def held(self, dest=None):
        return [r for r in self.records if r.state == "held" and (dest is None or r.dest == dest)]

    def post(self, sender, dest, mtype, msg):
        r = _Rec(len(self.records), sender, dest, self.algo_type if mtype is None else mtype, msg, self.step)
        self.step += 1
        self.records.append(r)
        if self.shutdown:
            r.state = "optional"
        elif dest in self.registered:
            self._enqueue(r)
        else:
            r.state = "held"
        return r

    def _enqueue(self, r):
        r.state = "queued"
        r.seq = self.nseq
        self.nseq += 1

    def register(self, dest):
        self.step += 1
        self.registered.add(dest)
        for r in self.held(dest):
            if self.shutdown:
                r.state = "optional"
            else:
                self._enqueue(r)

    def unregister(self, dest):
        self.step += 1
        self.registered.discard(dest)

    def find(self, msg):
        for r in self.records:
            if r.msg is msg:
                return r
        return None


def _check_delivery(env, area, model, got_sender, got_dest, got_msg, got_type):
    """obligations at the moment a message leaves the inbox (returned by next_msg / handed
    to the destination's handler).  Returns the record (or None)."""
    r = model.find(got_msg)
    pending = model.queued()
    det = lambda: dict(delivered=(got_sender, got_dest, got_msg, got_type), record=r, pending=pending,  # noqa
                       all=model.records)
    env.prove(area + ".delivered-message-was-posted", r is not None, detail=det)
    if r is None:
        return None
    r.delivered += 1
    env.prove(area + ".each-message-delivered-at-most-once", r.delivered == 1, detail=det)
    if r.delivered != 1:
        return r
    env.prove(area + ".delivered-with-its-sender-destination-and-type",
              And(got_sender == r.sender, got_dest == r.dest, eq(got_type, r.type)), detail=det)
    if r.state == "optional":
        r.state = "delivered"
        return r
    env.prove(area + ".not-delivered-before-its-destination-is-registered", r.state == "queued", detail=det)
    if r.state != "queued":
        r.state = "delivered"
        return r
    for o in pending:
        if o is r:
            continue
        env.prove(area + ".lower-message-type-first", le(r.type, o.type), detail=det)
        if o.sender == r.sender and o.seq < r.seq:
            env.prove(area + ".posting-order-among-same-type-messages-of-one-sender", Not(eq(o.type, r.type)), detail=det)
    r.state = "delivered"
    return r


class _Stop(Exception):
    pass


_FROZEN = []


def _freeze_heap():
    """the workers are forked from a parent with a large heap (z3, numpy, every contract module): without this, each
    full garbage collection triggered by the many short-lived objects of the histories walks - and, after a fork,
    copies - that whole heap.  gc.freeze() parks the objects that exist now outside the collector (once per process)."""
    if not _FROZEN:
        import gc
        gc.collect()
        gc.freeze()
        _FROZEN.append(True)


class _Hist:
    """the ``env`` handed to the history code.  Symbolic shapes: a thin wrapper, every choice is an
    ``env.choice`` (one engine path per history).  Enumerated shapes (``batch``): only the first
    ``env_levels`` choices go through the engine (they cut the job in parallel slices); the remaining choice
    vectors are enumerated here, depth first, a fresh world per history - a concrete history costs ~0.2 ms, far
    less than what the engine spends on scheduling a path."""

    def __init__(self, env, batch=False, env_levels=1):
        self.env = env
        self.params = env.params
        self.batch = batch
        self.env_levels = env_levels
        self._top = {}
        self._trace = []
        self._pos = 0
        self.failed = False
        self.log = []
        self.histories = 0
        self.keep_going = False     # enumerated discovery jobs: report every failing label once, do not stop
        self.muted = set()

    @property
    def symbolic(self):
        return self.env.symbolic

    def runs(self):
        _freeze_heap()
        if not self.batch:
            yield self
            return
        while True:
            self._pos = 0
            self.log = []
            self.histories += 1
            yield self
            if self.failed:
                return
            t = self._trace
            while t and t[-1][0] >= t[-1][1] - 1:
                t.pop()
            if not t:
                return
            t[-1][0] += 1

    def choice(self, name, options):
        options = list(options)
        if not self.batch:
            v = self.env.choice(name, options)
        else:
            i = self._pos
            self._pos += 1
            if i < self.env_levels:
                if i not in self._top:
                    self._top[i] = self.env.choice(name, options)
                v = self._top[i]
            else:
                j = i - self.env_levels
                if j < len(self._trace):
                    k = self._trace[j][0]
                else:
                    self._trace.append([0, len(options)])
                    k = 0
                v = options[k]
        self.log.append((name, v))
        return v

    def int(self, name, lo=None, hi=None):
        if self.batch:
            raise Unsupported("symbolic input in an enumerated shape")
        v = self.env.int(name, lo, hi)
        self.log.append((name, v))
        return v

    def prove(self, label, cond, detail=None):
        if label in self.muted:
            return True
        log = list(self.log)
        ok = self.env.prove(label, cond, detail=lambda: "history=%r\n%s" % (log, detail() if callable(detail) else detail))
        if not ok:
            if self.keep_going:
                self.muted.add(label)
            else:
                self.failed = True
        return ok

    def cover(self, label):
        self.env.cover(label)

    def assume(self, cond):
        self.env.assume(cond)

    def call(self, fn, *a, **kw):
        return self.env.call(fn, *a, **kw)

    def op_choice(self, step, opts):
        """the operation of step ``step``: fixed by the job (params['fix'], an index in the option list - the
        jobs of one shape partition its histories so that a job stays a single worker slice) or explored"""
        fix = self.params.get("fix") or ()
        if step < len(fix):
            if fix[step] >= len(opts):
                self.env.assume(False)
            v = opts[fix[step]]
            self.log.append(("op%d" % step, v))
            return v
        return self.choice("op%d" % step, opts)


_SENDERS = ("s_loc", "r_snd")          # a computation of the agent itself / of another agent
# destinations: "k_reg" is registered from the start, "e_late" / "b_late" are registered by an operation of the history


class _MsgWorld:
    """agent a_one: real Discovery + InProcessCommunicationLayer + Messaging (under contract);
    agent a_two: the same, used to send to a_one through the in-process transport."""

    def __init__(self, env, com, dis, cmp_, late):
        self.env = env
        self.com, self.dis, self.cmp = com, dis, cmp_
        self.comm1 = com.InProcessCommunicationLayer()
        self.comm1.discovery = self.d1 = dis.Discovery("a_one", self.comm1)
        self.m1 = com.Messaging("a_one", self.comm1)
        self.comm2 = com.InProcessCommunicationLayer()
        self.comm2.discovery = self.d2 = dis.Discovery("a_two", self.comm2)
        self.m2 = com.Messaging("a_two", self.comm2)
        self.d2.register_agent("a_one", self.comm1, publish=False)
        self.d1.register_computation("s_loc", "a_one", self.comm1)
        self.d1.register_computation("k_reg", "a_one", self.comm1)
        self.d2.register_computation("r_snd", "a_two", self.comm2)
        # a_two believes that every destination lives on a_one (its view may be ahead of a_one's)
        for d in ("k_reg",) + tuple(late):
            self.d2.register_computation(d, "a_one", self.comm1, publish=False)
        self.model = _InboxModel(com.MSG_ALGO)
        self.model.registered.add("k_reg")
        self.nmsg = 0

    def new_msg(self):
        self.nmsg += 1
        # same_content: every message posted compares equal to the others (pyDcop messages compare by content) - they are
        # still distinct messages, each owed its own delivery (the oracle tracks them by identity)
        return self.cmp.Message("ping", 100 if self.env.params.get("same_content") else 100 + self.nmsg)

    def post(self, sender, dest, prio):
        msg = self.new_msg()
        self.model.post(sender, dest, prio, msg)
        m = self.m1 if sender == "s_loc" else self.m2
        if prio is None:
            return self.env.call(m.post_msg, sender, dest, msg)
        return self.env.call(m.post_msg, sender, dest, msg, prio)

    def register(self, dest):
        r = self.env.call(self.d1.register_computation, dest, "a_one", self.comm1)
        self.model.register(dest)
        return r

    def unregister(self, dest):
        r = self.env.call(self.d1.unregister_computation, dest, "a_one")
        self.model.unregister(dest)
        return r

    def shutdown(self):
        r = self.env.call(self.m1.shutdown)
        self.model.shutdown = True
        return r


def _prio(env, com, kind, step):
    if kind == "sym":
        return env.int("prio%d" % step, 0, 30)
    if kind == "const":
        return env.choice("prio%d" % step, [com.MSG_MGT, com.MSG_ALGO, None, com.MSG_VALUE])
    if kind == "sym_hi":     # above MSG_MGT: spares the 'msg_type != MSG_MGT' fork of every post
        return env.int("prio%d" % step, 11, 30)
    if kind == "two":
        return env.choice("prio%d" % step, [com.MSG_ALGO, com.MSG_MGT])
    if kind == "mixed":
        k = env.choice("priokind%d" % step, ["sym", com.MSG_MGT, None])
        return env.int("prio%d" % step, 0, 30) if k == "sym" else k
    raise ValueError(kind)


def h_messaging(env):
    p = env.params
    mods = env.call(_infra)
    if isinstance(mods, Raised):
        env.prove("messaging.modules-import", False, detail=lambda: mods.tb)
        return
    hist = _Hist(env, bool(p.get("batch")), p.get("env_levels", 1))
    for e in hist.runs():
        _messaging_history(e, mods)


def _messaging_history(env, mods):
    p = env.params
    com, dis, cmp_ = mods
    late = list(p.get("late", ["e_late"]))
    senders = list(p.get("senders", _SENDERS))
    dests = ["k_reg"] + late
    w = _MsgWorld(env, com, dis, cmp_, late)
    model = w.model
    area = "messaging"

    def do_next(tag):
        r = env.call(w.m1.next_msg, 0)
        if isinstance(r, Raised):
            env.prove(area + ".next_msg-never-raises", False, detail=lambda: r.tb)
            raise _Stop()
        ok = isinstance(r, tuple) and len(r) == 2
        env.prove(area + ".next_msg-returns-a-pair", ok, detail=lambda: r)
        if not ok:
            raise _Stop()
        full, _t = r
        if full is None:
            env.prove(area + ".next_msg-returns-a-pending-message-when-there-is-one", not model.queued(),
                      detail=lambda: dict(pending=model.queued(), all=model.records))
            return None
        env.cover("delivered")
        ok = isinstance(full, tuple) and len(full) == 4
        env.prove(area + ".next_msg-returns-a-ComputationMessage", ok, detail=lambda: full)
        if not ok:
            raise _Stop()
        return _check_delivery(env, area, model, full[0], full[1], full[2], full[3])

    try:
        for step in range(p["n_ops"]):
            opts = [("post", s, d) for s in senders for d in dests]
            opts += [("register", d) for d in late if d not in model.registered]
            if p.get("unregister"):
                opts += [("unregister", d) for d in late if d in model.registered]
            opts.append(("next",))
            if not model.shutdown:
                opts.append(("shutdown",))
            op = env.op_choice(step, opts)
            if op[0] == "post":
                prio = _prio(env, com, p["prio"], step)
                r = w.post(op[1], op[2], prio)
                if isinstance(r, Raised):
                    env.prove(area + ".post_msg-never-raises", False, detail=lambda: r.tb)
                    return
                if op[2] not in model.registered:
                    env.cover("held")
            elif op[0] == "register":
                if model.held(op[1]):
                    env.cover("released")
                r = w.register(op[1])
                if isinstance(r, Raised):
                    env.prove(area + ".registration-with-held-messages-never-raises", False, detail=lambda: r.tb)
                    return
            elif op[0] == "unregister":
                r = w.unregister(op[1])
                if isinstance(r, Raised):
                    env.prove(area + ".unregistration-never-raises", False, detail=lambda: r.tb)
                    return
            elif op[0] == "shutdown":
                env.cover("shutdown")
                w.shutdown()
            else:
                do_next(step)
        # ---- end of the history: whatever is still held is released by registering its
        # destination (unless the agent was shut down), then the inbox is drained
        if not model.shutdown:
            for d in late:
                if d not in model.registered:
                    r = w.register(d)
                    if isinstance(r, Raised):
                        env.prove(area + ".registration-with-held-messages-never-raises", False, detail=lambda: r.tb)
                        return
        for _ in range(len(model.records) + 1):
            if do_next("drain") is None:
                break
        env.cover("drained")
        missing = [r for r in model.records if r.state == "queued" or (r.state == "held" and not model.shutdown)]
        env.prove(area + ".every-message-queued-before-the-end-or-the-shutdown-is-delivered-exactly-once",
                  not missing and all(r.delivered == 1 for r in model.records if r.state == "delivered"),
                  detail=lambda: dict(missing=missing, all=model.records))
    except _Stop:
        return


def _split(shape, levels=2):
    """one job per choice of the first ``levels`` operations (an index beyond the options of a step aborts the
    job at once): keeps every job of the quick tier within one worker slice"""
    n = len(shape.get("senders", _SENDERS)) * (1 + len(shape.get("late", ["e_late"]))) + len(shape.get("late", ["e_late"])) + 2
    n += 1 if shape.get("unregister") else 0
    out = [[]]
    for _ in range(levels):
        out = [f + [i] for f in out for i in range(n)]
    return [dict(shape, fix=f) for f in out]


def _shapes_messaging(tier):
    _preimport()
    # symbolic message types: one engine path per (history, ordering of the types), ~5-10 ms each
    s = [dict(n_ops=3, prio="sym", senders=["s_loc"]),                            # ~630 paths
         dict(n_ops=3, prio="sym", senders=["r_snd"], late=["b_late"])]           # ~630
    if tier == "thorough":
        s += (_split(dict(n_ops=5, prio="sym_hi", senders=["s_loc"]), 1)                  # ~20 000 paths in all
              + [dict(n_ops=3, prio="sym"),                                              # ~3 800
                 dict(n_ops=3, prio="sym_hi"),                                           # ~1 240
                 dict(n_ops=4, prio="sym", senders=["s_loc"]),                           # ~8 400
                 dict(n_ops=4, prio="sym", senders=["r_snd"], late=["b_late"]),          # ~8 900
                 dict(n_ops=4, prio="sym_hi"),
                 dict(n_ops=3, prio="mixed", senders=["r_snd"], late=["b_late"]),        # ~2 600
                 dict(n_ops=3, prio="sym", late=["e_late", "b_late"]),
                 dict(n_ops=4, prio="sym_hi", senders=["s_loc"], unregister=True)])
    return s


def _shapes_messaging_enum(tier):
    _preimport()
    # the pyDcop constants (and the default): histories enumerated inside the harness, ~0.2 ms each
    s = [
        dict(batch=True, n_ops=3, prio="const"),                                          # 6 700 histories
        dict(batch=True, n_ops=4, prio="const", senders=["r_snd"]),                       # 13 400
        dict(batch=True, n_ops=5, prio="two", senders=["s_loc"]),                         # 11 900
        dict(batch=True, n_ops=5, prio="two", senders=["r_snd"], late=["b_late"]),        # 11 900
        dict(batch=True, n_ops=4, prio="two", senders=["s_loc"], late=["e_late", "b_late"]),   # two late destinations
        # messages that compare equal to one another (an algorithm re-sending an unchanged value)
        dict(batch=True, n_ops=4, prio="two", senders=["r_snd"], late=["b_late"], same_content=True),
        dict(batch=True, n_ops=4, prio="const", senders=["s_loc"], same_content=True),
    ]
    if tier == "thorough":
        s += [
            dict(batch=True, n_ops=4, prio="const"),
            dict(batch=True, n_ops=5, prio="two"),
            dict(batch=True, n_ops=6, prio="two", senders=["r_snd"]),
            dict(batch=True, n_ops=5, prio="two", late=["e_late", "b_late"], senders=["s_loc"]),
            dict(batch=True, n_ops=6, prio="two", senders=["s_loc"], unregister=True),
        ]
    return s


_MSG_TARGETS = ["pydcop.infrastructure.communication:Messaging.post_msg", "pydcop.infrastructure.communication:Messaging.next_msg",
                "pydcop.infrastructure.communication:Messaging._on_computation_registration",
                "pydcop.infrastructure.communication:Messaging.shutdown",
                "pydcop.infrastructure.communication:InProcessCommunicationLayer.send_msg",
                "pydcop.infrastructure.communication:InProcessCommunicationLayer.receive_msg",
                "pydcop.infrastructure.discovery:Discovery.register_computation",
                "pydcop.infrastructure.discovery:Discovery.subscribe_computation"]
_MSG_ASSUME = ["C18: all operations are issued from ONE thread (histories = sequential interleavings of the posts of two senders, "
               "registrations, next_msg and shutdown); preemption of a thread inside post_msg / next_msg (e.g. between "
               "'msg_queue_count += 1' and 'put', or inside _on_computation_registration) is NOT decided by this technique",
               "C18: what is posted, or released by a registration, after Messaging.shutdown() may be dropped (documented behaviour); "
               "it must still not be delivered twice"]
_MSG_COVER = ["delivered", "held", "released", "shutdown", "drained"]

Contract(
    "messaging.histories", ["C18"], _MSG_TARGETS, h_messaging, _shapes_messaging, mode="B", must_cover=_MSG_COVER,
    trusted=["queue.PriorityQueue / heapq of CPython (executed for real, comparisons on symbolic message types fork)"],
    assumptions=_MSG_ASSUME,
    budget=dict(quick=dict(max_paths=400000, timeout_s=560), thorough=dict(max_paths=4000000, timeout_s=3400)),
    desc="every history of <= 4 post/register/next_msg/shutdown operations on a real Messaging, message types = arbitrary integers: exactly once, lowest type first, FIFO per sender, held until registration, drained after shutdown",
)

Contract(
    "messaging.histories-enumerated", ["C18"], _MSG_TARGETS, h_messaging, _shapes_messaging_enum, mode="E", must_cover=_MSG_COVER,
    trusted=["queue.PriorityQueue / heapq of CPython (executed for real)"],
    assumptions=_MSG_ASSUME,
    budget=dict(quick=dict(max_paths=400000, timeout_s=560), thorough=dict(max_paths=4000000, timeout_s=3400)),
    desc="the same on every history of <= 5 operations with the message types MSG_MGT / MSG_VALUE / MSG_ALGO / default",
)


# ---------------------------------------------------------------- the agent loop (C18)

class _NoThread:
    """stands for the agent's thread: Agent.start() 'starts' it, the harness then runs the
    thread's target (Agent._run) itself, in the calling thread"""
    daemon = False

    def start(self):
        pass

    def join(self, timeout=None):
        pass


_REC_CLASS = {}


def _rec_class(cmp_):
    """a computation whose registered handler records (destination, sender, message)"""
    if cmp_ not in _REC_CLASS:
        class RecComputation(cmp_.MessagePassingComputation):
            def __init__(self, name, sink):
                super().__init__(name)
                self.sink = sink

            @cmp_.register("ping")
            def _on_ping(self, sender, msg, t):
                self.sink(self.name, sender, msg, t)

        _REC_CLASS[cmp_] = RecComputation
    return _REC_CLASS[cmp_]


_ENGINE_EXC = (PathAbort, Unsupported, BudgetExceeded)


def h_agent_loop(env):
    p = env.params
    mods = env.call(_infra)
    ag = env.call(importlib.import_module, "pydcop.infrastructure.agents")
    if isinstance(mods, Raised) or isinstance(ag, Raised):
        env.prove("agent.modules-import", False, detail=lambda: (mods, ag))
        return
    ag.sleep = lambda s: None          # Agent._on_stop waits 0.5 s for the network: no network here
    hist = _Hist(env, bool(p.get("batch")), p.get("env_levels", 2))
    for e in hist.runs():
        _agent_history(e, mods, ag)


def _agent_history(env, mods, ag):
    p = env.params
    com, dis, cmp_ = mods
    area = "agent"
    Rec = _rec_class(cmp_)
    late = list(p.get("late", ["e_late"]))
    senders = list(p.get("senders", _SENDERS))
    dests = ["k_reg"] + late

    a1 = ag.Agent("a_one", com.InProcessCommunicationLayer())
    a2 = ag.Agent("a_two", com.InProcessCommunicationLayer())
    a1.t = _NoThread()
    a2.discovery.register_agent("a_one", a1.address, publish=False)
    model = _InboxModel(com.MSG_ALGO)
    st = dict(budget=p["n_ops"], shutdown=False, step=0, handled=[], engine_exc=None, fatal=[], in_loop=False,
              current=None, nmsg=0)

    def guarded(fn):
        """harness code that runs inside Agent._run: the loop's 'except Exception' / bare 'except:' would swallow
        the engine's control exceptions and the harness' own errors, so they are kept and re-raised afterwards"""
        def g(*a, **kw):
            try:
                return fn(*a, **kw)
            except BaseException as e:  # noqa
                if st["engine_exc"] is None:
                    st["engine_exc"] = e
                a1.stop()
                return None
        return g

    @guarded
    def sink(dest, sender, msg, t):
        st["handled"].append((dest, sender, msg))
        cur = st["current"]
        st["current"] = None
        env.cover("handled")
        # the agent took ``cur`` out of the inbox and hands it to a computation: same message, right computation
        env.prove(area + ".handler-gets-the-message-just-taken-from-the-inbox-with-its-sender",
                  cur is not None and cur[2] is msg and cur[0] == sender and cur[1] == dest,
                  detail=lambda: dict(taken=cur, handed=(dest, sender, msg)))

    comps = {}

    def add(agent, name):
        c = Rec(name, sink)
        comps[name] = c
        r = env.call(agent.add_computation, c)
        if isinstance(r, Raised):
            return r
        return env.call(c.start)     # what Agent.run() does for each hosted computation

    for agent, name in ((a1, "s_loc"), (a1, "k_reg"), (a2, "r_snd")):
        r = add(agent, name)
        if isinstance(r, Raised):
            env.prove(area + ".add_computation-never-raises", False, detail=lambda: r.tb)
            return
    model.registered.add("k_reg")
    for d in dests:
        a2.discovery.register_computation(d, "a_one", a1.address, publish=False)

    # ---- observation points: what next_msg returns inside the loop, and fatal errors of the loop
    real_next = a1._messaging.next_msg

    def next_msg(timeout=0):
        # the loop waits up to 50 ms for a message; nobody else can post while this (single) thread
        # waits, so the wait is cut to 0: same result, no sleeping
        try:
            r = real_next(0)
        except _ENGINE_EXC as e:        # Agent._run has a bare 'except:' that would swallow the engine's signals
            st["engine_exc"] = e
            raise
        observe_next(r)
        return r

    @guarded
    def observe_next(r):
        full = r[0] if isinstance(r, tuple) and r else None
        if full is not None:
            env.prove(area + ".previous-message-was-handed-to-a-computation-before-the-next-is-taken",
                      st["current"] is None, detail=lambda: st["current"])
            ok = isinstance(full, tuple) and len(full) == 4
            env.prove(area + ".next_msg-returns-a-ComputationMessage", ok, detail=lambda: full)
            if ok:
                st["current"] = tuple(full)
                _check_delivery(env, area, model, full[0], full[1], full[2], full[3])
        else:
            env.prove(area + ".loop-sees-an-empty-inbox-only-when-nothing-is-pending", not model.queued(),
                      detail=lambda: dict(pending=model.queued()))

    a1._messaging.next_msg = next_msg
    a1.on_fatal_error = lambda e: st["fatal"].append(e)

    def do_op():
        step = st["step"]
        st["step"] += 1
        st["budget"] -= 1
        opts = [("post", s, d) for s in senders for d in dests]
        opts += [("add", d) for d in late if d not in model.registered]
        if not st["shutdown"]:
            opts.append(("shutdown",))
        op = env.choice("op%d" % step, opts)
        if op[0] == "post":
            prio = _prio(env, com, p["prio"], step)
            st["nmsg"] += 1
            msg = cmp_.Message("ping", 100 if p.get("same_content") else 100 + st["nmsg"])
            model.post(op[1], op[2], prio, msg)
            if op[2] not in model.registered and not st["shutdown"]:
                env.cover("held")
            if st["in_loop"]:
                env.cover("posted-while-running")
            # through the computation's own API (MessagePassingComputation.post_msg -> Messaging.post_msg
            # [-> InProcessCommunicationLayer.send_msg/receive_msg -> Messaging.post_msg of a_one])
            r = env.call(comps[op[1]].post_msg, op[2], msg, prio)
            if isinstance(r, Raised):
                env.prove(area + ".post_msg-never-raises", False, detail=lambda: r.tb)
                raise _Stop()
        elif op[0] == "add":
            if model.held(op[1]) and not st["shutdown"]:
                env.cover("released")
            r = add(a1, op[1])
            model.register(op[1])
            if isinstance(r, Raised):
                env.prove(area + ".add_computation-never-raises", False, detail=lambda: r.tb)
                raise _Stop()
        else:
            if model.queued():
                env.cover("shutdown-with-pending-messages")
            a1.clean_shutdown()
            st["shutdown"] = True
            model.shutdown = True

    real_ppa = a1._process_periodic_action

    def between_two_loop_iterations():
        # the place where the effect of another thread's post / registration / shutdown request
        # becomes visible to the loop
        real_ppa()
        if st["engine_exc"] is None:
            inject()

    @guarded
    def inject():
        while st["budget"] > 0 and (not model.queued() or env.choice("inject%d" % st["step"], [False, True])):
            do_op()
        if st["budget"] <= 0 and not st["shutdown"]:
            if model.queued():
                env.cover("shutdown-with-pending-messages")
            a1.clean_shutdown()
            st["shutdown"] = True
            model.shutdown = True

    a1._process_periodic_action = between_two_loop_iterations

    try:
        # operations before the agent's thread runs (messages can be posted to a Messaging from its creation)
        while st["budget"] > 0 and env.choice("before_start%d" % st["step"], [False, True]):
            do_op()
    except _Stop:
        return
    r = env.call(a1.start)
    if isinstance(r, Raised):
        env.prove(area + ".start-never-raises", False, detail=lambda: r.tb)
        return
    st["in_loop"] = True
    r = env.call(a1._run)
    st["in_loop"] = False
    if st["engine_exc"] is not None:
        if isinstance(st["engine_exc"], _Stop):
            return
        raise st["engine_exc"]
    env.cover("loop-ended")
    env.prove(area + ".loop-ends-after-a-clean-shutdown-without-error", (not isinstance(r, Raised)) and not st["fatal"],
              detail=lambda: (r.tb if isinstance(r, Raised) else None, st["fatal"]))
    env.prove(area + ".loop-ended-because-of-the-shutdown", st["shutdown"])
    missing = [x for x in model.records if x.state == "queued"]
    env.prove(area + ".every-message-queued-before-the-clean-shutdown-was-handled",
              not missing and st["current"] is None, detail=lambda: dict(missing=missing, all=model.records, current=st["current"]))
    for x in model.records:
        n = sum(1 for (d, s, m) in st["handled"] if m is x.msg)
        if x.state == "delivered":
            env.prove(area + ".each-message-handled-exactly-once-by-its-destination",
                      n == 1 and all(d == x.dest and s == x.sender for (d, s, m) in st["handled"] if m is x.msg),
                      detail=lambda: dict(record=x, handled=st["handled"]))
        else:
            env.prove(area + ".no-message-handled-before-its-destination-registered-or-twice", n == 0,
                      detail=lambda: dict(record=x, handled=st["handled"]))


def _shapes_agent(tier):
    _preimport()
    s = [dict(n_ops=3, prio="sym_hi", senders=["r_snd"])]                     # ~400 paths (symbolic)
    if tier == "thorough":
        s += [dict(n_ops=3, prio="sym"), dict(n_ops=4, prio="sym_hi", senders=["s_loc"])]
    return s


def _shapes_agent_enum(tier):
    _preimport()
    s = [
        dict(batch=True, n_ops=3, prio="two"),                                            # ~5 500 histories
        dict(batch=True, n_ops=3, prio="const", senders=["s_loc"]),                       # ~5 500
        dict(batch=True, n_ops=4, prio="two", senders=["s_loc"]),                         # ~10 500
        dict(batch=True, n_ops=4, prio="two", senders=["r_snd"], late=["b_late"]),        # ~10 500
    ]
    if tier == "thorough":
        s += [
            dict(batch=True, n_ops=4, prio="two"),
            dict(batch=True, n_ops=5, prio="two", senders=["s_loc"]),
            dict(batch=True, n_ops=3, prio="const"),
            dict(batch=True, n_ops=4, prio="const", senders=["r_snd"]),
            dict(batch=True, n_ops=4, prio="two", late=["e_late", "b_late"], senders=["s_loc"]),
        ]
    return s


_AGT_TARGETS = ["pydcop.infrastructure.agents:Agent._run", "pydcop.infrastructure.agents:Agent._handle_message",
                "pydcop.infrastructure.agents:Agent.clean_shutdown", "pydcop.infrastructure.agents:Agent.add_computation",
                "pydcop.infrastructure.agents:Agent.start", "pydcop.infrastructure.agents:Agent._on_start",
                "pydcop.infrastructure.agents:Agent._on_stop",
                "pydcop.infrastructure.communication:Messaging.post_msg", "pydcop.infrastructure.communication:Messaging.next_msg",
                "pydcop.infrastructure.communication:Messaging._on_computation_registration",
                "pydcop.infrastructure.communication:Messaging.shutdown",
                "pydcop.infrastructure.computations:MessagePassingComputation.on_message",
                "pydcop.infrastructure.computations:MessagePassingComputation.post_msg"]
_AGT_COVER = ["handled", "held", "released", "posted-while-running", "shutdown-with-pending-messages", "loop-ended"]
_AGT_TRUSTED = ["Agent._run is executed in the harness' thread (Agent.t replaced by a no-op thread object); the operations of the "
                "other threads are injected between two iterations of the loop (hook on Agent._process_periodic_action)",
                "the 50 ms wait of next_msg inside the loop is cut to 0 (single thread: nothing can arrive while waiting); "
                "agents.sleep is a no-op (Agent._on_stop's 0.5 s network grace period)"]
_AGT_ASSUME = ["C18: the agent loop is run by one thread and the posts / registrations / shutdown request of the other threads take "
               "effect between two loop iterations or before the loop starts; finer preemption points are NOT decided",
               "C18: destinations are started computations (messages to a computation that is not started or is paused are "
               "buffered by the computation itself: property C19)"]

Contract(
    "agent.run-loop", ["C18"], _AGT_TARGETS, h_agent_loop, _shapes_agent, mode="B", must_cover=_AGT_COVER,
    trusted=_AGT_TRUSTED, assumptions=_AGT_ASSUME,
    budget=dict(quick=dict(max_paths=400000, timeout_s=560), thorough=dict(max_paths=4000000, timeout_s=3400)),
    desc="real Agent loop, message types = arbitrary integers: every history of <= 3 post/add_computation/clean_shutdown operations placed before the start or between loop iterations; each queued message handled once by its destination, by type then FIFO, all of them before the loop ends",
)

Contract(
    "agent.run-loop-enumerated", ["C18"], _AGT_TARGETS, h_agent_loop, _shapes_agent_enum, mode="E", must_cover=_AGT_COVER,
    trusted=_AGT_TRUSTED, assumptions=_AGT_ASSUME,
    budget=dict(quick=dict(max_paths=400000, timeout_s=560), thorough=dict(max_paths=4000000, timeout_s=3400)),
    desc="the same on every history of <= 4 operations with the pyDcop message types",
)


# =====================================================================================
#                                      C20
# =====================================================================================
#
# World: a real Directory (+ DirectoryComputation) on the Discovery of agent ``agt_dir`` and one real
# Discovery (+ DiscoveryComputation) per agent.  ``message_sender`` of the discovery computations is a router
# with one FIFO queue per (sender, receiver) pair - what the real transports give (the in-process layer calls
# synchronously, the http layer posts one message at a time from the sender's thread, and an agent's inbox
# is FIFO among the messages of one type, C18).  Which queue delivers next is the schedule.
#
# Oracle = the statement: once everything is delivered, for every item an agent is still subscribed to, what the
# agent's Discovery answers is what the Directory answers; and every change of an agent's view of an item was
# announced to the callbacks registered for that item (and only changes were).

from collections import OrderedDict, deque  # noqa: E402


class _Unknown:
    """the answer 'unknown agent / computation' (UnknownAgent / UnknownComputation raised)"""

    def __init__(self, what):
        self.what = what

    def __eq__(self, o):
        return isinstance(o, _Unknown)

    def __hash__(self):
        return 7

    def __repr__(self):
        return "<unknown>"


_UNK = _Unknown("")


def _ask(dis, fn, *a):
    try:
        r = fn(*a)
    except (dis.UnknownAgent, dis.UnknownComputation):
        return _UNK
    return set(r) if isinstance(r, (set, frozenset)) else r


class _DWorld:
    def __init__(self, env, dis, agents, late=()):
        self.env = env
        self.dis = dis
        self.chan = OrderedDict()       # (sender, receiver) -> deque of (burst number, message)
        self.burst = 0                  # messages sent during one step form a burst; inside a burst the Directory loops over
        #                                 sets of subscribers: the schedule must not depend on that (hash-seed dependent) order
        self.comps = {}
        self.trace = []                 # what happened, for the failure reports
        self.raised = None
        self.ddisc = dis.Discovery("agt_dir", "addr_dir")
        self.directory = dis.Directory(self.ddisc)
        self.ddisc.use_directory("agt_dir", "addr_dir")
        self._wire(self.directory.directory_computation)
        self._wire(self.ddisc.discovery_computation)
        self.disc = OrderedDict()
        self.alive = set()
        self.left = set()
        self.agents = list(agents)
        # ---- model
        self.host = {}                                  # computation -> hosting agent (ground truth of the history)
        self.replicas = {}                              # computation -> set of agents that published a replica
        self.subs = {}                                  # (agent, kind, item) -> dict(active, cbs=[(cbid, oneshot)])
        self.calls = []                                 # callback invocations of the current step: (agent, cbid, evt, item, val)
        self.ncb = 0
        self.flags = {}                                 # (agent, item-kind, item) -> set of region tags
        # Agent._on_start of the agent hosting the directory
        self.ddisc.register_computation(self.ddisc.discovery_computation.name, "agt_dir", "addr_dir")
        self.ddisc.register_agent("agt_dir", "addr_dir")
        for n in agents:
            if n == "agt_dir":
                # the agent that hosts the directory takes part in the history through its own Discovery, which is also
                # the store the Directory works on (one object, two roles)
                self.disc[n] = self.ddisc
                self.alive.add(n)
                continue
            d = dis.Discovery(n, "addr_" + n)
            d.use_directory("agt_dir", "addr_dir")
            self._wire(d.discovery_computation)
            self.disc[n] = d
            if n not in late:
                self.join(n)
        self.run("fifo")

    # ---- router
    def _wire(self, c):
        self.comps[c.name] = c
        c.message_sender = lambda src, dst, msg, prio=None, on_error=None: self._post(src, dst, msg)

    def _post(self, src, dst, msg):
        self.chan.setdefault((src, dst), deque()).append((self.burst, msg))
        self.trace.append(("sent", src, dst, repr(msg)))

    def enabled(self):
        return sorted(k for k, q in self.chan.items() if q)

    def pending(self):
        return sum(len(q) for q in self.chan.values())

    def outbox(self, name):
        """messages of agent ``name`` to the directory that are not delivered yet"""
        return [m for _, m in self.chan.get(("_discovery_" + name, "_directory"), ())]

    def deliver(self, key):
        _, msg = self.chan[key].popleft()
        self.trace.append(("deliver", key[0], key[1], repr(msg)))
        target = key[1]
        who = target[len("_discovery_"):] if target.startswith("_discovery_") else None
        self.step(who, lambda: self.comps[target].on_message(key[0], msg, 0), "deliver %s -> %s: %r" % (key[0], key[1], msg),
                  "handling-" + str(getattr(msg, "type", "?")))

    def run(self, policy, chooser=None, max_steps=400):
        n = 0
        while n < max_steps and self.raised is None:
            en = self.enabled()
            if not en:
                break
            if policy == "fifo":        # oldest burst first, channels of one burst in name order
                key = min(en, key=lambda k: (self.chan[k][0][0], k))
            elif policy == "lifo":
                key = en[-1]
            elif policy == "explore":
                key = chooser("deliver", en) if len(en) > 1 else en[0]
            else:
                raise ValueError(policy)
            self.deliver(key)
            n += 1
        return n

    # ---- a step = one operation of an agent, or one delivery: callbacks are checked per step
    def views(self, who):
        """the view of agent ``who`` on every item it has callbacks for"""
        d = self.disc[who]
        out = {}
        for (a, kind, item), s in self.subs.items():
            if a != who or not s["cbs"]:
                continue
            if kind == "agent" and item == "*":
                out[(kind, item)] = frozenset((n, a) for n in self.agents for a in [_ask(self.dis, d.agent_address, n)] if a != _UNK)
            elif kind == "agent":
                out[(kind, item)] = _ask(self.dis, d.agent_address, item)
            elif kind == "computation":
                out[(kind, item)] = _ask(self.dis, d.computation_agent, item)
            else:
                out[(kind, item)] = frozenset(d._replicas_data.get(item, ()))
        return out

    def step(self, who, action, what, opname=None):
        env = self.env
        self.burst += 1
        before = self.views(who) if who in self.disc else {}
        registered = {k: list(s["cbs"]) for k, s in self.subs.items() if k[0] == who}
        self.calls = []
        r = env.call(action)
        if isinstance(r, Raised):
            self.raised = (what, r, opname or what)
            return r
        if who not in self.disc or who in self.left:
            return r
        after = self.views(who)
        for (kind, item), old in before.items():
            new = after.get((kind, item), old)
            cbs = registered.get((who, kind, item), [])
            for cbid, oneshot in cbs:
                got = [c for c in self.calls if c[1] == cbid]
                exp = _expected_events(kind, item, old, new)
                tag = self.region("cb", who, kind, item)
                if kind == "agent" and new == _UNK and any(o for _, o in cbs):
                    tag = "[agent-removed-while-a-one-shot-callback-is-registered]"
                det = lambda: dict(step=what, agent=who, item=(kind, item), view_before=old, view_after=new,  # noqa
                                   callback=(cbid, "one-shot" if oneshot else "persistent"), calls=got, trace=self.trace[-14:])
                if exp:
                    env.prove("discovery.callback-fired-for-each-change-of-a-subscribed-%s%s" % (kind, tag),
                              _matches(got, exp, oneshot), detail=det)
                else:
                    env.prove("discovery.callback-not-fired-without-a-change-of-the-%s%s" % (kind, tag), not got, detail=det)
                if oneshot and got:
                    s = self.subs[(who, kind, item)]
                    if (cbid, oneshot) in s["cbs"]:
                        s["cbs"].remove((cbid, oneshot))
        return r

    def region(self, what, who, kind, item):
        """the part of the history space an obligation instance lies in (appended to its label): regions where the
        unchanged code is known to fail stay apart from the rest"""
        tags = set(self.flags.get((who, kind, item), ())) | set(self.flags.get(("*", kind, item), ()))
        if kind == "replica":       # what replica_agents() answers also depends on the knowledge of the computation
            tags |= set(self.flags.get((who, "computation", item), ())) | set(self.flags.get(("*", "computation", item), ()))
        tags = sorted(tags)
        return "[%s]" % ",".join(tags) if tags else ""

    def flag(self, who, kind, item, tag):
        self.flags.setdefault((who, kind, item), set()).add(tag)

    # ---- callbacks handed to the Discovery under contract
    def make_cb(self, who, kind, item):
        self.ncb += 1
        cbid = "cb%d" % self.ncb

        def cb(evt, name, val, _id=cbid):
            self.calls.append((who, _id, evt, name, val))
        cb.cbid = cbid
        return cb

    # ---- operations (each is what an agent's code calls on its own Discovery)
    def join(self, n):
        d = self.disc[n]
        self.alive.add(n)
        self.left.discard(n)
        # Agent._on_start
        self.step(n, lambda: (d.register_computation(d.discovery_computation.name, n, "addr_" + n),
                              d.register_agent(n, "addr_" + n)), "join %s" % n, "start")

    def leave(self, n):
        d = self.disc[n]
        # Agent._on_stop (the agent hosts no computation any more)
        r = self.step(n, lambda: d.unregister_agent(n), "leave %s" % n, "unregister_agent")
        self.alive.discard(n)
        self.left.add(n)
        for k, s in self.subs.items():
            if k[0] == n:
                s["active"] = False
        return r


def _expected_events(kind, item, old, new):
    """the callback events a change of view old -> new stands for"""
    if old == new:
        return []
    if kind == "agent" and item == "*":
        o, n = dict(old), dict(new)
        return [("agent_added", k, v) for k, v in sorted(n.items()) if o.get(k) != v] + \
               [("agent_removed", k, None) for k in sorted(o) if k not in n]
    if kind == "agent":
        return [("agent_removed", item, None)] if new == _UNK else [("agent_added", item, new)]
    if kind == "computation":
        return [("computation_removed", item, "*")] if new == _UNK else [("computation_added", item, new)]
    ev = [("replica_added", item, a) for a in sorted(new - old)] + [("replica_removed", item, a) for a in sorted(old - new)]
    return ev


def _matches(got, exp, oneshot):
    """got: recorded calls (agent, cbid, evt, item, val); exp: expected (evt, item, val|'*')"""
    calls = [c[2:] for c in got]
    if oneshot:
        exp_sets = [[e] for e in exp]
        return len(calls) == 1 and any(_ev_eq(calls[0], e[0]) for e in exp_sets)
    if len(calls) != len(exp):
        return False
    rest = list(exp)
    for c in calls:
        hit = next((e for e in rest if _ev_eq(c, e)), None)
        if hit is None:
            return False
        rest.remove(hit)
    return True


def _ev_eq(call, e):
    return call[0] == e[0] and call[1] == e[1] and (e[2] == "*" or call[2] == e[2])


_SUB_MSG = {"agent": ("subscribe_agent", "agent"), "computation": ("subscribe_computation", "computation"),
            "replica": ("subscribe_replica", "replica")}


def _msg_is(m, mtype, **fields):
    return getattr(m, "type", None) == mtype and all(getattr(m, k, "<missing>") == v for k, v in fields.items())


class _DOps:
    """the operations of a history, their preconditions (taken from the code and its call sites) and the
    per-operation postconditions"""

    def __init__(self, w, p):
        self.w = w
        self.p = p

    # ---------------- which operations are legal now
    def options(self):
        w, p = self.w, self.p
        fam = p["families"]
        out = []
        live = [a for a in w.agents if a in w.alive]
        kinds = p.get("kinds", ["nocb", "cb", "oneshot"])
        maxcb = p.get("max_cbs", 2)
        if "computation" in fam:
            for x in live:
                for c in p["comps"]:
                    if x in p.get("hosts", w.agents):
                        if w.host.get(c) is None:
                            out.append(("reg_comp", x, c))
                        elif w.host.get(c) == x:
                            out.append(("unreg_comp", x, c))
                    if x in p.get("subscribers", w.agents):
                        out += self._sub_opts(x, "computation", c, kinds, maxcb)
        if "replica" in fam:
            for x in live:
                for c in p["comps"]:
                    if x in p.get("replicators", w.agents):
                        cs = w.subs.get((x, "computation", c))
                        known = _ask(w.dis, w.disc[x].computation_agent, c) != _UNK and \
                            (w.host.get(c) == x or bool(cs and cs["active"]))   # it hosts c or follows c
                        if x in w.replicas.get(c, ()):
                            out.append(("unreg_replica", x, c))
                        elif known:
                            out.append(("reg_replica", x, c))
                    if x in p.get("subscribers", w.agents):
                        s = w.subs.get((x, "computation", c))
                        if s and s["active"]:       # every call site subscribes to the computation first
                            out += self._sub_opts(x, "replica", c, kinds, maxcb)
        if "agent" in fam:
            for x in live:
                if x in p.get("subscribers", w.agents):
                    for n in p.get("agent_targets", w.agents):
                        if n != x:
                            out += self._sub_opts(x, "agent", n, kinds, maxcb)
            if p.get("all_agents"):
                for x in live:
                    if x in p.get("subscribers", w.agents):
                        st = w.subs.get((x, "agent", "*"))
                        for k in ("nocb", "cb"):
                            if k == "nocb" or not (st and st["cbs"]):
                                out.append(("sub_all", x, k))
            for x in w.agents:
                # an agent that left may come back under the same name (rejoin): a restarted agent
                if x not in w.alive and ((x in p.get("late", ()) and x not in w.left) or (p.get("rejoin") and x in w.left)):
                    out.append(("join", x))
                if x in p.get("leavers", ()) and x in w.alive and x not in w.host.values() \
                        and not any(x in r for r in w.replicas.values()):
                    out.append(("leave", x))
        return out

    def _sub_opts(self, x, kind, item, kinds, maxcb):
        w = self.w
        s = w.subs.get((x, kind, item))
        out = []
        ncb = len(s["cbs"]) if s else 0
        for k in kinds:
            if k == "nocb" or ncb < maxcb:
                out.append(("sub", x, kind, item, k))
        if s and s["active"]:
            out.append(("unsub", x, kind, item, None))
            for cbid, _ in s["cbs"]:
                out.append(("unsub", x, kind, item, cbid))
        return out

    # ---------------- doing one
    def apply(self, op):
        w, env = self.w, self.w.env
        w.trace.append(("op",) + tuple(op))
        x = op[1]
        d = w.disc[x]
        sent0 = len(w.outbox(x))
        name = op[0]
        if name == "join":
            w.join(x)
        elif name == "leave":
            w.leave(x)
        elif name == "reg_comp":
            c = op[2]
            if c in w.host:      # it was registered, then unregistered, before
                w.flag("*", "computation", c, "registered-again-after-an-unregistration")
            w.host[c] = x
            if self.p.get("reg_address", True):      # what Agent.add_computation does
                w.step(x, lambda: d.register_computation(c, x, "addr_" + x), "%s registers %s" % (x, c), "register_computation")
            else:                                   # the short form: own agent, address already known
                w.step(x, lambda: d.register_computation(c), "%s registers %s" % (x, c), "register_computation")
        elif name == "unreg_comp":
            c = op[2]
            w.host[c] = None
            w.step(x, lambda: d.unregister_computation(c, x), "%s unregisters %s" % (x, c), "unregister_computation")
            s = w.subs.get((x, "computation", c))
            if s:       # documented: the host cancels its own subscription before publishing the removal
                s["lapsed"] = s.get("lapsed") or s["active"]
                s["active"] = False
                s["cbs"] = []
        elif name == "reg_replica":
            c = op[2]
            w.replicas.setdefault(c, set()).add(x)
            w.step(x, lambda: d.register_replica(c, x), "%s publishes a replica of %s" % (x, c), "register_replica")
        elif name == "unreg_replica":
            c = op[2]
            w.replicas[c].discard(x)
            w.step(x, lambda: d.unregister_replica(c, x), "%s withdraws its replica of %s" % (x, c), "unregister_replica")
        elif name == "sub_all":
            s = w.subs.setdefault((x, "agent", "*"), dict(active=False, cbs=[], fns={}))
            cb = None
            if op[2] == "cb":
                cb = w.make_cb(x, "agent", "*")
                s["fns"][cb.cbid] = cb
            if any(k[0] == x and k[1] == "agent" and k[2] != "*" and v.get("lapsed") and not v["active"] for k, v in w.subs.items()):
                w.flag(x, "agent", "*", "subscribed-to-all-agents-after-an-unsubscription")
            w.step(x, lambda: d.subscribe_all_agents(cb), "%s subscribes to all agents (%s)" % (x, op[2]), "subscribe_all_agents")
            s["active"] = True
            if cb is not None:
                s["cbs"].append((cb.cbid, False))
        elif name == "sub":
            _, _, kind, item, cbkind = op
            s = w.subs.setdefault((x, kind, item), dict(active=False, cbs=[], fns={}))
            cb = None
            if cbkind != "nocb":
                cb = w.make_cb(x, kind, item)
                s["fns"][cb.cbid] = cb
            fn = getattr(d, "subscribe_" + kind)
            if s.get("lapsed") and not s["active"]:
                w.flag(x, kind, item, "resubscribed-after-an-unsubscription")
            r = w.step(x, lambda: fn(item, cb, one_shot=(cbkind == "oneshot")), "%s subscribes to %s %s (%s)" % (x, kind, item, cbkind), "subscribe_" + kind)
            s["active"] = True
            if cb is not None:
                s["cbs"].append((cb.cbid, cbkind == "oneshot"))
                env.prove("discovery.subscribe.returns-the-callback", isinstance(r, Raised) or r is cb)
        elif name == "unsub":
            _, _, kind, item, cbid = op
            s = w.subs[(x, kind, item)]
            cb = s["fns"][cbid] if cbid is not None else None
            fn = getattr(d, "unsubscribe_" + kind)
            if cbid is None:
                s["cbs"] = []
                s["active"] = False
            else:
                s["cbs"] = [c for c in s["cbs"] if c[0] != cbid]
                if not s["cbs"]:
                    s["active"] = False     # documented: no callback left -> the subscription on the directory is removed
            s["lapsed"] = s.get("lapsed") or not s["active"]
            if kind == "replica" and not s["active"]:
                w.flag(x, "computation", item, "after-unsubscribe_replica")
                w.flag(x, "replica", item, "after-unsubscribe_replica")
            w.step(x, lambda: fn(item, cb), "%s unsubscribes from %s %s (%s)" % (x, kind, item, cbid or "all"), "unsubscribe_" + kind)
        else:
            raise ValueError(op)
        if w.raised is not None:
            return
        new = w.outbox(x)[sent0:]
        self.check_sent(op, x, new)
        self.check_local(op, x, d)

    # ---------------- per-operation postconditions
    def check_sent(self, op, x, new):
        env = self.w.env
        name = op[0]
        det = lambda: dict(operation=op, sent_to_directory=[repr(m) for m in new])  # noqa
        addr = "addr_" + x
        if name == "join":
            ok = len(new) == 2 and _msg_is(new[0], "publish_computation", computation="_discovery_" + x, agent=x) \
                and _msg_is(new[1], "publish_agent", agents=x, address=addr)
            env.prove("discovery.start.publishes-the-agent-and-its-discovery-computation", ok, detail=det)
        elif name == "leave":
            env.prove("discovery.unregister_agent.sends-the-matching-message-to-the-directory",
                      len(new) == 1 and _msg_is(new[0], "unpublish_agent", agent=x), detail=det)
        elif name == "reg_comp":
            env.prove("discovery.register_computation.sends-the-matching-message-to-the-directory",
                      len(new) == 1 and _msg_is(new[0], "publish_computation", computation=op[2], agent=x,
                                                address=(addr if self.p.get("reg_address", True) else None)), detail=det)
        elif name == "unreg_comp":
            ok = len(new) >= 1 and _msg_is(new[-1], "unpublish_computation", computation=op[2], agent=x) \
                and all(_msg_is(m, "subscribe_computation", computation=op[2], subscribe=False) for m in new[:-1])
            env.prove("discovery.unregister_computation.sends-the-matching-message-to-the-directory", ok, detail=det)
        elif name in ("reg_replica", "unreg_replica"):
            env.prove("discovery.%s.sends-the-matching-message-to-the-directory%s" % ("register_replica" if name == "reg_replica" else "unregister_replica",
                                                                                      self.w.region("op", x, "replica", op[2])),
                      len(new) == 1 and _msg_is(new[0], "publish_replica", replica=op[2], agent=x, publish=(name == "reg_replica")), detail=det)
        elif name == "sub_all":
            env.prove("discovery.subscribe_all_agents.only-sends-a-message-of-the-matching-kind-to-the-directory",
                      len(new) <= 1 and all(_msg_is(m, "subscribe_agent", agent="*", subscribe=True) for m in new), detail=det)
        elif name in ("sub", "unsub"):
            kind, item = op[2], op[3]
            mtype, field = _SUB_MSG[kind]
            ok = len(new) <= 1 and all(_msg_is(m, mtype, subscribe=(name == "sub"), **{field: item}) for m in new)
            env.prove("discovery.%ssubscribe_%s.only-sends-a-message-of-the-matching-kind-to-the-directory" % ("" if name == "sub" else "un", kind),
                      ok, detail=det)

    def check_local(self, op, x, d):
        w, env = self.w, self.w.env
        name = op[0]
        dis = w.dis
        if name == "reg_comp":
            env.prove("discovery.register_computation.local-view-updated", _ask(dis, d.computation_agent, op[2]) == x)
        elif name == "unreg_comp":
            env.prove("discovery.unregister_computation.local-view-updated", _ask(dis, d.computation_agent, op[2]) == _UNK)
        elif name == "reg_replica":
            r = _ask(dis, d.replica_agents, op[2])
            env.prove("discovery.register_replica.local-view-updated" + w.region("op", x, "replica", op[2]), r != _UNK and x in r, detail=lambda: r)
        elif name == "unreg_replica":
            r = _ask(dis, d.replica_agents, op[2])
            env.prove("discovery.unregister_replica.local-view-updated" + w.region("op", x, "replica", op[2]), r == _UNK or x not in r, detail=lambda: r)
        elif name == "join":
            env.prove("discovery.start.local-view-updated", _ask(dis, d.agent_address, x) == "addr_" + x)
        elif name == "leave":
            env.prove("discovery.unregister_agent.local-view-updated", _ask(dis, d.agent_address, x) == _UNK)

    # ---------------- the statement, once every message is delivered
    def check_converged(self):
        w, env = self.w, self.w.env
        dis = w.dis
        directory = w.directory
        for (x, kind, item), s in sorted(w.subs.items()):
            if not s["active"] or x not in w.alive:
                continue
            d = w.disc[x]
            tag = w.region("view", x, kind, item)
            if kind == "agent" and item == "*":
                mine = {n: _ask(dis, d.agent_address, n) for n in w.agents}
                ref = {n: _ask(dis, directory.agent_address, n) for n in w.agents}
            elif kind == "agent":
                mine, ref = _ask(dis, d.agent_address, item), _ask(dis, directory.agent_address, item)
            elif kind == "computation":
                mine, ref = _ask(dis, d.computation_agent, item), _ask(dis, directory.computation_agent, item)
            else:
                cs = w.subs.get((x, "computation", item))
                if not (cs and cs["active"]):
                    continue        # replica_agents() only answers for a computation the agent follows
                mine, ref = _ask(dis, d.replica_agents, item), _ask(dis, directory.discovery.replica_agents, item)
            env.cover("converged-" + kind)
            env.prove("discovery.converged.%s-view-of-a-subscriber-equals-the-directory%s" % (kind, tag), mine == ref,
                      detail=lambda: dict(agent=x, item=(kind, item), local_view=mine, directory=ref, trace=w.trace))


def _discovery_history(env, dis):
    p = env.params
    w = _DWorld(env, dis, p["agents"], late=p.get("late", ()))
    ops = _DOps(w, p)
    sched = p.get("sched", "sync")
    rng = None
    if sched == "random":
        import random as _pyrandom
        # a schedule per (history, seed): drawn after the history is known, reproducible
        seed = env.choice("seed", list(range(p.get("seeds", 3))))
        rng = _pyrandom.Random(seed * 7919 + p.get("_seed", 0))
    for op in p.get("init", ()):
        ops.apply(tuple(op))
        w.run("fifo")
    for step in range(p["n_ops"]):
        if w.raised is not None:
            break
        opts = ops.options()
        if not opts:
            break
        op = env.op_choice(step, opts)
        ops.apply(op)
        if w.raised is not None:
            break
        if sched == "sync":
            w.run("fifo")
        elif sched == "random":
            while w.raised is None and w.enabled() and rng.random() < 0.55:
                en = w.enabled()
                w.deliver(en[rng.randrange(len(en))])
        elif sched == "explore":
            while w.raised is None:
                en = w.enabled()
                if not en:
                    break
                k = env.choice("sched", [None] + en)
                if k is None:
                    break
                w.deliver(k)
    if w.raised is None:
        if sched == "explore":
            w.run("explore", chooser=env.choice)
        elif sched == "random":
            while w.raised is None and w.enabled():
                en = w.enabled()
                w.deliver(en[rng.randrange(len(en))])
        else:
            w.run("lifo" if sched == "end-lifo" else "fifo")
    if w.raised is not None:
        what, r, opname = w.raised
        # one label per (what was being done, exception class): distinct defects stay distinct obligations
        env.prove("discovery.no-exception-in-an-operation-or-a-message-handler[%s:%s]" % (opname, type(r.exc).__name__), False,
                  detail=lambda: "%s\n%s\ntrace=%r" % (what, r.tb, w.trace))
        return
    env.cover("drained")
    env.prove("discovery.every-message-delivered", w.pending() == 0)
    ops.check_converged()


def h_discovery(env):
    p = env.params
    dis = env.call(importlib.import_module, "pydcop.infrastructure.discovery")
    if isinstance(dis, Raised):
        env.prove("discovery.module-imports", False, detail=lambda: dis.tb)
        return
    hist = _Hist(env, True, p.get("env_levels", 0))
    hist.keep_going = True
    for e in hist.runs():
        _discovery_history(e, dis)


def _dsplit(shape):
    """one job per first operation of the history (the number of legal first operations is found by a dry run of
    the harness' own option generator); a shape that cannot be dry-run stays one job and fails in the worker"""
    try:
        dis = importlib.import_module("pydcop.infrastructure.discovery")

        class _E:       # a do-nothing env: the dry run only builds the world and lists the options
            params = shape

            def call(self, fn, *a, **kw):
                return fn(*a, **kw)

            def prove(self, *a, **kw):
                return True

            def cover(self, *a):
                pass

        w = _DWorld(_E(), dis, shape["agents"], late=shape.get("late", ()))
        ops = _DOps(w, shape)
        for op in shape.get("init", ()):
            ops.apply(tuple(op))
            w.run("fifo")
        n = len(ops.options())
    except BaseException:  # noqa
        return [shape]
    return [dict(shape, fix=[i]) for i in range(n)] if n > 1 else [shape]


def _ren(obj, m):
    """the same shape with other (unsorted, hash-order-different) agent / computation names"""
    if isinstance(obj, str):
        return m.get(obj, obj)
    if isinstance(obj, (list, tuple)):
        return [_ren(x, m) for x in obj]
    if isinstance(obj, dict):
        return {k: _ren(v, m) for k, v in obj.items()}
    return obj


_NAMES = {"a1": "zoe", "a2": "abe", "a3": "moe", "c1": "x9", "c2": "k0"}
_A2 = ["a1", "a2"]
_A3 = ["a1", "a2", "a3"]
_HOSTED = [["reg_comp", "a1", "c1"], ["sub", "a2", "computation", "c1", "nocb"]]


def _shapes_discovery(tier):
    _preimport()
    s = []
    # --- computations: registration / unregistration / (un)subscription, 2 agents
    s += [dict(agents=_A2, comps=["c1"], families=["computation"], n_ops=4)]
    two_comps = dict(agents=_A2, comps=["c1", "c2"], families=["computation"], n_ops=4, kinds=["nocb", "cb"], hosts=["a1"], subscribers=["a2"])
    s += [dict(two_comps, n_ops=3),
          dict(agents=_A2, comps=["c1"], families=["computation"], n_ops=4, sched="end-lifo", kinds=["nocb", "cb"]),
          dict(agents=_A2, comps=["c1"], families=["computation"], n_ops=4, sched="random", seeds=3, kinds=["nocb", "cb"]),
          dict(agents=_A2, comps=["c1"], families=["computation"], n_ops=2, sched="explore", init=_HOSTED, kinds=["nocb", "cb"]),
          dict(agents=_A2, comps=["c1"], families=["computation"], n_ops=3, init=_HOSTED),
          _ren(dict(agents=_A2, comps=["c1"], families=["computation"], n_ops=4, kinds=["nocb", "cb"], reg_address=False), _NAMES)]
    # --- a computation that moves from one host to another while a third agent follows it
    s += [dict(agents=_A3, comps=["c1"], families=["computation"], hosts=["a1", "a2"], subscribers=[], n_ops=4, sched="random", seeds=8,
               init=[["sub", "a3", "computation", "c1", "cb"]]),
          dict(agents=_A3, comps=["c1"], families=["computation"], hosts=["a1", "a2"], subscribers=[], n_ops=4, sched="end-lifo",
               init=[["sub", "a3", "computation", "c1", "cb"]])]
    # --- agents: arrival (a3 starts late), departure, (un)subscription, subscription to all agents
    agents4 = dict(agents=_A3, late=["a3"], leavers=["a2", "a3"], subscribers=["a1", "a2"], agent_targets=["a2", "a3"], comps=[],
                   families=["agent"], n_ops=4)
    s += [dict(agents4, n_ops=3), dict(agents4, subscribers=["a1"], agent_targets=["a2"])]
    s += [dict(agents=_A3, late=["a3"], leavers=["a2", "a3"], subscribers=["a1"], agent_targets=["a2"], comps=[], families=["agent"],
               all_agents=True, n_ops=4, kinds=["nocb", "cb"]),
          dict(agents=_A3, late=["a3"], leavers=["a3"], subscribers=["a1"], agent_targets=["a3"], comps=[], families=["agent"], n_ops=3,
               sched="random", seeds=3),
          dict(agents=_A3, late=["a3"], leavers=["a3"], subscribers=["a1"], agent_targets=["a3"], comps=[], families=["agent"], n_ops=2,
               sched="explore", kinds=["nocb", "cb"])]
    # --- an agent that leaves and comes back under the same name while others still follow it by name
    s += [dict(agents=_A3, leavers=["a2"], rejoin=True, subscribers=["a1"], agent_targets=["a2"], comps=[], families=["agent"], n_ops=4,
               kinds=["nocb", "cb"]),
          dict(agents=_A3, leavers=["a2"], rejoin=True, subscribers=["a1", "a3"], agent_targets=["a2"], comps=[], families=["agent"], n_ops=3,
               kinds=["cb"], init=[["sub", "a1", "agent", "a2", "cb"]], sched="random", seeds=3),
          dict(agents=_A3, late=["a3"], leavers=["a3"], rejoin=True, subscribers=["a1"], agent_targets=["a3"], comps=[], families=["agent"],
               all_agents=True, n_ops=4, kinds=["nocb"])]
    # --- the agent hosting the directory is an ordinary agent too: it publishes / withdraws replicas and follows computations
    _DIRH = [["reg_comp", "a1", "c1"], ["sub", "a1", "computation", "c1", "nocb"], ["sub", "agt_dir", "computation", "c1", "nocb"]]
    s += [dict(agents=["agt_dir", "a1"], comps=["c1"], families=["replica"], hosts=["a1"], replicators=["agt_dir", "a1"], subscribers=["a1"],
               n_ops=3, init=_DIRH, kinds=["nocb", "cb"]),
          dict(agents=["a1", "agt_dir"], comps=["c1"], families=["computation"], hosts=["agt_dir"], subscribers=["a1"], n_ops=3, kinds=["nocb", "cb"])]
    # --- replicas (the computation is hosted and followed from the start, as at every call site)
    s += [_ren(dict(agents=_A2, comps=["c1"], families=["replica"], n_ops=4, init=_HOSTED), _NAMES),
          dict(agents=_A2, comps=["c1"], families=["replica"], n_ops=3, init=_HOSTED, sched="random", seeds=3),
          dict(agents=_A2, comps=["c1"], families=["replica"], n_ops=2, init=_HOSTED, sched="explore", kinds=["nocb", "cb"])]
    # --- mixed kinds
    s += [dict(agents=_A2, hosts=["a1"], subscribers=["a2"], comps=["c1"], families=["computation", "replica"], n_ops=4, kinds=["nocb", "cb"]),
          dict(agents=_A2, hosts=["a1"], subscribers=["a2"], comps=["c1"], families=["computation", "replica"], n_ops=3, kinds=["nocb", "cb"],
               init=_HOSTED, sched="random", seeds=3),
          _ren(dict(agents=_A3, leavers=["a2"], hosts=["a2"], subscribers=["a1"], agent_targets=["a2"], comps=["c1"],
                    families=["agent", "computation"], n_ops=4, kinds=["nocb", "cb"]), _NAMES)]
    if tier == "thorough":
        s += [two_comps]
        s += _dsplit(agents4)
        s += _dsplit(_ren(dict(agents=_A3, leavers=["a2"], hosts=["a2"], subscribers=["a1", "a3"], agent_targets=["a2"], comps=["c1"],
                               families=["agent", "computation"], n_ops=4, kinds=["nocb", "cb"]), _NAMES))
        s += _dsplit(dict(agents=_A2, comps=["c1"], families=["computation"], n_ops=5))
        s += _dsplit(dict(agents=_A2, comps=["c1", "c2"], families=["computation"], n_ops=4))
        s += _dsplit(dict(agents=_A3, comps=["c1"], families=["computation"], n_ops=4, kinds=["nocb", "cb"]))
        s += _dsplit(dict(agents=_A2, comps=["c1"], families=["computation"], n_ops=3, sched="explore"))
        s += _dsplit(dict(agents=_A2, comps=["c1"], families=["computation"], n_ops=5, sched="random", seeds=4, kinds=["nocb", "cb"]))
        s += _dsplit(dict(agents=_A3, comps=["c1"], families=["computation"], hosts=["a1", "a2"], subscribers=[], n_ops=3, sched="explore",
                          init=[["sub", "a3", "computation", "c1", "cb"]]))
        s += _dsplit(dict(agents=_A3, late=["a3"], leavers=["a2", "a3"], subscribers=["a1", "a2"], agent_targets=["a2", "a3"], comps=[],
                          families=["agent"], n_ops=5, kinds=["nocb", "cb"]))
        s += _dsplit(dict(agents=_A3, late=["a3"], leavers=["a3"], subscribers=["a1"], agent_targets=["a3"], comps=[], families=["agent"],
                          n_ops=3, sched="explore"))
        s += _dsplit(dict(agents=_A3, late=["a3"], leavers=["a2", "a3"], subscribers=["a1", "a2"], agent_targets=["a2", "a3"], comps=[],
                          families=["agent"], all_agents=True, n_ops=4))
        s += _dsplit(dict(agents=_A2, comps=["c1"], families=["replica"], n_ops=5, init=_HOSTED))
        s += _dsplit(dict(agents=_A2, comps=["c1"], families=["replica"], n_ops=3, init=_HOSTED, sched="explore", kinds=["nocb", "cb"]))
        s += _dsplit(dict(agents=_A2, comps=["c1", "c2"], families=["computation", "replica"], n_ops=4, kinds=["nocb", "cb"], init=_HOSTED))
        s += _dsplit(dict(agents=_A3, leavers=["a2", "a3"], subscribers=["a1", "a3"], agent_targets=["a2"], comps=["c1"],
                          families=["agent", "computation", "replica"], n_ops=4, kinds=["nocb", "cb"]))
    return s


Contract(
    "discovery.histories", ["C20"],
    ["pydcop.infrastructure.discovery:Discovery.register_agent", "pydcop.infrastructure.discovery:Discovery.unregister_agent",
     "pydcop.infrastructure.discovery:Discovery.subscribe_agent", "pydcop.infrastructure.discovery:Discovery.unsubscribe_agent",
     "pydcop.infrastructure.discovery:Discovery.subscribe_all_agents",
     "pydcop.infrastructure.discovery:Discovery.register_computation", "pydcop.infrastructure.discovery:Discovery.unregister_computation",
     "pydcop.infrastructure.discovery:Discovery.subscribe_computation", "pydcop.infrastructure.discovery:Discovery.unsubscribe_computation",
     "pydcop.infrastructure.discovery:Discovery.register_replica", "pydcop.infrastructure.discovery:Discovery.unregister_replica",
     "pydcop.infrastructure.discovery:Discovery.subscribe_replica", "pydcop.infrastructure.discovery:Discovery.unsubscribe_replica",
     "pydcop.infrastructure.discovery:Discovery.agent_address", "pydcop.infrastructure.discovery:Discovery.computation_agent",
     "pydcop.infrastructure.discovery:Discovery.replica_agents",
     "pydcop.infrastructure.discovery:DiscoveryComputation.on_message", "pydcop.infrastructure.discovery:DiscoveryComputation._on_agent_added",
     "pydcop.infrastructure.discovery:DiscoveryComputation._on_agent_removed",
     "pydcop.infrastructure.discovery:DiscoveryComputation._on_computation_added",
     "pydcop.infrastructure.discovery:DiscoveryComputation._on_computation_removed",
     "pydcop.infrastructure.discovery:DiscoveryComputation._on_replica_publish",
     "pydcop.infrastructure.discovery:DirectoryComputation.on_message", "pydcop.infrastructure.discovery:DirectoryComputation._on_subscribe_agent",
     "pydcop.infrastructure.discovery:DirectoryComputation._on_subscribe_computation",
     "pydcop.infrastructure.discovery:DirectoryComputation._on_subscribe_replica",
     "pydcop.infrastructure.discovery:DirectoryComputation._on_publish_replica",
     "pydcop.infrastructure.discovery:Directory.register_agent", "pydcop.infrastructure.discovery:Directory.unregister_agent",
     "pydcop.infrastructure.discovery:Directory.register_computation", "pydcop.infrastructure.discovery:Directory.unregister_computation",
     "pydcop.infrastructure.discovery:Directory.register_replica", "pydcop.infrastructure.discovery:Directory.unregister_replica",
     "pydcop.infrastructure.discovery:Directory.subscribe_all_agents"],
    h_discovery, _shapes_discovery, mode="E", must_cover=["drained", "converged-agent", "converged-computation", "converged-replica"],
    trusted=["router: one FIFO queue per (sender, receiver) pair of discovery computations, any interleaving of the queues "
             "(what the in-process and http transports and an agent's inbox give, C18)"],
    assumptions=["C20: delivery orders = FIFO per (sender, receiver) pair; the interleaving of the pairs is explored exhaustively only on "
                 "the 2-operation shapes (3 in the thorough tier), by seeded random schedules and two extreme policies (everything "
                 "delivered at once / nothing delivered before the end, last channel first) elsewhere; reordering inside one pair is NOT explored",
                 "C20: usage preconditions taken from the code and its call sites: a computation is hosted by at most one agent at a time and "
                 "only its host unregisters it; replicas are published by an agent that hosts or follows the computation; subscribe_replica "
                 "only by an agent that follows the computation; an agent leaves (unregister_agent) only when it hosts nothing and does "
                 "nothing afterwards; unsubscribe(cb) only with a callback that is registered",
                 "C20: 'still subscribed' follows the documented API: unsubscribe(None), removing the last callback, and (for its own "
                 "computation) the host's unregister_computation end a subscription"],
    budget=dict(quick=dict(max_paths=400000, timeout_s=560), thorough=dict(max_paths=4000000, timeout_s=3400)),
    desc="real Discovery x 2-3, Directory, their computations: every history of <= 4 discovery operations; per-operation contracts (view, "
         "callbacks iff change, kind of the message sent) and, once drained, view == directory for every subscribed item",
)
