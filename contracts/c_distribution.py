"""Contracts on pydcop.distribution.* and the ``pydcop distribute`` command (C23, C24).

C23  every distribution method either returns a *valid* mapping (every computation of
     the graph hosted exactly once, on a declared agent, must-host hints honoured,
     capacities respected by the capacity-aware methods) or signals
     ImpossibleDistributionException / TimeoutError; nothing else.
C24  oilp_cgdp and ilp_fgdp return a distribution that is cost-minimal (their own
     ``distribution_cost``) among all distributions satisfying their own hard rules;
     oracle = brute-force enumeration.

Heuristic methods (oneagent, adhoc, heur_comhost, gh_cgdp) run on symbolic footprints,
capacities, hosting costs and routes (B-mode).  The ILP methods need plain numbers
(PuLP): instances are drawn from small grids by a seeded generator (E-mode: the
instance index is an enumerated choice).  ``GLPK_CMD`` is rebound in the module under
check to PuLP's bundled CBC (glpsol is not installed); the MILP solver is an external
under assumed contract.

Frame obligations (labels ``<method>.<Cxx>.frame.*``, ``command.C23.frame.*``): distribute() is handed the computation
graph, the agent definitions, the hints and two callables and only reads them.  ``Frame`` records what a caller can observe
of each (node objects / names / neighbours / links; every agent's capacity, tables and route() / hosting_cost() answers;
must_host() / host_with(); computation_memory / communication_load on every node and neighbour) before the call and
compares after it, after a SECOND call on the same inputs (which answers to the same C23 / C24 obligations, labels tagged
``second-call-on-the-same-inputs``) and after the returned Distribution objects were edited by their owner."""
import importlib
import io
import itertools
import os
import random as _pyrandom
import sys
import tempfile

from pvc.contract import Contract
from pvc.explore import Raised
from pvc.sym import And, Or, Not, Implies, eq, le, is_sym, ssum

# ------------------------------------------------------------------ fixtures

# names are neither sorted nor aligned with their position
POOL = {
    "none": dict(vars=[], cons=[]),
    "single": dict(vars=["w"], cons=[("cu", ["w"])]),
    "lonely": dict(vars=["w"], cons=[]),
    "pair": dict(vars=["y", "x"], cons=[("cb", ["y", "x"])]),
    "dup": dict(vars=["y", "x"], cons=[("cb", ["y", "x"]), ("cc", ["x", "y"])]),
    "iso": dict(vars=["y", "w", "x"], cons=[("cb", ["x", "y"])]),
    "chain3": dict(vars=["z", "x", "y"], cons=[("cb", ["y", "x"]), ("ca", ["z", "y"])]),
    "tern": dict(vars=["x", "z", "y"], cons=[("ct", ["z", "x", "y"])]),
    "tri": dict(vars=["x", "z", "y"], cons=[("cb", ["y", "x"]), ("ca", ["z", "y"]), ("cd", ["x", "z"])]),
    "chain3u": dict(vars=["z", "x", "y"], cons=[("cb", ["y", "x"]), ("ca", ["z", "y"]), ("cu", ["x"])]),
    "star4": dict(vars=["v", "z", "x", "y"], cons=[("cb", ["y", "x"]), ("ca", ["z", "y"]), ("ce", ["y", "v"])]),
    "chain4": dict(vars=["v", "z", "x", "y"], cons=[("cb", ["y", "x"]), ("ca", ["z", "y"]), ("ce", ["z", "v"])]),
    "chain5": dict(vars=["v", "z", "x", "y", "u"],
                   cons=[("cb", ["y", "x"]), ("ca", ["z", "y"]), ("ce", ["z", "v"]), ("cf", ["v", "u"])]),
    "tern_pair": dict(vars=["v", "z", "x", "y"], cons=[("ct", ["z", "x", "y"]), ("ce", ["y", "v"])]),
}
AGENT_NAMES = ["a2", "a1", "a3", "a0"]
GRAPHS = ["constraints_hypergraph", "factor_graph", "pseudotree", "ordered_graph"]
CAPACITY_AWARE = {"adhoc", "heur_comhost", "gh_cgdp", "ilp_fgdp", "ilp_compref", "oilp_cgdp"}


def build_dcop(spec):
    from pydcop.dcop.dcop import DCOP
    from pydcop.dcop.objects import Variable, Domain
    from pydcop.dcop.relations import constraint_from_str
    s = POOL[spec]
    dom = Domain("d", "", [10, 0, 5])
    vs = {n: Variable(n, dom) for n in s["vars"]}
    dcop = DCOP("t", "min")
    for n in s["vars"]:
        dcop.add_variable(vs[n])
    for cname, scope in s["cons"]:
        dcop.add_constraint(constraint_from_str(cname, " + ".join(scope), [vs[n] for n in scope]))
    return dcop


def build_graph(env, spec, graph):
    """the real builder of the graph model; a builder failure is another property's
    business (C16/C17): the path is dropped"""
    mod = importlib.import_module("pydcop.computations_graph." + graph)
    dcop = build_dcop(spec)
    cg = env.call(mod.build_computation_graph, dcop)
    if isinstance(cg, Raised):
        env.assume(False)
    return dcop, cg


class Rnd:
    """stands for the ``random`` module (and the names imported from it) inside the module
    under check: a draw is an input of the run (symbolic real / explored choice)"""

    def __init__(self, env, max_perms=6, fixed=False):
        self.env = env
        self.fixed = fixed
        self.n = 0
        self.n_shuffle = 0
        self.max_perms = max_perms
        self.log = []       # the draws made so far: (kind, size, outcome)
        self.again = None   # draws to be served once more (frame obligations: a second call under the same draws)

    def _name(self, what):
        self.n += 1
        return "rnd_%s%d" % (what, self.n)

    def replay(self):
        """from now on the draws made so far are served again, in order, as long as the requests match them
        (same kind, same number of options); after that, or on a mismatch, draws are fresh again"""
        self.again = list(self.log)

    def _served_again(self, kind, size):
        if self.again:
            k, n, out = self.again.pop(0)
            if k == kind and n == size:
                return out
            self.again = None
        return None

    def random(self):
        got = self._served_again("random", 0)
        if got is not None:
            return got[0]
        if self.fixed:
            # a fixed low-discrepancy sequence (ties are broken one given way instead of every way)
            self.n += 1
            x = ((self.n * 7) % 16) / 16.0
        else:
            x = self.env.real(self._name("random"), 0, 1)
            self.env.assume(x < 1)
        self.log.append(("random", 0, (x,)))
        return x

    def choice(self, seq):
        seq = list(seq)
        if not seq:
            raise IndexError("Cannot choose from an empty sequence")
        got = self._served_again("choice", len(seq))
        if got is not None:
            return seq[got[0]]
        x = self.env.choice(self._name("choice"), seq)
        self.log.append(("choice", len(seq), (seq.index(x),)))
        return x

    def shuffle(self, lst):
        n = len(lst)
        got = self._served_again("shuffle", n)
        if got is not None:
            self.n_shuffle += 1
            lst[:] = [lst[i] for i in got[0]]
            return
        perms = list(itertools.permutations(range(n)))
        if len(perms) > self.max_perms:
            # identity, reverse, rotations, then a fixed sample: a subset of the orders
            keep = [tuple(range(n)), tuple(reversed(range(n)))]
            keep += [tuple((i + k) % n for i in range(n)) for k in range(1, n)]
            rng = _pyrandom.Random(n)
            while len(keep) < self.max_perms:
                keep.append(tuple(rng.sample(range(n), n)))
            perms = list(dict.fromkeys(keep))[: self.max_perms]
        # later draws (retries) explore fewer orders
        if self.n_shuffle >= 1:
            perms = perms[:2] if len(perms) > 2 else perms
        self.n_shuffle += 1
        perm = self.env.choice(self._name("shuffle"), perms)
        self.log.append(("shuffle", n, (perm,)))
        lst[:] = [lst[i] for i in perm]


def make_hints(kind, cg, agent_names):
    """DistributionHints over declared agents and computations of the graph; every
    computation named at most once in must_host.  Returns (hints, must_host dict)"""
    from pydcop.distribution.objects import DistributionHints
    comps = [n.name for n in cg.nodes]
    if kind == "none" or not comps:
        return None, {}
    if kind == "empty":
        return DistributionHints(), {}
    if kind == "must1":
        mh = {agent_names[-1]: [comps[0]]}
        return DistributionHints(must_host=mh), mh
    if kind == "must2":
        mh = {agent_names[-1]: [comps[0]]}
        if len(comps) > 1:
            mh.setdefault(agent_names[0], []).append(comps[-1])
        return DistributionHints(must_host=mh), mh
    if kind == "must_all":
        mh = {agent_names[0]: list(comps)}
        return DistributionHints(must_host=mh), mh
    if kind == "host_with":
        if len(comps) < 2:
            return DistributionHints(), {}
        return DistributionHints(host_with={comps[0]: [comps[1]]}), {}
    if kind == "secp":
        # the shape the SECP models use: a factor hinted to live with one variable of its scope
        facs = [n for n in cg.nodes if n.type == "FactorComputation"]
        if not facs:
            return DistributionHints(host_with={comps[0]: [comps[-1]]}), {}
        f = facs[0]
        v = [d.name for d in f.factor.dimensions][0]
        return DistributionHints(host_with={f.name: [v]}), {}
    if kind == "secp_must":
        facs = [n for n in cg.nodes if n.type == "FactorComputation"]
        if not facs:
            return None, {}
        f = facs[0]
        v = [d.name for d in f.factor.dimensions][0]
        mh = {agent_names[-1]: [v]}
        return DistributionHints(must_host=mh, host_with={f.name: [v]}), mh
    raise ValueError(kind)


def pair_load(cg):
    """concrete, symmetric communication load per pair of computation names"""
    names = [n.name for n in cg.nodes]

    def load(a, b):
        i, j = sorted((names.index(a), names.index(b)))
        return 1 + (2 * i + j) % 3
    return load


# ------------------------------------------------------------------ the C23 oracle

def prove(env, label, cond, detail=None):
    """env.prove, but a label that already has a witness in this job is not witnessed again
    (every failing path would otherwise be recorded and replayed)"""
    if any(f.label == label for f in env.ex.failures):
        return True
    return env.prove(label, cond, detail=detail)


def _hints_tag(kind):
    if kind in ("none", "empty"):
        return "no-hints"
    if kind in ("must1", "must2", "must_all", "secp_must"):
        return "must-host-hints"
    return "host-with-hints"


def check_valid(env, meth, sit, r, cg, agent_names, must_host, fp, cap, capacity_aware, info, first=False):
    """``r`` = what distribute returned (or Raised).  States the C23 obligations.  ``sit`` names the
    situation (kind of hints, zero hosting costs possible, ...) so that distinct causes of a failure
    get distinct obligation labels.  ``first`` (second call on the same inputs only): the mapping the first
    call returned, or None; a must-host hint the first call already ignored (KF-DIST-1) is not asked again."""
    from pydcop.distribution.objects import Distribution, ImpossibleDistributionException
    L = lambda what, extra=None: "%s.C23.%s[%s]" % (meth, what, ",".join(([extra] if extra else []) + sit))  # noqa
    if isinstance(r, Raised):
        ok = isinstance(r.exc, (ImpossibleDistributionException, TimeoutError))
        env.cover("declared-impossible" if ok else "other-error")
        prove(env, L("raises-only-impossible-or-timeout", type(r.exc).__name__), ok,
                  detail=lambda: dict(info(), raised=repr(r), tb=r.tb))
        return None
    env.cover("returned")
    if not prove(env, L("returns-a-Distribution"), isinstance(r, Distribution), detail=lambda: (info(), r)):
        return None
    mapping = {a: list(cs) for a, cs in r.mapping().items()}
    comps = [n.name for n in cg.nodes]
    hosted = [c for cs in mapping.values() for c in cs]
    det = lambda: dict(info(), mapping=mapping)  # noqa
    prove(env, L("every-computation-hosted"), all(c in hosted for c in comps), detail=det)
    prove(env, L("no-computation-hosted-twice"), len(hosted) == len(set(hosted)), detail=det)
    prove(env, L("only-computations-of-the-graph-hosted"), all(c in comps for c in hosted), detail=det)
    prove(env, L("hosts-are-declared-agents"), all(a in agent_names for a, cs in mapping.items() if cs), detail=det)
    # the Distribution object answers consistently with its mapping (objects.py consistency)
    consistent = all(r.has_computation(c) and c in mapping.get(r.agent_for(c), []) for c in hosted)
    prove(env, L("agent_for-agrees-with-mapping"), consistent, detail=det)
    for a, cs in must_host.items():
        for c in cs:
            if first is not False and (first is None or c not in first.get(a, [])):
                continue
            prove(env, L("must-host-hints-honoured"), c in mapping.get(a, []),
                      detail=lambda: dict(info(), mapping=mapping, must_host=must_host))
    if capacity_aware:
        for a in agent_names:
            mine = [c for c in mapping.get(a, []) if c in comps]
            prove(env, L("hosted-footprint-within-capacity"), le(ssum([fp[c] for c in mine]), cap[a]),
                      detail=lambda: dict(info(), mapping=mapping, agent=a, footprints=fp, capacities=cap))
    return mapping


# ------------------------------------------------------------------ frame: what a caller can observe of the inputs of distribute()

SECOND = "second-call-on-the-same-inputs"


def _same(a, b):
    """python bool or symbolic bool: a and b are the same observation (symbolic numbers by identity, else pvc.sym.eq;
    never ``==`` on them in a python ``if``).  Dict key order is not part of the observation, list order is."""
    if a is b:
        return True
    if is_sym(a) or is_sym(b):
        return eq(a, b)
    if isinstance(a, (list, tuple)) and isinstance(b, (list, tuple)):
        return type(a) is type(b) and len(a) == len(b) and And([_same(x, y) for x, y in zip(a, b)])
    if isinstance(a, dict) and isinstance(b, dict):
        return set(a) == set(b) and And([_same(a[k], b[k]) for k in a])
    return bool(a == b)


def _obs_graph(cg):
    """node objects (by identity, in order), their names / types / neighbours / links, the links of the graph"""
    nodes = list(cg.nodes)
    return dict(nodes=[_Ident(n) for n in nodes], names=[n.name for n in nodes], types=[n.type for n in nodes],
                node_names=list(cg.node_names()),
                neighbors=[list(n.neighbors) for n in nodes],
                links=[[(type(l).__name__, l.type, frozenset(l.nodes)) for l in n.links] for n in nodes],
                all_links=set((type(l).__name__, l.type, frozenset(l.nodes)) for l in cg.links))


class _Ident:
    """an object compared by identity"""

    def __init__(self, o):
        self.o = o

    def __eq__(self, other):
        return isinstance(other, _Ident) and self.o is other.o

    def __hash__(self):
        return id(self.o)

    def __repr__(self):
        return "<%s>" % (getattr(self.o, "name", None) or type(self.o).__name__)


def _obs_agents(agentsdef, agent_names, comps):
    """the agent definitions as a caller reads them: the iterable handed to distribute (same objects, same order) and
    each definition's name, capacity, defaults, cost tables and its answers to route() / hosting_cost()"""
    others = list(agent_names) + ["zz_undeclared_agent"]
    cs = list(comps) + ["zz_undeclared_computation"]
    out = dict(objects=[_Ident(a) for a in agentsdef], defs=[])
    for a in agentsdef:
        out["defs"].append(dict(
            name=a.name, capacity=a.capacity, default_hosting_cost=a.default_hosting_cost, default_route=a.default_route,
            hosting_costs=dict(a.hosting_costs), routes=dict(a.routes), extra=dict(a.extra_attr()),
            route=[a.route(b) for b in others], hosting_cost=[a.hosting_cost(c) for c in cs]))
    return out


def _obs_hints(hints, must_host, agent_names, comps):
    """DistributionHints through must_host() / host_with(), plus the must_host table the caller built them from"""
    if hints is None:
        return dict(hints=None, table={a: list(cs) for a, cs in must_host.items()})
    return dict(must_host={a: list(hints.must_host(a)) for a in list(agent_names) + ["zz_undeclared_agent"]},
                host_with={c: list(hints.host_with(c)) for c in list(comps) + ["zz_undeclared_computation"]},
                table={a: list(cs) for a, cs in must_host.items()})


def _obs_callables(cg, memory, comm):
    """the answers of computation_memory / communication_load on every node / every (node, neighbour)"""
    nodes = list(cg.nodes)
    return dict(memory={n.name: memory(n) for n in nodes}, load={n.name: {t: comm(n, t) for t in n.neighbors} for n in nodes})


class Frame:
    """observational snapshot of everything handed to distribute(); ``check`` states the frame obligations"""

    def __init__(self, env, tag, cg, agentsdef, agent_names, hints, must_host, memory, comm, tables):
        self.env, self.tag = env, tag
        self.comps = [n.name for n in cg.nodes]
        self.args = (cg, agentsdef, agent_names, hints, must_host, memory, comm, tables)
        self.before = self.observe()
        self.changed = set()

    def observe(self, only=None):
        cg, agentsdef, agent_names, hints, must_host, memory, comm, tables = self.args
        obs = dict(graph=lambda: _obs_graph(cg), agents=lambda: _obs_agents(agentsdef, agent_names, self.comps),
                   hints=lambda: _obs_hints(hints, must_host, agent_names, self.comps),
                   callables=lambda: _obs_callables(cg, memory, comm),
                   tables=lambda: {k: dict(v) if isinstance(v, dict) else v for k, v in tables.items()})
        return {k: f() for k, f in obs.items() if only is None or k in only}

    def check(self, when, info, only=None):
        """inputs read again: every observation (``only``: the named ones) is what it was before the first call"""
        now = self.observe(only)
        what = dict(graph="computation-graph", agents="agent-definitions", hints="distribution-hints",
                    callables="computation_memory-and-communication_load-answers", tables="footprint-capacity-cost-tables")
        ok = True
        for k, name in what.items():
            if k not in now:
                continue
            if k in self.changed:
                continue    # reported once on this path
            b, n = self.before[k], now[k]
            same = _same(b, n)
            label = "%s.frame.%s-unchanged[%s]" % (self.tag, name, when)
            seen = any(f.label == label for f in self.env.ex.failures)   # prove() answers True for a label already witnessed in this job
            held = prove(self.env, label, same, detail=lambda: dict(info(), before=b, after=n))
            if same is False or not held or (seen and same is not True):
                self.changed.add(k)
                ok = False
        return ok


def _mapping_of(r):
    from pydcop.distribution.objects import Distribution
    return {a: list(cs) for a, cs in r.mapping().items()} if isinstance(r, Distribution) else None


def scribble_on(results):
    """use the returned Distribution objects the way a caller may (host more computations, edit the lists of mapping()).
    A Distribution holds lists of computation names under agent names: of the inputs, only the graph (name lists of the nodes)
    and the hints (must_host / host_with lists) can be reached that way, and only they are observed again afterwards"""
    from pydcop.distribution.objects import Distribution
    for i, r in enumerate(results):
        if not isinstance(r, Distribution):
            continue
        for cs in r.mapping().values():
            cs.append("zz_appended_%d" % i)
        for a in list(r.mapping()):
            try:
                r.host_on_agent(a, ["zz_hosted_%d_%s" % (i, a)])
            except Exception:  # noqa  (an inconsistent result is C23's business, not the frame's)
                pass


# ------------------------------------------------------------------ C23, heuristic methods (symbolic numbers)

def h_heuristics(env):
    from pydcop.dcop.objects import AgentDef
    p = _params(env)
    meth = p["method"]
    mod = env.call(importlib.import_module, "pydcop.distribution." + meth)
    if isinstance(mod, Raised):
        prove(env, "%s.C23.module-imports" % meth, False, detail=lambda: mod.tb)
        return
    dcop, cg = build_graph(env, p["dcop"], p["graph"])
    comps = [n.name for n in cg.nodes]
    m = p["agents"]
    names = AGENT_NAMES[:m]
    # ---- numeric inputs (all >= 0)
    fp = {c: env.real("fp_%s" % c, 0) for c in comps}
    cap = {a: env.real("cap_%s" % a, 0) for a in names}
    hosting = p.get("hosting", "default0")
    routes = p.get("routes", "default1")
    load = pair_load(cg)
    agents = []
    for i, a in enumerate(names):
        kw = dict(capacity=cap[a])
        if hosting in ("default", "positive"):
            kw["default_hosting_cost"] = env.real("hc_%s" % a, 0)
            if hosting == "positive":
                env.assume(kw["default_hosting_cost"] > 0)
        elif hosting in ("specific", "specific_positive"):
            kw["hosting_costs"] = {c: env.real("hc_%s_%s" % (a, c), 0) for c in comps}
            kw["default_hosting_cost"] = 3
            if hosting == "specific_positive":
                for c in comps:
                    env.assume(kw["hosting_costs"][c] > 0)
        elif hosting == "one_zero":
            # one explicit zero (pins computation i on agent i), every other cost positive
            kw["default_hosting_cost"] = env.real("hc_%s" % a, 0)
            env.assume(kw["default_hosting_cost"] > 0)
            if i < len(comps):
                kw["hosting_costs"] = {comps[i]: 0}
        if routes == "sym":
            kw["routes"] = {}
            for b in names:
                if b != a:
                    lo, hi = sorted((a, b))
                    kw["routes"][b] = env.real("route_%s_%s" % (lo, hi), 0)
            kw["default_route"] = 2
        agents.append(AgentDef(a, **kw))
    agentsdef = agents if p.get("agents_as", "list") == "list" else {a.name: a for a in agents}.values()
    hints, must_host = make_hints(p.get("hints", "none"), cg, names)
    # ---- a first, unrelated distribution in the same process: the same computation and agent names with other (concrete)
    # footprints, roomy agents, no hints. Its outcome is not judged; whatever it leaves in module-level state (a cache keyed
    # by computation name ...) is then visible to the call under contract, and the counterexample replays natively.
    import random as _pyr
    _wr = _pyr.Random(5)
    if meth == "adhoc":
        mod.shuffle, mod.choice = _wr.shuffle, _wr.choice
    elif hasattr(mod, "random"):
        mod.random = _wr
    try:
        mod.distribute(cg, [AgentDef(a, capacity=1000) for a in names], hints=None,
                       computation_memory=lambda n: 0, communication_load=lambda n, t: 0)
    except Exception:  # noqa - not judged
        pass
    rnd = Rnd(env, p.get("max_perms", 6), fixed=p.get("rnd") == "fixed")
    if meth == "adhoc":
        mod.shuffle = rnd.shuffle
        mod.choice = rnd.choice
    elif hasattr(mod, "random"):
        mod.random = rnd

    def memory(node):
        return fp[node.name]

    def comm(node, target):
        return load(node.name, target)

    kw = dict(hints=hints, computation_memory=memory, communication_load=comm)
    if p.get("via") == "command-call":
        # the exact call ``pydcop distribute`` makes (commands/distribute.py: run_cmd)
        kw["timeout"] = 3600
    frame = Frame(env, meth + ".C23", cg, agentsdef, names, hints, must_host, memory, comm, dict(footprints=fp, capacities=cap))
    kw_before = dict(kw)
    r = env.call(lambda: mod.distribute(cg, agentsdef, **kw))
    sit = [_hints_tag(p.get("hints", "none"))]
    if meth == "gh_cgdp":
        sit.append("all-hosting-costs>0" if hosting in ("positive", "specific_positive") else "zero-hosting-cost-possible")
    if meth == "adhoc":
        sit.append("first-attempt" if rnd.n_shuffle <= 1 else "after-a-retry")
    if p.get("via") == "command-call":
        sit.append("called-as-the-distribute-command-does")
    info = lambda: dict(method=meth, graph=p["graph"], dcop=p["dcop"], agents=names, hints=p.get("hints", "none"),  # noqa
                        hosting=hosting)
    check_valid(env, meth, sit, r, cg, names, must_host, fp, cap, meth in CAPACITY_AWARE, info)
    # ---- frame: distribute() reads its inputs, it does not write into them
    prove(env, "%s.C23.frame.keyword-arguments-unchanged" % meth, _same(kw_before, kw), detail=lambda: (info(), kw_before, kw))
    if not frame.check("after-the-call", info):
        return
    first = _mapping_of(r)
    results = [r]
    # the same graph / agents / hints serve a second distribution (pydcop solve after pydcop distribute, a batch over several
    # methods, ...): the second call answers to the same obligations.  Symbolic exploration: where the case asks for it, and
    # under the random draws of the first call (fresh draws would square the number of paths); native runs (sampling,
    # replay of a witness): always, with fresh draws
    if (not env.symbolic) or meth == "oneagent" or p.get("again"):
        n_shuffle = rnd.n_shuffle
        if env.symbolic:
            rnd.replay()   # symbolic exploration: the second call under the draws of the first
        r2 = env.call(lambda: mod.distribute(cg, agentsdef, **kw))
        sit2 = [s_ for s_ in sit if s_ not in ("first-attempt", "after-a-retry")]
        if meth == "adhoc":
            sit2.append("first-attempt" if rnd.n_shuffle - n_shuffle <= 1 else "after-a-retry")
        check_valid(env, meth, sit2 + [SECOND], r2, cg, names, must_host, fp, cap, meth in CAPACITY_AWARE, info, first=first)
        prove(env, "%s.C23.frame.first-result-unchanged-by-the-second-call" % meth, _same(first, _mapping_of(r)),
              detail=lambda: (info(), first, _mapping_of(r)))
        frame.check("after-" + SECOND, info)
        results.append(r2)
    # the result is the caller's: editing it does not reach the inputs
    scribble_on(results)
    frame.check("after-editing-the-result", info, only=("graph", "hints"))


def _case(method, dcop, graph, agents, **kw):
    return dict(method=method, dcop=dcop, graph=graph, agents=agents, **kw)


def _group(name, cases, **kw):
    """one job exploring several cases (the case is the first enumerated choice of the harness)"""
    return dict(group=name, cases=cases, **kw)


def _chunk(cases, per, **kw):
    """group cases into jobs of about ``per`` cases, method by method"""
    out, by = [], {}
    for c in cases:
        by.setdefault(c["method"], []).append(c)
    for m, cs in by.items():
        for i in range(0, len(cs), per):
            part = cs[i:i + per]
            out.append(_group("%s-%d" % (m, i // per + 1), part, **kw))
    return out


def _params(env):
    p = dict(env.params)
    if "cases" in p:
        p.update(env.choice("case", p["cases"]))
    return p


def _shapes_heur(tier, prop=None):
    HG, FG, PT, OG = GRAPHS
    c = _case
    S = []
    # oneagent: no numbers involved; every graph model, fewer / as many / more agents than computations
    one = [c("oneagent", "pair", g, 1) for g in GRAPHS] + [c("oneagent", "chain3", g, 3) for g in GRAPHS]
    one += [c("oneagent", "chain3", HG, 3, hints="must1"), c("oneagent", "iso", HG, 4, agents_as="values", via="command-call"),
            c("oneagent", "none", HG, 1), c("oneagent", "lonely", PT, 2)]
    if tier == "thorough":
        one += [c("oneagent", "star4", g, 4, hints="must2") for g in GRAPHS] + [c("oneagent", "dup", g, 3) for g in GRAPHS]
    S.append(_group("oneagent", one))
    # adhoc (every failed placement re-runs the whole procedure up to 3 times: keep the shapes tiny)
    S.append(_group("adhoc-small", [
        c("adhoc", "pair", OG, 1), c("adhoc", "lonely", HG, 3), c("adhoc", "pair", HG, 2, hints="must1"),
        c("adhoc", "chain3", HG, 2, hints="must2", max_perms=2), c("adhoc", "pair", HG, 2, hints="host_with"),
        c("adhoc", "pair", FG, 2, hints="secp_must", max_perms=2), c("adhoc", "pair", HG, 2, via="command-call"),
        c("adhoc", "none", HG, 1)]))
    S.append(_group("adhoc-pair", [c("adhoc", "pair", HG, 2), c("adhoc", "pair", PT, 2, hints="empty", agents_as="values")]))
    S.append(_group("adhoc-factor-graph", [c("adhoc", "single", FG, 2), c("adhoc", "pair", FG, 1, hints="secp", max_perms=2)]))
    for meth in ("heur_comhost", "gh_cgdp"):
        S.append(_group(meth + "-small", [
            c(meth, "pair", HG, 2, hosting="default"), c(meth, "pair", HG, 2, hosting="default0"),
            c(meth, "pair", HG, 2, hosting="positive", agents_as="values"), c(meth, "single", FG, 2, hosting="one_zero"),
            c(meth, "pair", OG, 1, hosting="default"), c(meth, "pair", HG, 2, hosting="positive", hints="must1"),
            c(meth, "none", HG, 1, hosting="default"), c(meth, "pair", HG, 2, hosting="positive", via="command-call")]))
        S.append(_group(meth + "-routes", [c(meth, "pair", PT, 2, hosting="specific", routes="sym"),
                                           c(meth, "pair", OG, 2, hosting="specific_positive", routes="sym")]))
        S.append(_group(meth + "-chain3", [c(meth, "chain3", HG, 2, hosting="positive", rnd="fixed")]))
    # the second call on the same inputs explored symbolically too (elsewhere: native runs only, see h_heuristics)
    S.append(_group("second-call-adhoc", [
        c("adhoc", "pair", HG, 2, hints="must1", max_perms=2, again=True), c("adhoc", "pair", FG, 1, hints="secp", max_perms=2, again=True)]))
    S.append(_group("second-call-heur_comhost", [c("heur_comhost", "pair", HG, 2, hosting="positive", rnd="fixed", again=True)]))
    S.append(_group("second-call-gh_cgdp", [c("gh_cgdp", "pair", HG, 2, hosting="specific", rnd="fixed", again=True)]))
    if tier == "thorough":
        for meth in ("heur_comhost", "gh_cgdp"):
            S.append(_group(meth + "-chain3-any-tie-break", [c(meth, "chain3", HG, 2, hosting="positive")]))
            S.append(_group(meth + "-chain3-pseudotree", [c(meth, "chain3", PT, 2, hosting="positive", routes="sym", rnd="fixed")]))
            S.append(_group(meth + "-3-agents", [c(meth, "chain3", PT, 3, hosting="positive", rnd="fixed")]))
            S.append(_group(meth + "-more", [c(meth, "pair", FG, 2, hosting="specific", rnd="fixed"),
                                             c(meth, "tern", HG, 3, hosting="one_zero", rnd="fixed"),
                                             c(meth, "iso", OG, 2, hosting="default", rnd="fixed"),
                                             c(meth, "dup", HG, 3, hosting="specific_positive", rnd="fixed")]))
        S.append(_group("adhoc-secp-hint-2-agents", [c("adhoc", "single", FG, 2, hints="secp", max_perms=2)]))
        S.append(_group("adhoc-secp-hint-pair", [c("adhoc", "pair", FG, 2, hints="secp", max_perms=2)]))
        S.append(_group("adhoc-chain3", [c("adhoc", "chain3", PT, 2, max_perms=3)]))
        S.append(_group("adhoc-pair-factor-graph", [c("adhoc", "pair", FG, 2, max_perms=3)]))
        S.append(_group("adhoc-more-tern", [c("adhoc", "tern", HG, 3, hints="must_all")]))
        S.append(_group("adhoc-more-iso", [c("adhoc", "iso", OG, 3, max_perms=2)]))
        S.append(_group("adhoc-more-chain3", [c("adhoc", "chain3", FG, 2, hints="secp_must", max_perms=2)]))
    return S


Contract(
    "distribution.heuristics", ["C23"],
    ["pydcop.distribution.oneagent:distribute", "pydcop.distribution.adhoc:distribute", "pydcop.distribution.adhoc:_distribute_try",
     "pydcop.distribution.heur_comhost:distribute", "pydcop.distribution.heur_comhost:candidate_hosts",
     "pydcop.distribution.gh_cgdp:distribute", "pydcop.distribution.gh_cgdp:candidate_hosts",
     "pydcop.distribution.objects:Distribution.__init__", "pydcop.distribution.objects:Distribution.agent_for",
     "pydcop.distribution.objects:DistributionHints.must_host", "pydcop.distribution.objects:DistributionHints.host_with"],
    h_heuristics, _shapes_heur, mode="B", must_cover=["returned"],
    trusted=["random.random / choice / shuffle modelled as fresh real in [0,1) / explored choice / explored subset of the permutations"],
    assumptions=["hints name declared agents and computations of the graph, a computation at most once in must_host",
                 "footprints, capacities, hosting and route costs are >= 0 and routes symmetric (as the yaml loader builds them); "
                 "communication loads are concrete so that route * load stays linear",
                 "adhoc: shuffle explores at most max_perms orders of the nodes (2 on retries)",
                 "heur_comhost / gh_cgdp on 3 computations: the random tie-breaks follow one fixed sequence (quick tier)",
                 "second call on the same inputs (frame): explored symbolically for oneagent and the 'second-call-*' shapes only, under the "
                 "random draws of the first call; every sampled native run makes it with fresh draws"],
    budget=dict(all_failures=True, quick=dict(max_paths=1500, timeout_s=100), thorough=dict(max_paths=60000, timeout_s=900)),
    desc="oneagent, adhoc, heur_comhost, gh_cgdp on symbolic footprints/capacities/costs: a valid mapping (hosted once, declared agents, "
         "must-host, capacity) or ImpossibleDistributionException",
)


# ------------------------------------------------------------------ ILP methods: concrete instances from small grids

def _cbc_in_place_of_glpk(*a, **kw):
    """GLPK_CMD(...) as written in the module under check -> PuLP's bundled CBC"""
    import pulp
    return pulp.PULP_CBC_CMD(msg=0, timeLimit=120)


def gen_instance(rng, comps, names, style):
    """plain-number instance: footprints, capacities, hosting costs, routes, loads from small grids"""
    inst = {}
    fp = {c: rng.choice([1, 1, 2, 3]) for c in comps}
    if rng.random() < 0.15 and comps:
        fp[rng.choice(comps)] = 0
    total = sum(fp.values())
    m = len(names)
    capkind = rng.choice(style.get("cap", ["ample", "tight", "tight", "mixed", "short"]))
    if capkind == "ample":
        cap = {a: total + rng.choice([0, 5]) for a in names}
    elif capkind == "tight":
        base = -(-total // m) if m else 0
        cap = {a: max(0, base + rng.choice([0, 0, 1, -1])) for a in names}
    elif capkind == "mixed":
        cap = {a: rng.randint(0, max(total, 1)) for a in names}
    else:
        cap = {a: rng.randint(0, max(list(fp.values()) + [1])) for a in names}
    hk = rng.choice(style.get("hosting", ["default0", "default_pos", "specific_pos", "some_zero", "some_zero", "zero_clash"]))
    default = {a: 0 for a in names}
    specific = {a: {} for a in names}
    if hk == "default_pos":
        default = {a: rng.choice([1, 2, 5]) for a in names}
    elif hk in ("specific_pos", "some_zero", "zero_clash"):
        default = {a: rng.choice([1, 3]) for a in names}
        specific = {a: {c: rng.choice([1, 2, 5, 10]) for c in comps if rng.random() < 0.8} for a in names}
        if hk != "specific_pos" and comps:
            for c in rng.sample(comps, min(len(comps), rng.choice([1, 1, 2]))):
                specific[rng.choice(names)][c] = 0
            if hk == "zero_clash" and m > 1:
                c = rng.choice(comps)
                for a in rng.sample(names, 2):
                    specific[a][c] = 0
    rk = rng.choice(style.get("routes", ["default1", "default_k", "specific", "specific"]))
    default_route = 1 if rk == "default1" else rng.choice([0, 2, 5])
    pair_route, back_route = {}, {}
    if rk in ("specific", "asym"):
        for a, b in itertools.combinations(sorted(names), 2):
            if rng.random() < 0.8:
                pair_route[(a, b)] = rng.choice([0, 1, 3, 7])
                if rk == "asym":
                    # the route of b to a differs from the route of a to b (only possible through the AgentDef API: the
                    # yaml loader builds symmetric routes); the methods' own cost model keeps the two directions apart
                    back_route[(a, b)] = rng.choice([0, 2, 5, 9])
    loads = {}
    for a, b in itertools.combinations(sorted(comps), 2):
        loads[(a, b)] = rng.choice(style.get("loads", [1, 1, 2, 3, 0]))
    inst.update(fp=fp, cap=cap, hosting_kind=hk, default_hosting=default, hosting=specific, default_route=default_route,
                routes={"%s-%s" % k: v for k, v in pair_route.items()}, capkind=capkind,
                routes_back={"%s-%s" % k: v for k, v in back_route.items()},
                loads={"%s-%s" % k: v for k, v in loads.items()})
    return inst


def agents_of(inst, names):
    from pydcop.dcop.objects import AgentDef
    out = []
    for a in names:
        routes = {}
        for k, v in inst["routes"].items():
            x, y = k.split("-")
            if x == a:
                routes[y] = v
            elif y == a:
                routes[x] = inst.get("routes_back", {}).get(k, v)
        kw = dict(capacity=inst["cap"][a], default_route=inst["default_route"], routes=routes)
        if inst["hosting_kind"] != "default0":
            kw["default_hosting_cost"] = inst["default_hosting"][a]
            kw["hosting_costs"] = dict(inst["hosting"][a])
        out.append(AgentDef(a, **kw))
    return out


def _load_of(inst):
    def load(a, b):
        x, y = sorted((a, b))
        return inst["loads"].get("%s-%s" % (x, y), 1)
    return load


def valid_distributions(meth, comps, names, agents, fp, cap):
    """every mapping satisfying the method's own hard rules: capacities, every computation hosted
    once, a computation with hosting cost 0 on an agent is pinned to that agent, and (ilp_fgdp)
    every agent hosts something"""
    pinned = {}
    for c in comps:
        zero = [a.name for a in agents if a.hosting_cost(c) == 0]
        if len(zero) > 1:
            return []  # pinned to two agents: no mapping satisfies the rules
        if zero:
            pinned[c] = zero[0]
    out = []
    for asg in itertools.product(names, repeat=len(comps)):
        m = dict(zip(comps, asg))
        if any(m[c] != a for c, a in pinned.items()):
            continue
        if any(sum(fp[c] for c in comps if m[c] == a) > cap[a] for a in names):
            continue
        if meth == "ilp_fgdp" and any(a not in asg for a in names):
            continue
        out.append(m)
    return out


def h_ilp(env):
    from pydcop.distribution.objects import Distribution, ImpossibleDistributionException
    p = _params(env)
    meth = p["method"]
    prop = p.get("prop", "C23")
    mod = env.call(importlib.import_module, "pydcop.distribution." + meth)
    if isinstance(mod, Raised):
        prove(env, "%s.C23.module-imports" % meth, False, detail=lambda: mod.tb)
        return
    mod.GLPK_CMD = _cbc_in_place_of_glpk
    dcop, cg = build_graph(env, p["dcop"], p["graph"])
    comps = [n.name for n in cg.nodes]
    names = AGENT_NAMES[:p["agents"]]
    k = env.choice("instance", list(range(p["n"])))
    key = "%s/%s/%s/%d/%s/%d/%d" % (meth, p["dcop"], p["graph"], p["agents"], p.get("style_name", ""), p.get("_seed", 0), k)
    inst = gen_instance(_pyrandom.Random(key), comps, names, p.get("style", {}))
    if p.get("special") == "pinned-on-second-agent":
        # one computation of a link pinned (hosting cost 0) on the second agent, its neighbour free and slightly
        # cheaper to host on the first agent, an expensive route between the two (orientation-independent witness)
        c1, c2 = list(list(cg.links)[0].nodes)[:2]
        first, second = names[0], names[1]
        inst = dict(fp={c: 1 for c in comps}, cap={a: 10 for a in names}, hosting_kind="some_zero", capkind="ample",
                    default_hosting={a: 5 for a in names}, hosting={first: {c2: 1}, second: {c1: 0, c2: 2}}, default_route=1,
                    routes={"%s-%s" % tuple(sorted((first, second))): 10}, loads={})
    if p.get("special") == "doubled-links":
        # chain z - y - x as a pseudo-tree (every edge is a parent link and a children link): hosting everything
        # on the expensive agent (3.0) beats paying one doubled edge (1.8 + 0.8 * 2), but not one single edge (2.6)
        inst = dict(fp={"y": 0, "x": 1, "z": 1}, cap={"a2": 2, "a1": 1, "a3": 0}, hosting_kind="default_pos", capkind="mixed",
                    default_hosting={"a2": 5, "a1": 2, "a3": 1}, hosting={a: {} for a in names}, default_route=1, routes={},
                    loads={"x-y": 1, "x-z": 1, "y-z": 1})
    agents = agents_of(inst, names)
    agentsdef = agents if p.get("agents_as", "list") == "list" else {a.name: a for a in agents}.values()
    fp, cap = inst["fp"], inst["cap"]
    load = _load_of(inst)
    hints, must_host = make_hints(p.get("hints", "none"), cg, names)

    def memory(node):
        return fp[node.name]

    def comm(node, target):
        return load(node.name, target)

    kw = dict(hints=hints, computation_memory=memory, communication_load=comm)
    if p.get("via") == "command-call":
        kw["timeout"] = 3600

    def run():
        cwd = os.getcwd()
        tmp = tempfile.mkdtemp(prefix="pvc_dist_")
        os.chdir(tmp)  # ilp_compref keeps its LP files in the working directory
        try:
            return env.call(lambda: mod.distribute(cg, agentsdef, **kw))
        finally:
            os.chdir(cwd)
            import shutil
            shutil.rmtree(tmp, ignore_errors=True)

    import copy
    inst_before = copy.deepcopy(inst)   # plain numbers and strings
    frame = Frame(env, "%s.%s" % (meth, prop), cg, agentsdef, names, hints, must_host, memory, comm, dict(footprints=fp, capacities=cap))
    kw_before = dict(kw)
    r = run()
    zero_possible = inst["hosting_kind"] in ("default0", "some_zero", "zero_clash")
    sit = [_hints_tag(p.get("hints", "none")), "zero-hosting-cost-present" if zero_possible else "all-hosting-costs>0"]
    if p["graph"] in ("pseudotree", "ordered_graph") or p["dcop"] == "dup":
        sit.append("several-links-between-two-computations")
    if p.get("via") == "command-call":
        sit.append("called-as-the-distribute-command-does")
    info = lambda: dict(method=meth, graph=p["graph"], dcop=p["dcop"], agents=names, hints=p.get("hints", "none"), instance=inst)  # noqa
    # the second call on the same inputs costs a second MILP solve: every third instance (and the special ones)
    again = (k % 3 == 0) or bool(p.get("special"))
    if prop == "C23":
        check_valid(env, meth, sit, r, cg, names, must_host, fp, cap, True, info)
    else:
        _check_optimal(env, mod, meth, sit[1:], r, cg, comps, names, agents, fp, cap, memory, comm, info)
    # ---- frame: distribute() (and, for C24, distribution_cost()) read their inputs, they do not write into them
    F = lambda what: "%s.%s.frame.%s" % (meth, prop, what)  # noqa
    prove(env, F("keyword-arguments-unchanged"), _same(kw_before, kw), detail=lambda: (info(), kw_before, kw))
    prove(env, F("instance-tables-unchanged"), inst == inst_before, detail=lambda: dict(before=inst_before, after=inst))
    if not frame.check("after-the-call", info):
        return
    first_map = _mapping_of(r)
    results = [r]
    if again:
        r2 = run()
        if prop == "C23":
            check_valid(env, meth, sit + [SECOND], r2, cg, names, must_host, fp, cap, True, info, first=first_map)
        else:
            _check_optimal(env, mod, meth, sit[1:] + [SECOND], r2, cg, comps, names, agents, fp, cap, memory, comm, info)
        prove(env, F("first-result-unchanged-by-the-second-call"), _same(first_map, _mapping_of(r)), detail=lambda: (info(), first_map, _mapping_of(r)))
        prove(env, F("instance-tables-unchanged"), inst == inst_before, detail=lambda: dict(before=inst_before, after=inst))
        frame.check("after-" + SECOND, info)
        results.append(r2)
    scribble_on(results)
    frame.check("after-editing-the-result", info, only=("graph", "hints"))


def _check_optimal(env, mod, meth, sit24, r, cg, comps, names, agents, fp, cap, memory, comm, info):
    """C24: brute-force optimum under the method's own hard rules and cost"""
    from pydcop.distribution.objects import Distribution
    valid = valid_distributions(meth, comps, names, agents, fp, cap)

    def cost_of(m):
        d = Distribution({a: [c for c in comps if m[c] == a] for a in names})
        return mod.distribution_cost(d, cg, agents, memory, comm)[0]

    L = lambda what, extra=None: "%s.C24.%s[%s]" % (meth, what, ",".join(([extra] if extra else []) + sit24))  # noqa
    if isinstance(r, Raised):
        env.cover("declared-impossible")
        if valid:
            best = min(valid, key=cost_of)
            prove(env, L("returns-a-distribution-when-a-valid-one-exists", type(r.exc).__name__), False,
                      detail=lambda: dict(info(), raised=repr(r), a_valid_distribution=best, n_valid=len(valid)))
        else:
            prove(env, L("declares-impossible-only-when-no-valid-distribution-exists"), True)
        return
    if not isinstance(r, Distribution):
        return  # C23's business
    env.cover("returned")
    got = {c: r.agent_for(c) for c in comps if r.has_computation(c)}
    member = got in valid
    prove(env, L("result-satisfies-the-methods-hard-rules"), member,
              detail=lambda: dict(info(), returned=r.mapping(), n_valid=len(valid)))
    if not valid or len(got) != len(comps):
        return
    returned = _mapping_of(r)
    c_got = mod.distribution_cost(r, cg, agents, memory, comm)[0]
    # frame: costing a distribution does not change it (the cost of the same distribution, asked again, is the same)
    prove(env, "%s.C24.frame.distribution_cost-leaves-the-distribution-unchanged" % meth, _same(returned, _mapping_of(r)),
          detail=lambda: dict(info(), before=returned, after=_mapping_of(r)))
    best = min(valid, key=cost_of)
    c_best = cost_of(best)
    prove(env, L("cost-is-minimal-among-valid-distributions"), c_got <= c_best + 1e-9,
              detail=lambda: dict(info(), returned=r.mapping(), cost=c_got, cheaper=best, cheaper_cost=c_best))
    c_again = mod.distribution_cost(r, cg, agents, memory, comm)[0]
    prove(env, "%s.C24.frame.distribution_cost-of-the-same-distribution-is-the-same-when-asked-again" % meth,
          abs(c_again - c_got) <= 1e-9, detail=lambda: dict(info(), returned=r.mapping(), cost=c_got, cost_again=c_again))


_STYLES = {
    "any": {},
    "pos": dict(hosting=["default_pos", "specific_pos"]),
    "zero": dict(hosting=["some_zero"]),
    "room": dict(cap=["ample", "mixed"], hosting=["specific_pos", "some_zero"]),
    "asym": dict(cap=["ample", "tight", "mixed"], hosting=["default_pos", "specific_pos"], routes=["asym"], loads=[1, 2, 3]),
}


def _shapes_ilp(tier, prop="C23"):
    S = []
    big = tier == "thorough"

    def add(method, dcop, graph, agents, n, style="any", **kw):
        S.append(dict(method=method, dcop=dcop, graph=graph, agents=agents, n=n * (6 if big else 1), style=_STYLES[style],
                      style_name=style, prop=prop, **kw))

    HG, FG, PT, OG = GRAPHS
    if prop == "C24":
        # <= 5 computations x <= 3 agents
        add("oilp_cgdp", "pair", HG, 2, 10, "pos")
        add("oilp_cgdp", "chain3", HG, 2, 10, "pos")
        add("oilp_cgdp", "chain3", HG, 3, 10, "pos")
        add("oilp_cgdp", "tri", HG, 3, 10, "room")
        add("oilp_cgdp", "tern", HG, 3, 8, "zero")
        add("oilp_cgdp", "chain3", HG, 3, 10, "zero")
        add("oilp_cgdp", "chain4", HG, 2, 8, "any")
        add("oilp_cgdp", "pair", FG, 3, 8, "room")
        add("oilp_cgdp", "chain3", FG, 2, 8, "pos")
        add("oilp_cgdp", "chain3", PT, 3, 8, "pos")
        add("oilp_cgdp", "chain3", OG, 2, 8, "pos")
        add("oilp_cgdp", "dup", HG, 2, 6, "pos")
        add("oilp_cgdp", "iso", HG, 3, 6, "any")
        add("oilp_cgdp", "single", HG, 1, 3, "any")
        add("oilp_cgdp", "pair", HG, 2, 8, "asym")
        add("oilp_cgdp", "chain3", HG, 3, 8, "asym")
        add("oilp_cgdp", "pair", HG, 2, 1, "zero", special="pinned-on-second-agent")
        add("oilp_cgdp", "chain3", PT, 3, 1, "pos", special="doubled-links")
        add("ilp_fgdp", "pair", FG, 2, 10, "pos")
        add("ilp_fgdp", "pair", FG, 3, 10, "pos")
        add("ilp_fgdp", "chain3", FG, 2, 10, "pos")
        add("ilp_fgdp", "chain3", FG, 3, 10, "room")
        add("ilp_fgdp", "chain3", FG, 3, 10, "zero")
        add("ilp_fgdp", "tern", FG, 3, 8, "room")
        add("ilp_fgdp", "single", FG, 2, 6, "any")
        add("ilp_fgdp", "single", FG, 1, 3, "any")
        add("ilp_fgdp", "dup", FG, 2, 8, "zero")
        if big:
            add("oilp_cgdp", "chain5", HG, 3, 10, "any")
            add("oilp_cgdp", "star4", PT, 3, 10, "room")
            add("oilp_cgdp", "tern_pair", HG, 3, 10, "room")
            add("oilp_cgdp", "chain4", OG, 3, 10, "zero")
            add("ilp_fgdp", "chain3u", FG, 3, 10, "any")
            add("ilp_fgdp", "dup", FG, 3, 10, "room")
        return _chunk(S, 3, prop=prop)
    for meth in ("oilp_cgdp", "ilp_compref"):
        add(meth, "pair", HG, 2, 8, "any")
        add(meth, "chain3", HG, 3, 8, "pos")
        add(meth, "chain3", HG, 2, 8, "zero")
        add(meth, "pair", FG, 2, 6, "any")
        add(meth, "pair", PT, 2, 4, "pos")
        add(meth, "chain3", OG, 2, 4, "pos")
        add(meth, "dup", HG, 2, 4, "pos")
        add(meth, "tern", HG, 4, 6, "any")
        add(meth, "iso", HG, 1, 4, "any", agents_as="values")
        add(meth, "pair", HG, 2, 4, "pos", hints="must1")
        add(meth, "pair", HG, 2, 2, "pos", via="command-call")
    add("ilp_fgdp", "pair", FG, 2, 8, "any")
    add("ilp_fgdp", "pair", FG, 3, 8, "pos")
    add("ilp_fgdp", "chain3", FG, 3, 8, "zero")
    add("ilp_fgdp", "single", FG, 1, 4, "any")
    add("ilp_fgdp", "single", FG, 4, 4, "pos")
    add("ilp_fgdp", "dup", FG, 2, 6, "room", agents_as="values")
    add("ilp_fgdp", "pair", FG, 2, 4, "pos", hints="must1")
    add("ilp_fgdp", "pair", FG, 2, 2, "pos", via="command-call")
    if big:
        for meth in ("oilp_cgdp", "ilp_compref"):
            add(meth, "star4", HG, 4, 6, "any")
            add(meth, "chain3", PT, 3, 6, "any")
            add(meth, "tern_pair", FG, 3, 4, "room")
        add("ilp_fgdp", "chain3u", FG, 4, 6, "any")
        add("ilp_fgdp", "tern", FG, 3, 6, "zero")
    return _chunk(S, 4, prop=prop)


Contract(
    "distribution.ilp", ["C23", "C24"],
    ["pydcop.distribution.oilp_cgdp:distribute", "pydcop.distribution.oilp_cgdp:ilp_cgdp", "pydcop.distribution.oilp_cgdp:_objective",
     "pydcop.distribution.oilp_cgdp:distribution_cost", "pydcop.distribution.ilp_fgdp:distribute",
     "pydcop.distribution.ilp_fgdp:factor_graph_lp_model", "pydcop.distribution.ilp_fgdp:_objective_function",
     "pydcop.distribution.ilp_fgdp:distribution_cost", "pydcop.distribution.ilp_compref:distribute",
     "pydcop.distribution.ilp_compref:lp_model", "pydcop.distribution.objects:Distribution.host_on_agent"],
    h_ilp, _shapes_ilp, mode="E", must_cover=["returned"],
    trusted=["MILP solver: GLPK_CMD (glpsol not installed) rebound in the module under check to PuLP's bundled CBC; "
             "the solver is assumed to return an optimal 0/1 point of the model it is given, or 'infeasible'"],
    assumptions=["ILP methods: numeric instances are drawn by a seeded generator from small grids (footprints 0-3, tight/ample/short "
                 "capacities, hosting costs incl. default 0 and explicit zeros, routes 0-9 (symmetric; asymmetric per direction in the 'asym' families), loads 0-3), not all reals",
                 "communication loads symmetric (as maxsum's); ilp_fgdp only on factor graphs (its documented domain)",
                 "C24 oracle: brute-force enumeration of all agent^computation mappings under the method's own hard rules and distribution_cost",
                 "second call on the same inputs (frame): every third instance of a shape and the special instances (a second MILP solve)"],
    budget=dict(all_failures=True, quick=dict(max_paths=400, timeout_s=200), thorough=dict(max_paths=4000, timeout_s=2000)),
    desc="oilp_cgdp, ilp_compref, ilp_fgdp on concrete grid instances: valid mapping or impossibility (C23); "
         "oilp_cgdp, ilp_fgdp cost-minimal against brute force (C24)",
)


# ------------------------------------------------------------------ C23 through the distribute command

def _yaml_of(spec, names, inst, hints_kind, comps):
    s = POOL[spec]
    L = ["name: t", "objective: min", "domains:", "  d: {values: [10, 0, 5]}", "variables:"]
    for v in s["vars"]:
        L.append("  %s: {domain: d}" % v)
    L.append("constraints:")
    for c, scope in s["cons"]:
        L.append("  %s: {type: intention, function: %s}" % (c, " + ".join(scope)))
    L.append("agents:")
    for a in names:
        L.append("  %s: {capacity: %s}" % (a, inst["cap"][a]))
    if inst["hosting_kind"] != "default0":
        L.append("hosting_costs:")
        for a in names:
            comp = ", ".join("%s: %s" % kv for kv in inst["hosting"][a].items())
            L.append("  %s: {default: %s, computations: {%s}}" % (a, inst["default_hosting"][a], comp))
    L.append("routes:")
    L.append("  default: %s" % inst["default_route"])
    by = {}
    for k, v in inst["routes"].items():
        x, y = k.split("-")
        by.setdefault(x, {})[y] = v
    for x, d in by.items():
        L.append("  %s: {%s}" % (x, ", ".join("%s: %s" % kv for kv in d.items())))
    mh = {}
    if hints_kind == "must1" and comps:
        mh = {names[-1]: [comps[0]]}
        L.append("distribution_hints:")
        L.append("  must_host: {%s: [%s]}" % (names[-1], comps[0]))
    return "\n".join(L) + "\n", mh


_ALGO_GRAPH = dict(dsa="constraints_hypergraph", mgm="constraints_hypergraph", maxsum="factor_graph", amaxsum="factor_graph",
                   dpop="pseudotree", syncbb="ordered_graph")


def h_command(env):
    """the real ``pydcop distribute`` back end (commands.distribute.run_cmd) on a yaml file"""
    import argparse
    import yaml
    p = _params(env)
    meth = p["method"]
    algo = p.get("algo")
    graph = p.get("graph") or _ALGO_GRAPH[algo]
    names = AGENT_NAMES[:p["agents"]]
    D = env.call(importlib.import_module, "pydcop.commands.distribute")
    if isinstance(D, Raised):
        prove(env, "command.C23.module-imports", False, detail=lambda: D.tb)
        return
    # computations and footprints as the command will see them (same builders, same algorithm module)
    gmod = importlib.import_module("pydcop.computations_graph." + graph)
    cg0 = env.call(gmod.build_computation_graph, build_dcop(p["dcop"]))
    if isinstance(cg0, Raised):
        env.assume(False)
    comps = [n.name for n in cg0.nodes]
    k = env.choice("instance", list(range(p["n"])))
    key = "cmd/%s/%s/%s/%s/%d/%d/%d" % (meth, p["dcop"], graph, algo, p["agents"], p.get("_seed", 0), k)
    rng = _pyrandom.Random(key)
    inst = gen_instance(rng, comps, names, p.get("style", {}))
    if algo and meth in CAPACITY_AWARE:
        from pydcop.algorithms import load_algorithm_module
        amod = load_algorithm_module(algo)
        fps = {}
        for n in cg0.nodes:
            f = env.call(amod.computation_memory, n)
            if isinstance(f, Raised):
                env.assume(False)
            fps[n.name] = f
        # capacities relative to the algorithm's own footprints
        total = sum(fps.values())
        scale = rng.choice([0, 0.3, 0.5, 0.6, 1, 2])
        inst["cap"] = {a: int(total * scale) + rng.choice([0, 1, 3]) for a in names}
        inst["fp"] = fps
    text, must_host = _yaml_of(p["dcop"], names, inst, p.get("hints", "none"), comps)
    tmp = tempfile.mkdtemp(prefix="pvc_distcmd_")
    path = os.path.join(tmp, "dcop.yaml")
    with open(path, "w") as f:
        f.write(text)
    for m in ("ilp_fgdp", "ilp_compref", "oilp_cgdp"):
        if meth == m:
            mm = env.call(importlib.import_module, "pydcop.distribution." + m)
            if not isinstance(mm, Raised):
                mm.GLPK_CMD = _cbc_in_place_of_glpk
    _pyrandom.seed(key)  # gh_cgdp / heur_comhost / adhoc draw from the global generator: make the replay repeat it
    args = argparse.Namespace(dcop_files=[path], distribution=meth, cost=None, algo=algo,
                              graph=p.get("graph"), output=None)
    out = io.StringIO()

    def run():
        old, cwd = sys.stdout, os.getcwd()
        sys.stdout = out
        os.chdir(tmp)
        try:
            D.run_cmd(args)
        except SystemExit as e:
            return e.code
        finally:
            sys.stdout = old
            os.chdir(cwd)
        return "returned-without-exit"

    # frame: what the command is handed is the argparse namespace and the yaml file(s) it names.  (No second run here:
    # the command line runs once per process, and every path of a job already runs in the same process as the previous ones.)
    args_before = {kk: (list(vv) if isinstance(vv, list) else vv) for kk, vv in vars(args).items()}
    r = env.call(run)
    args_after = {kk: (list(vv) if isinstance(vv, list) else vv) for kk, vv in vars(args).items()}
    with open(path) as f:
        text_after = f.read()
    import shutil
    shutil.rmtree(tmp, ignore_errors=True)
    prove(env, "command.C23.frame.arguments-namespace-unchanged[%s]" % meth, args_after == args_before,
          detail=lambda: dict(before=args_before, after=args_after))
    prove(env, "command.C23.frame.dcop-file-unchanged[%s]" % meth, text_after == text, detail=lambda: dict(before=text, after=text_after))
    zero_possible = inst["hosting_kind"] in ("default0", "some_zero", "zero_clash")
    sit = [meth, "must-host-hints" if must_host else "no-hints"]
    if meth in ("gh_cgdp", "ilp_fgdp", "oilp_cgdp"):
        sit.append("zero-hosting-cost-present" if zero_possible else "all-hosting-costs>0")
    L = lambda what, extra=None: "command.C23.%s[%s]" % (what, ",".join(([extra] if extra else []) + sit))  # noqa
    info = lambda: dict(method=meth, algo=algo, graph=graph, dcop=p["dcop"], yaml=text, stdout=out.getvalue()[-600:])  # noqa
    env.cover("ran")
    if isinstance(r, Raised):
        prove(env, L("command-ends-with-a-result-not-a-traceback", type(r.exc).__name__), False,
                  detail=lambda: dict(info(), raised=repr(r), tb=r.tb))
        return
    res = env.call(yaml.safe_load, out.getvalue())
    ok = not isinstance(res, Raised) and isinstance(res, dict) and res.get("status") in ("SUCCESS", "FAIL", "TIMEOUT")
    prove(env, L("prints-a-result-with-a-status"), ok and r == 0, detail=lambda: dict(info(), exit=r))
    if not ok or res["status"] != "SUCCESS":
        env.cover("declared-impossible")
        return
    env.cover("returned")
    mapping = res.get("distribution") or {}
    hosted = [c for cs in mapping.values() for c in cs]
    det = lambda: dict(info(), mapping=mapping)  # noqa
    prove(env, L("every-computation-hosted-exactly-once"), sorted(hosted) == sorted(comps), detail=det)
    prove(env, L("hosts-are-declared-agents"), all(a in names for a, cs in mapping.items() if cs), detail=det)
    for a, cs in must_host.items():
        for c in cs:
            prove(env, L("must-host-hints-honoured"), c in (mapping.get(a) or []), detail=det)
    if meth in CAPACITY_AWARE and algo:
        for a in names:
            tot = sum(inst["fp"][c] for c in (mapping.get(a) or []) if c in inst["fp"])
            prove(env, L("hosted-footprint-within-capacity"), tot <= inst["cap"][a],
                      detail=lambda: dict(info(), mapping=mapping, agent=a, footprints=inst["fp"], capacities=inst["cap"]))


def _shapes_cmd(tier, prop=None):
    S = []
    big = tier == "thorough"

    def add(method, dcop, agents, n, algo=None, graph=None, style="any", **kw):
        S.append(dict(method=method, dcop=dcop, agents=agents, n=n * (4 if big else 1), algo=algo, graph=graph,
                      style=_STYLES[style], **kw))

    add("oneagent", "chain3", 3, 2, graph="constraints_hypergraph")
    add("oneagent", "pair", 2, 2, graph="factor_graph")
    add("oneagent", "pair", 3, 2, algo="dpop")
    add("oneagent", "pair", 3, 2, algo="syncbb", hints="must1")
    add("adhoc", "chain3", 2, 6, algo="dsa")
    add("adhoc", "pair", 2, 2, graph="constraints_hypergraph")
    add("heur_comhost", "chain3", 2, 6, algo="dsa", style="pos")
    add("gh_cgdp", "chain3", 2, 6, algo="dsa", style="pos")
    add("gh_cgdp", "pair", 2, 6, algo="maxsum", style="zero")
    add("gh_cgdp", "chain3", 2, 4, algo="syncbb", style="pos", hints="must1")
    add("oilp_cgdp", "pair", 2, 6, algo="dsa", style="pos")
    add("oilp_cgdp", "chain3", 3, 6, algo="maxsum", style="any")
    add("ilp_compref", "pair", 2, 4, algo="dsa", style="pos")
    add("ilp_fgdp", "pair", 2, 6, algo="maxsum", style="pos")
    add("ilp_fgdp", "pair", 2, 2, graph="factor_graph", style="pos")
    if big:
        add("gh_cgdp", "star4", 3, 6, algo="mgm", style="any")
        add("oilp_cgdp", "chain3", 3, 6, algo="mgm", style="any")
        add("oilp_cgdp", "chain3", 2, 6, algo="syncbb", style="pos")
        add("ilp_fgdp", "chain3", 3, 6, algo="amaxsum", style="any")
        add("oneagent", "star4", 4, 4, algo="mgm")
    return _chunk(S, 3)


Contract(
    "distribution.command", ["C23"],
    ["pydcop.commands.distribute:run_cmd", "pydcop.commands.distribute:load_distribution_module",
     "pydcop.commands.distribute:load_graph_module"],
    h_command, _shapes_cmd, mode="E", must_cover=["ran"],
    trusted=["MILP solver: GLPK_CMD rebound to PuLP's bundled CBC (see distribution.ilp)", "yaml loader and graph builders (C14, C16, C17)"],
    assumptions=["command: run_cmd is called in-process with the argparse namespace the CLI builds; --algo is given for the methods "
                 "that need footprints (documented requirement); footprints are the algorithm module's own computation_memory"],
    budget=dict(all_failures=True, quick=dict(max_paths=200, timeout_s=200), thorough=dict(max_paths=2000, timeout_s=1500)),
    desc="pydcop distribute back end on yaml files: prints SUCCESS with a valid mapping, or FAIL / TIMEOUT; never a traceback",
)


# ------------------------------------------------------------------ C23, the SECP-specific methods (on SECP-shaped DCOPs)

# the shape ``pydcop generate secp`` produces: lights l<i> with a unary cost factor c_l<i>, one agent al<i> per light
# (hosting cost 0 for the light and its cost factor, default 100), models m<j> with a factor c_m<j> over the model
# variable and >= 2 lights, rules r_<k> over lights and/or models
SECP_POOL = {
    "secp1": dict(lights=["l1", "l0"], models={"m0": ["l0", "l1"]}, rules={"r_0": ["l1", "m0"]}),
    "secp2": dict(lights=["l0", "l2", "l1"], models={"m0": ["l0", "l1"], "m1": ["l2", "l1"]},
                  rules={"r_0": ["m0"], "r_1": ["l2", "m1"]}),
    "secp3": dict(lights=["l0", "l1"], models={"m0": ["l1", "l0"]}, rules={"r_0": ["l0"], "r_1": ["m0", "l1", "l0"]}),
}


def build_secp(spec):
    from pydcop.dcop.dcop import DCOP
    from pydcop.dcop.objects import Variable, Domain
    from pydcop.dcop.relations import constraint_from_str
    s = SECP_POOL[spec]
    dom = Domain("light", "light", range(0, 3))
    vs = {n: Variable(n, dom) for n in list(s["lights"]) + list(s["models"])}
    dcop = DCOP("secp", "min")
    for v in vs.values():
        dcop.add_variable(v)
    allv = list(vs.values())
    for l in s["lights"]:
        dcop.add_constraint(constraint_from_str("c_" + l, "%s * 0.5" % l, allv))
    for m, ls in s["models"].items():
        dcop.add_constraint(constraint_from_str("c_" + m, "0 if %s == %s else 100" % (m, " + ".join(ls)), allv))
    for r, scope in s["rules"].items():
        dcop.add_constraint(constraint_from_str(r, "10 * (%s)" % " + ".join("abs(%s - 1)" % v for v in scope), allv))
    return dcop


def h_secp(env):
    from pydcop.dcop.objects import AgentDef
    p = _params(env)
    meth = p["method"]
    mod = env.call(importlib.import_module, "pydcop.distribution." + meth)
    if isinstance(mod, Raised):
        prove(env, "%s.C23.module-imports" % meth, False, detail=lambda: mod.tb)
        return
    if hasattr(mod, "GLPK_CMD"):
        mod.GLPK_CMD = _cbc_in_place_of_glpk
    graph = "factor_graph" if meth.endswith("fgdp") else "constraints_hypergraph"
    gmod = importlib.import_module("pydcop.computations_graph." + graph)
    cg = env.call(gmod.build_computation_graph, build_secp(p["secp"]))
    if isinstance(cg, Raised):
        env.assume(False)
    comps = [n.name for n in cg.nodes]
    lights = SECP_POOL[p["secp"]]["lights"]
    names = ["a" + l for l in lights]
    k = env.choice("instance", list(range(p["n"])))
    key = "secp/%s/%s/%d/%d" % (meth, p["secp"], p.get("_seed", 0), k)
    rng = _pyrandom.Random(key)
    fp = {c: rng.choice([1, 1, 2, 3]) for c in comps}
    total = sum(fp.values())
    capkind = rng.choice(["ample", "tight", "tight", "mixed", "short"])
    if capkind == "ample":
        cap = {a: total for a in names}
    elif capkind == "tight":
        cap = {a: -(-total // len(names)) + rng.choice([0, 1, 2]) for a in names}
    elif capkind == "mixed":
        cap = {a: rng.randint(1, total) for a in names}
    else:
        cap = {a: rng.randint(0, 3) for a in names}
    loads = {}

    def load(a, b):
        x, y = sorted((a, b))
        if (x, y) not in loads:
            loads[(x, y)] = _pyrandom.Random("%s/%s/%s" % (key, x, y)).choice([1, 2, 3])
        return loads[(x, y)]

    agents = []
    for l in lights:
        hc = {l: 0}
        if "c_" + l in comps:
            hc["c_" + l] = 0
        agents.append(AgentDef("a" + l, capacity=cap["a" + l], default_hosting_cost=100, hosting_costs=hc))

    def memory(node):
        return fp[node.name]

    def comm(node, target):
        return load(node.name, target)

    kw = dict(hints=None, computation_memory=memory, communication_load=comm)
    if p.get("via") == "command-call":
        kw["timeout"] = 3600
    frame = Frame(env, meth + ".C23", cg, agents, names, None, {}, memory, comm, dict(footprints=fp, capacities=cap))
    kw_before = dict(kw)
    r = env.call(lambda: mod.distribute(cg, agents, **kw))
    sit = ["secp-shaped-dcop"] + (["called-as-the-distribute-command-does"] if p.get("via") == "command-call" else [])
    info = lambda: dict(method=meth, secp=p["secp"], graph=graph, footprints=fp, capacities=cap, capkind=capkind)  # noqa
    check_valid(env, meth, sit, r, cg, names, {}, fp, cap, True, info)
    # ---- frame: the inputs are read, not written; the same inputs serve a second call (every third instance for the
    # MILP methods, a second solve; every instance for the greedy ones)
    prove(env, "%s.C23.frame.keyword-arguments-unchanged" % meth, _same(kw_before, kw), detail=lambda: (info(), kw_before, kw))
    if not frame.check("after-the-call", info):
        return
    first_map = _mapping_of(r)
    results = [r]
    if k % 3 == 0 or not meth.startswith("oilp"):
        r2 = env.call(lambda: mod.distribute(cg, agents, **kw))
        check_valid(env, meth, sit + [SECOND], r2, cg, names, {}, fp, cap, True, info, first=first_map)
        prove(env, "%s.C23.frame.first-result-unchanged-by-the-second-call" % meth, _same(first_map, _mapping_of(r)),
              detail=lambda: (info(), first_map, _mapping_of(r)))
        frame.check("after-" + SECOND, info)
        results.append(r2)
    scribble_on(results)
    frame.check("after-editing-the-result", info, only=("graph", "hints"))


def _shapes_secp(tier, prop=None):
    big = tier == "thorough"
    S = []
    for meth in ("gh_secp_cgdp", "gh_secp_fgdp", "oilp_secp_cgdp", "oilp_secp_fgdp"):
        ilp = meth.startswith("oilp")
        n = (4 if ilp else 10) * (5 if big else 1)
        S.append(dict(method=meth, secp="secp1", graph=None, agents=2, n=n))
        S.append(dict(method=meth, secp="secp2", graph=None, agents=3, n=n))
        S.append(dict(method=meth, secp="secp3", graph=None, agents=2, n=n, via="command-call"))
    return _chunk(S, 3)


Contract(
    "distribution.secp", ["C23"],
    ["pydcop.distribution.gh_secp_cgdp:distribute", "pydcop.distribution.gh_secp_cgdp:find_candidates",
     "pydcop.distribution.gh_secp_fgdp:distribute", "pydcop.distribution.oilp_secp_cgdp:distribute",
     "pydcop.distribution.oilp_secp_cgdp:cg_secp_ilp", "pydcop.distribution.oilp_secp_fgdp:distribute",
     "pydcop.distribution.oilp_secp_fgdp:fg_secp_ilp"],
    h_secp, _shapes_secp, mode="E", must_cover=["returned"],
    trusted=["MILP solver: GLPK_CMD rebound to PuLP's bundled CBC (see distribution.ilp)"],
    assumptions=["SECP methods: inputs have the structure `pydcop generate secp` produces (documented requirement of these methods): "
                 "one agent per light with hosting cost 0 for the light and its cost factor, models named c_<model variable>; "
                 "numeric parameters from a seeded generator; no hints"],
    budget=dict(all_failures=True, quick=dict(max_paths=200, timeout_s=200), thorough=dict(max_paths=2000, timeout_s=1500)),
    desc="gh_secp_cgdp, gh_secp_fgdp, oilp_secp_cgdp, oilp_secp_fgdp on SECP-shaped DCOPs: valid mapping within capacity or impossibility",
)
