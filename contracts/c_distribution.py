"""Contracts on pydcop.distribution.* and the ``pydcop distribute`` command (C23, C24).

C23  every distribution method either returns a *valid* mapping (every computation of
     the graph hosted exactly once, on a declared agent, must-host hints honoured,
     capacities respected by the capacity-aware methods) or signals
     ImpossibleDistributionException / TimeoutError; nothing else.
C24  oilp_cgdp and ilp_fgdp return a distribution that is cost-minimal (their own
     ``distribution_cost``) among all distributions satisfying their own hard rules;
     oracle = brute-force enumeration.

Heuristic methods (oneagent, adhoc, heur_comhost, gh_cgdp) run on symbolic footprints,
capacities, hosting costs and routes (B-mode).  The ILP methods need plain numbers
(PuLP): instances are drawn from small grids by a seeded generator (E-mode: the
instance index is an enumerated choice).  ``GLPK_CMD`` is rebound in the module under
check to PuLP's bundled CBC (glpsol is not installed); the MILP solver is an external
under assumed contract."""
import importlib
import io
import itertools
import os
import random as _pyrandom
import sys
import tempfile

from pvc.contract import Contract
from pvc.explore import Raised
from pvc.sym import And, Or, Not, Implies, eq, le, is_sym, ssum

# ------------------------------------------------------------------ fixtures

# names are neither sorted nor aligned with their position
POOL = {
    "none": dict(vars=[], cons=[]),
    "single": dict(vars=["w"], cons=[("cu", ["w"])]),
    "lonely": dict(vars=["w"], cons=[]),
    "pair": dict(vars=["y", "x"], cons=[("cb", ["y", "x"])]),
    "dup": dict(vars=["y", "x"], cons=[("cb", ["y", "x"]), ("cc", ["x", "y"])]),
    "iso": dict(vars=["y", "w", "x"], cons=[("cb", ["x", "y"])]),
    "chain3": dict(vars=["z", "x", "y"], cons=[("cb", ["y", "x"]), ("ca", ["z", "y"])]),
    "tern": dict(vars=["x", "z", "y"], cons=[("ct", ["z", "x", "y"])]),
    "tri": dict(vars=["x", "z", "y"], cons=[("cb", ["y", "x"]), ("ca", ["z", "y"]), ("cd", ["x", "z"])]),
    "chain3u": dict(vars=["z", "x", "y"], cons=[("cb", ["y", "x"]), ("ca", ["z", "y"]), ("cu", ["x"])]),
    "star4": dict(vars=["v", "z", "x", "y"], cons=[("cb", ["y", "x"]), ("ca", ["z", "y"]), ("ce", ["y", "v"])]),
    "chain4": dict(vars=["v", "z", "x", "y"], cons=[("cb", ["y", "x"]), ("ca", ["z", "y"]), ("ce", ["z", "v"])]),
    "chain5": dict(vars=["v", "z", "x", "y", "u"],
                   cons=[("cb", ["y", "x"]), ("ca", ["z", "y"]), ("ce", ["z", "v"]), ("cf", ["v", "u"])]),
    "tern_pair": dict(vars=["v", "z", "x", "y"], cons=[("ct", ["z", "x", "y"]), ("ce", ["y", "v"])]),
}
AGENT_NAMES = ["a2", "a1", "a3", "a0"]
GRAPHS = ["constraints_hypergraph", "factor_graph", "pseudotree", "ordered_graph"]
CAPACITY_AWARE = {"adhoc", "heur_comhost", "gh_cgdp", "ilp_fgdp", "ilp_compref", "oilp_cgdp"}


def build_dcop(spec):
    from pydcop.dcop.dcop import DCOP
    from pydcop.dcop.objects import Variable, Domain
    from pydcop.dcop.relations import constraint_from_str
    s = POOL[spec]
    dom = Domain("d", "", [10, 0, 5])
    vs = {n: Variable(n, dom) for n in s["vars"]}
    dcop = DCOP("t", "min")
    for n in s["vars"]:
        dcop.add_variable(vs[n])
    for cname, scope in s["cons"]:
        dcop.add_constraint(constraint_from_str(cname, " + ".join(scope), [vs[n] for n in scope]))
    return dcop


def build_graph(env, spec, graph):
    """the real builder of the graph model; a builder failure is another property's
    business (C16/C17): the path is dropped"""
    mod = importlib.import_module("pydcop.computations_graph." + graph)
    dcop = build_dcop(spec)
    cg = env.call(mod.build_computation_graph, dcop)
    if isinstance(cg, Raised):
        env.assume(False)
    return dcop, cg


class Rnd:
    """stands for the ``random`` module (and the names imported from it) inside the module
    under check: a draw is an input of the run (symbolic real / explored choice)"""

    def __init__(self, env, max_perms=6):
        self.env = env
        self.n = 0
        self.n_shuffle = 0
        self.max_perms = max_perms

    def _name(self, what):
        self.n += 1
        return "rnd_%s%d" % (what, self.n)

    def random(self):
        x = self.env.real(self._name("random"), 0, 1)
        self.env.assume(x < 1)
        return x

    def choice(self, seq):
        seq = list(seq)
        if not seq:
            raise IndexError("Cannot choose from an empty sequence")
        return self.env.choice(self._name("choice"), seq)

    def shuffle(self, lst):
        n = len(lst)
        perms = list(itertools.permutations(range(n)))
        if len(perms) > self.max_perms:
            # identity, reverse, rotations, then a fixed sample: a subset of the orders
            keep = [tuple(range(n)), tuple(reversed(range(n)))]
            keep += [tuple((i + k) % n for i in range(n)) for k in range(1, n)]
            rng = _pyrandom.Random(n)
            while len(keep) < self.max_perms:
                keep.append(tuple(rng.sample(range(n), n)))
            perms = list(dict.fromkeys(keep))[: self.max_perms]
        # later draws (retries) explore fewer orders
        if self.n_shuffle >= 1:
            perms = perms[:2] if len(perms) > 2 else perms
        self.n_shuffle += 1
        perm = self.env.choice(self._name("shuffle"), perms)
        lst[:] = [lst[i] for i in perm]


def make_hints(kind, cg, agent_names):
    """DistributionHints over declared agents and computations of the graph; every
    computation named at most once in must_host.  Returns (hints, must_host dict)"""
    from pydcop.distribution.objects import DistributionHints
    comps = [n.name for n in cg.nodes]
    if kind == "none" or not comps:
        return None, {}
    if kind == "empty":
        return DistributionHints(), {}
    if kind == "must1":
        mh = {agent_names[-1]: [comps[0]]}
        return DistributionHints(must_host=mh), mh
    if kind == "must2":
        mh = {agent_names[-1]: [comps[0]]}
        if len(comps) > 1:
            mh.setdefault(agent_names[0], []).append(comps[-1])
        return DistributionHints(must_host=mh), mh
    if kind == "must_all":
        mh = {agent_names[0]: list(comps)}
        return DistributionHints(must_host=mh), mh
    if kind == "host_with":
        if len(comps) < 2:
            return DistributionHints(), {}
        return DistributionHints(host_with={comps[0]: [comps[1]]}), {}
    if kind == "secp":
        # the shape the SECP models use: a factor hinted to live with one variable of its scope
        facs = [n for n in cg.nodes if n.type == "FactorComputation"]
        if not facs:
            return DistributionHints(host_with={comps[0]: [comps[-1]]}), {}
        f = facs[0]
        v = [d.name for d in f.factor.dimensions][0]
        return DistributionHints(host_with={f.name: [v]}), {}
    if kind == "secp_must":
        facs = [n for n in cg.nodes if n.type == "FactorComputation"]
        if not facs:
            return None, {}
        f = facs[0]
        v = [d.name for d in f.factor.dimensions][0]
        mh = {agent_names[-1]: [v]}
        return DistributionHints(must_host=mh, host_with={f.name: [v]}), mh
    raise ValueError(kind)


def pair_load(cg):
    """concrete, symmetric communication load per pair of computation names"""
    names = [n.name for n in cg.nodes]

    def load(a, b):
        i, j = sorted((names.index(a), names.index(b)))
        return 1 + (2 * i + j) % 3
    return load


# ------------------------------------------------------------------ the C23 oracle

def check_valid(env, tag, meth, r, cg, agent_names, must_host, fp, cap, capacity_aware, info):
    """``r`` = result of distribute (or Raised).  States the C23 obligations."""
    from pydcop.distribution.objects import Distribution, ImpossibleDistributionException
    if isinstance(r, Raised):
        ok = isinstance(r.exc, (ImpossibleDistributionException, TimeoutError))
        env.cover("declared-impossible" if ok else "other-error")
        env.prove("%s.%s.raises-only-impossible-or-timeout[%s]" % (meth, tag, type(r.exc).__name__), ok,
                  detail=lambda: dict(info(), raised=repr(r), tb=r.tb))
        return None
    env.cover("returned")
    if not env.prove("%s.%s.returns-a-Distribution" % (meth, tag), isinstance(r, Distribution), detail=lambda: (info(), r)):
        return None
    mapping = {a: list(cs) for a, cs in r.mapping().items()}
    comps = [n.name for n in cg.nodes]
    hosted = [c for cs in mapping.values() for c in cs]
    det = lambda: dict(info(), mapping=mapping)  # noqa
    env.prove("%s.%s.every-computation-hosted" % (meth, tag), all(c in hosted for c in comps), detail=det)
    env.prove("%s.%s.no-computation-hosted-twice" % (meth, tag), len(hosted) == len(set(hosted)), detail=det)
    env.prove("%s.%s.only-computations-of-the-graph-hosted" % (meth, tag), all(c in comps for c in hosted), detail=det)
    env.prove("%s.%s.hosts-are-declared-agents" % (meth, tag),
              all(a in agent_names for a, cs in mapping.items() if cs), detail=det)
    for a, cs in must_host.items():
        for c in cs:
            env.prove("%s.%s.must-host-hints-honoured" % (meth, tag), c in mapping.get(a, []),
                      detail=lambda: dict(info(), mapping=mapping, must_host=must_host))
    if capacity_aware:
        for a in agent_names:
            mine = [c for c in mapping.get(a, []) if c in comps]
            env.prove("%s.%s.hosted-footprint-within-capacity" % (meth, tag), le(ssum([fp[c] for c in mine]), cap[a]),
                      detail=lambda: dict(info(), mapping=mapping, agent=a, footprints=fp, capacities=cap))
    return mapping


# ------------------------------------------------------------------ C23, heuristic methods (symbolic numbers)

def h_heuristics(env):
    from pydcop.dcop.objects import AgentDef
    p = env.params
    meth = p["method"]
    mod = env.call(importlib.import_module, "pydcop.distribution." + meth)
    if isinstance(mod, Raised):
        env.prove("%s.C23.module-imports" % meth, False, detail=lambda: mod.tb)
        return
    dcop, cg = build_graph(env, p["dcop"], p["graph"])
    comps = [n.name for n in cg.nodes]
    m = p["agents"]
    names = AGENT_NAMES[:m]
    # ---- numeric inputs
    fp = {c: env.real("fp_%s" % c, 0) for c in comps}
    cap = {a: env.real("cap_%s" % a, 0) for a in names}
    hosting = p.get("hosting", "default0")
    routes = p.get("routes", "default1")
    load = pair_load(cg)
    agents = []
    for i, a in enumerate(names):
        kw = dict(capacity=cap[a])
        if hosting == "default":
            kw["default_hosting_cost"] = env.real("hc_%s" % a, 0)
        elif hosting == "specific":
            kw["hosting_costs"] = {c: env.real("hc_%s_%s" % (a, c), 0) for c in comps}
            kw["default_hosting_cost"] = 3
        elif hosting == "one_zero":
            # one explicit zero (pins computation i on agent i), the others positive
            kw["default_hosting_cost"] = env.real("hc_%s" % a, 0)
            env.assume(kw["default_hosting_cost"] > 0)
            if i < len(comps):
                kw["hosting_costs"] = {comps[i]: 0}
        if routes == "sym":
            kw["routes"] = {}
            for b in names:
                if b != a:
                    lo, hi = sorted((a, b))
                    kw["routes"][b] = env.real("route_%s_%s" % (lo, hi), 0)
            kw["default_route"] = 2
        agents.append(AgentDef(a, **kw))
    agentsdef = agents if p.get("agents_as", "list") == "list" else {a.name: a for a in agents}.values()
    hints, must_host = make_hints(p.get("hints", "none"), cg, names)
    rnd = Rnd(env, p.get("max_perms", 6))
    if meth == "adhoc":
        mod.shuffle = rnd.shuffle
        mod.choice = rnd.choice
    elif hasattr(mod, "random"):
        mod.random = rnd

    def memory(node):
        return fp[node.name]

    def comm(node, target):
        return load(node.name, target)

    kw = dict(hints=hints, computation_memory=memory, communication_load=comm)
    if p.get("via") == "command-call":
        # the exact call ``pydcop distribute`` makes (commands/distribute.py: run_cmd)
        kw["timeout"] = 3600
    r = env.call(mod.distribute, cg, agentsdef, **kw)
    info = lambda: dict(method=meth, graph=p["graph"], dcop=p["dcop"], agents=names, hints=p.get("hints", "none"),  # noqa
                        hosting=hosting)
    check_valid(env, "C23", meth, r, cg, names, must_host, fp, cap, meth in CAPACITY_AWARE, info)


def _shapes_heur(tier, prop=None):
    S = []

    def add(method, dcop, graph, agents, **kw):
        S.append(dict(method=method, dcop=dcop, graph=graph, agents=agents, **kw))

    # oneagent: no numbers involved; every graph model, fewer / as many / more agents than computations
    for g in GRAPHS:
        add("oneagent", "pair", g, 1)
        add("oneagent", "chain3", g, 3, hints="must1")
    add("oneagent", "iso", "constraints_hypergraph", 4, agents_as="values", via="command-call")
    add("oneagent", "none", "constraints_hypergraph", 1)
    # adhoc
    add("adhoc", "pair", "constraints_hypergraph", 2)
    add("adhoc", "chain3", "pseudotree", 2, max_perms=3)
    add("adhoc", "pair", "factor_graph", 2, max_perms=3)
    add("adhoc", "pair", "ordered_graph", 1)
    add("adhoc", "pair", "constraints_hypergraph", 2, hints="must1")
    add("adhoc", "chain3", "constraints_hypergraph", 2, hints="must2", max_perms=2)
    add("adhoc", "pair", "constraints_hypergraph", 2, hints="host_with")
    add("adhoc", "pair", "factor_graph", 2, hints="secp", max_perms=2)
    add("adhoc", "pair", "factor_graph", 2, hints="secp_must", max_perms=2)
    add("adhoc", "pair", "constraints_hypergraph", 2, via="command-call")
    # heur_comhost / gh_cgdp
    for meth in ("heur_comhost", "gh_cgdp"):
        add(meth, "pair", "constraints_hypergraph", 2, hosting="default")
        add(meth, "pair", "constraints_hypergraph", 2, hosting="default0")
        add(meth, "pair", "pseudotree", 2, hosting="specific", routes="sym")
        add(meth, "chain3", "constraints_hypergraph", 2, hosting="default", routes="sym")
        add(meth, "single", "factor_graph", 2, hosting="one_zero")
        add(meth, "pair", "ordered_graph", 1, hosting="default")
        add(meth, "pair", "constraints_hypergraph", 2, hosting="default", hints="must1")
        add(meth, "none", "constraints_hypergraph", 1, hosting="default")
    add("heur_comhost", "pair", "constraints_hypergraph", 2, hosting="default", via="command-call")
    add("gh_cgdp", "pair", "constraints_hypergraph", 2, hosting="default", via="command-call", agents_as="values")
    if tier == "thorough":
        for meth in ("heur_comhost", "gh_cgdp"):
            add(meth, "chain3", "pseudotree", 3, hosting="default", routes="sym")
            add(meth, "pair", "factor_graph", 2, hosting="specific")
            add(meth, "tern", "constraints_hypergraph", 3, hosting="one_zero")
            add(meth, "iso", "ordered_graph", 2, hosting="default")
            add(meth, "chain3", "constraints_hypergraph", 4, hosting="default")
        add("adhoc", "chain3", "factor_graph", 2, max_perms=2)
        add("adhoc", "tern", "constraints_hypergraph", 3, hints="must_all")
        add("adhoc", "iso", "ordered_graph", 3)
        add("adhoc", "chain3", "constraints_hypergraph", 4, max_perms=3)
        add("adhoc", "chain3", "factor_graph", 3, hints="secp_must", max_perms=2)
        for g in GRAPHS:
            add("oneagent", "star4", g, 4, hints="must2")
    return S


Contract(
    "distribution.heuristics", ["C23"],
    ["pydcop.distribution.oneagent:distribute", "pydcop.distribution.adhoc:distribute", "pydcop.distribution.adhoc:_distribute_try",
     "pydcop.distribution.heur_comhost:distribute", "pydcop.distribution.heur_comhost:candidate_hosts",
     "pydcop.distribution.gh_cgdp:distribute", "pydcop.distribution.gh_cgdp:candidate_hosts",
     "pydcop.distribution.objects:Distribution.__init__", "pydcop.distribution.objects:DistributionHints.must_host",
     "pydcop.distribution.objects:DistributionHints.host_with"],
    h_heuristics, _shapes_heur, mode="B", must_cover=["returned"],
    trusted=["random.random / choice / shuffle modelled as fresh real in [0,1) / explored choice / explored subset of the permutations"],
    assumptions=["hints name declared agents and computations of the graph, a computation at most once in must_host",
                 "footprints, capacities, hosting and route costs are >= 0; communication loads are concrete (route * load stays linear)",
                 "adhoc: shuffle explores at most max_perms orders of the nodes (2 on retries)"],
    budget=dict(all_failures=True, quick=dict(max_paths=4000, timeout_s=100), thorough=dict(max_paths=60000, timeout_s=900)),
    desc="oneagent, adhoc, heur_comhost, gh_cgdp: a valid mapping (hosted once, declared agents, must-host, capacity) or ImpossibleDistributionException",
)
