"""Second opinion (cvc5) for queries z3 leaves unknown, SMT-LIB export."""
import os
import subprocess
import tempfile
import z3


def to_smt2(path, goal):
    s = z3.Solver()
    for c in path:
        s.add(c)
    s.add(z3.Not(goal))
    return s.to_smt2()


def cvc5_check(smt2, timeout_s=20, extra=()):
    """returns 'unsat' | 'sat' | 'unknown'"""
    exe = "/usr/bin/cvc5"
    if not os.path.exists(exe):
        return "unknown"
    with tempfile.NamedTemporaryFile("w", suffix=".smt2", delete=False) as f:
        f.write("(set-logic ALL)\n" + smt2)
        name = f.name
    try:
        p = subprocess.run([exe, "--tlimit=%d" % int(timeout_s * 1000), *extra, name],
                           capture_output=True, text=True, timeout=timeout_s + 5)
        out = p.stdout.strip().splitlines()
        for line in out:
            if line.strip() in ("unsat", "sat", "unknown"):
                return line.strip()
        return "unknown"
    except subprocess.TimeoutExpired:
        return "unknown"
    finally:
        os.unlink(name)


def second_opinion(path, goal, timeout_s=20):
    smt2 = to_smt2(path, goal)
    v = cvc5_check(smt2, timeout_s)
    return v, smt2
