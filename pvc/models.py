"""Trusted models of library entry points, bound *in the namespace of the module
under check* for the duration of a symbolic run (DESIGN.md 2.3, 3.4).  None of
them is installed in concrete (replay) mode.
"""
import math
import numpy as _np
from . import sym
from .sym import SymNum, SymBool, Unsupported


class NumpyShim:
    """numpy with float arrays modelled as object arrays holding exact reals.
    Only what pydcop.dcop.relations / dpop use: zeros, array, copy, all, dtypes."""

    def __init__(self):
        self.__real = _np

    def __getattr__(self, name):
        return getattr(_np, name)

    def zeros(self, shape=(), dtype=None, **kw):
        a = _np.empty(shape, dtype=object)
        if a.shape == ():
            a[()] = 0.0
        else:
            a.fill(0.0)
        return a

    class _ArrayFn:
        """stands for ``np.array``: callable, and ``np.array.__class__`` is used by
        relations.py in an isinstance test (always False for lists and ndarrays)."""

        def __call__(self, obj, dtype=None, **kw):
            if isinstance(obj, _np.ndarray) and obj.dtype == object:
                return obj.copy()
            return _np.array(obj, dtype=object)

    array = _ArrayFn()

    def copy(self, a):
        return _np.copy(a)

    def all(self, a):
        if isinstance(a, _np.ndarray) and a.dtype == object:
            r = True
            for x in a.flat:
                r = sym.And(r, x if isinstance(x, (bool, SymBool)) else bool(x))
            return r
        return _np.all(a)


def model_float(x):
    """float() on a symbolic number is the identity in exact-real semantics"""
    if isinstance(x, SymNum):
        return x
    return float(x)


def model_abs(x):
    return abs(x)


def model_min(*args, key=None, default=None):
    """min that builds ITE terms for plain numbers, falls back to builtin otherwise"""
    if len(args) == 1:
        xs = list(args[0])
    else:
        xs = list(args)
    if key is None and xs and all(isinstance(x, (SymNum, int, float)) for x in xs) and any(
            isinstance(x, SymNum) for x in xs):
        return sym.smin(xs)
    if key is None:
        return min(xs) if xs or default is None else default
    return min(xs, key=key)


def model_max(*args, key=None, default=None):
    if len(args) == 1:
        xs = list(args[0])
    else:
        xs = list(args)
    if key is None and xs and all(isinstance(x, (SymNum, int, float)) for x in xs) and any(
            isinstance(x, SymNum) for x in xs):
        return sym.smax(xs)
    if key is None:
        return max(xs) if xs or default is None else default
    return max(xs, key=key)


def _stable_key(x):
    """a sort key that does not depend on object addresses"""
    n = getattr(x, "name", None)
    if isinstance(n, str):
        return (0, type(x).__name__, n)
    if isinstance(x, (int, float, str, bool)) or x is None:
        return (1, type(x).__name__, repr(x))
    if isinstance(x, (tuple, list)):
        return (2, "seq", repr([_stable_key(e) for e in x]))
    if sym.is_sym(x):
        return (3, "sym", repr(x))
    raise TypeError("no stable key")


class RandomModel:
    """``random`` with every random decision turned into an explored choice /
    a fresh constrained symbol.  Installed as module attribute ``random``."""

    def __init__(self, env, tag="rnd"):
        self.env = env
        self.tag = tag
        self.n = 0

    def _name(self, what):
        self.n += 1
        return "%s_%s%d" % (self.tag, what, self.n)

    def choice(self, seq):
        seq = list(seq)
        if not seq:
            raise IndexError("Cannot choose from an empty sequence")
        # The real code often draws from list(some_set): the order of the options then depends on object hashes (ids of cost
        # functions ...) and changes from one run to the next, so "option k" of the exploration would be another element in
        # the native replay. Every option is explored anyway: present them in a canonical order.
        try:
            seq = sorted(seq, key=_stable_key)
        except Exception:  # noqa - mixed / unorderable keys: keep the order given
            pass
        return self.env.choice(self._name("choice"), seq)

    def random(self):
        x = self.env.real(self._name("random"))
        self.env.assume(sym.And(x >= 0, x < 1))
        return x

    def uniform(self, a, b):
        x = self.env.real(self._name("uniform"))
        self.env.assume(sym.And(x >= a, x <= b))
        return x

    def randint(self, a, b):
        return self.env.choice(self._name("randint"), list(range(a, b + 1)))

    def sample(self, pop, k):
        import itertools
        pop = list(pop)
        return list(self.env.choice(self._name("sample"), list(itertools.permutations(pop, k))))

    def shuffle(self, lst):
        import itertools
        perm = self.env.choice(self._name("shuffle"), list(itertools.permutations(range(len(lst)))))
        lst[:] = [lst[i] for i in perm]

    def seed(self, *a):
        pass



class MathShim:
    """``math`` for code that runs on proxies: everything is the real module, except ``isclose`` on symbolic numbers, which is
    its own definition over the exact reals - |a-b| <= max(rel_tol*max(|a|,|b|), abs_tol) - instead of an Unsupported float()
    conversion. (A change that replaces an exact comparison by math.isclose is then explored like any other branch.)"""

    def __init__(self, real):
        self._real = real

    def __getattr__(self, name):
        return getattr(self._real, name)

    def isclose(self, a, b, rel_tol=1e-09, abs_tol=0.0):
        if not (sym.is_sym(a) or sym.is_sym(b)):
            return self._real.isclose(a, b, rel_tol=rel_tol, abs_tol=abs_tol)
        import fractions
        for x in (a, b):
            if not sym.is_sym(x) and isinstance(x, float) and math.isinf(x):
                return False           # a finite symbolic number is never close to an infinity
        rt = fractions.Fraction(rel_tol).limit_denominator(10 ** 15)
        at = fractions.Fraction(abs_tol).limit_denominator(10 ** 15)
        d = abs(a - b)
        return sym.Or(sym.eq(a, b), sym.le(d, sym.smax([abs(a) * rt, abs(b) * rt, at])))
