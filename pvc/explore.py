"""Path-exhaustive execution of a harness over symbolic inputs (B-mode engine) and
the obligation bookkeeping shared with U-mode.  DESIGN.md section 2.3 / 2.7.

A *harness* is a python function ``h(env)``.  It obtains inputs from ``env``
(symbolic numbers, enumerated choices), calls the REAL repo code on them and
states obligations with ``env.prove(label, cond)``.  ``explore`` re-executes the
harness once per feasible path (decision-vector scheme).  The very same harness
is run again in *concrete* mode (plain python numbers, no proxies, no shims) to
replay a counter-model natively.
"""
import os
import math
import time
import random
import fractions
import traceback
import z3

from . import sym
from .sym import SymNum, SymBool, PathAbort, Unsupported, BudgetExceeded


import os as _os
_PVC_DIR = _os.path.dirname(_os.path.abspath(__file__))


class Raised:
    """result of env.call when the function raised"""

    def __init__(self, exc, tb=""):
        self.exc = exc
        self.tb = tb

    def __repr__(self):
        return "Raised(%s: %s)" % (type(self.exc).__name__, self.exc)


class Failure:
    def __init__(self, label, kind, inputs, choices, detail, smt2=None, model=None):
        self.label = label
        self.kind = kind  # 'sat' | 'unknown' | 'concrete'
        self.inputs = inputs
        self.choices = choices
        self.detail = detail
        self.smt2 = smt2
        self.model = model

    def to_json(self):
        return dict(label=self.label, kind=self.kind, inputs=self.inputs,
                    choices=self.choices, detail=self.detail, smt2=self.smt2,
                    model=self.model, prelude_choices=getattr(self, "prelude_choices", None))


def _val_to_py(v):
    """z3 numeral -> int | float (exact when dyadic) | Fraction"""
    if z3.is_int_value(v):
        return v.as_long()
    if z3.is_rational_value(v):
        fr = fractions.Fraction(v.numerator_as_long(), v.denominator_as_long())
        if fr.denominator == 1:
            return int(fr)
        f = float(fr)
        if fractions.Fraction(f) == fr:
            return f
        return fr
    if z3.is_algebraic_value(v):
        return float(v.approx(20).as_fraction())
    if z3.is_true(v):
        return True
    if z3.is_false(v):
        return False
    raise Unsupported("model value %r" % (v,))


class Run:
    """one execution of the harness along one path"""

    def __init__(self, explorer, prefix):
        self.ex = explorer
        self.prefix = prefix
        self.decisions = []  # list of (taken_index, n_options)
        self.pos = 0
        self.path = []  # z3 bools
        self.solver = explorer.solver
        self.n_solver = 0
        self.model = None

    # --- symbolic branch on a z3 Bool
    def _take(self, t, taken):
        self.decisions.append((taken, 2, 'b'))
        c = t if taken == 0 else z3.Not(t)
        self.path.append(c)
        self.solver.add(c)

    def _model(self):
        """a model of the current path condition (kept valid along the path)"""
        if self.model is None:
            self.n_solver += 1
            r = self.solver.check()
            if r == z3.sat:
                self.model = self.solver.model()
            elif r == z3.unsat:
                raise PathAbort("path infeasible")
        return self.model

    def branch(self, t):
        ex = self.ex
        if self.pos < len(self.prefix):
            taken = self.prefix[self.pos][0]
            self.pos += 1
            self._take(t, taken)
            self.model = None
            return taken == 0
        ex.check_budget()
        self.pos += 1
        m = self._model()
        side = None
        if m is not None:
            v = m.eval(t, model_completion=True)
            if z3.is_true(v):
                side = 0
            elif z3.is_false(v):
                side = 1
        if side is None:
            # no usable model (solver answered unknown): decide both sides with the solver
            can_t = self._feasible(t)
            can_f = self._feasible(z3.Not(t))
            self.model = None
            if can_t and can_f:
                ex.queue.append(self.decisions + [(1, 2, 'b')])
                self._take(t, 0)
                return True
            if can_t or can_f:
                self._take(t, 0 if can_t else 1)
                return can_t
            raise PathAbort("both sides infeasible")
        other = z3.Not(t) if side == 0 else t
        if self._feasible(other):
            ex.queue.append(self.decisions + [(1 - side, 2, 'b')])
        self._take(t, side)   # the kept model still satisfies the path
        return side == 0

    def _feasible(self, t):
        self.n_solver += 1
        r = self.solver.check(t)
        if r == z3.unknown:
            self.ex.unknown_branches += 1
            return True  # over-approximate: explore it
        return r == z3.sat

    # --- enumerated choice among n options
    def choose(self, n):
        if n <= 0:
            raise PathAbort("empty choice")
        if self.pos < len(self.prefix):
            taken = self.prefix[self.pos][0]
            self.pos += 1
            self.decisions.append((taken, n, 'c'))
            return taken
        self.ex.check_budget()
        self.pos += 1
        for k in range(n - 1, 0, -1):
            self.ex.queue.append(self.decisions + [(k, n, 'c')])
        self.decisions.append((0, n, 'c'))
        return 0


class Env:
    """what a harness sees.  mode: 'sym' or 'concrete'."""

    def __init__(self, explorer, run=None, concrete=None, params=None):
        self.ex = explorer
        self.run = run
        self.concrete = concrete  # dict(inputs=..., choices=[...]) in concrete mode
        self.params = params or {}
        self._choice_pos = 0
        self.used_inputs = {}
        self.notes = []

    @property
    def symbolic(self):
        return self.concrete is None

    # ---------------- inputs
    def _sym(self, name, sort):
        ex = self.ex
        if name in ex.symbols:
            t = ex.symbols[name]
        else:
            t = z3.Real(name) if sort == "real" else (z3.Int(name) if sort == "int" else z3.Bool(name))
            ex.symbols[name] = t
        self.used_inputs[name] = t
        return t

    def _sampled(self, name, kind, lo, hi):
        inp = self.concrete["inputs"]
        if name not in inp:
            smp = self.concrete.get("sampler")
            if smp is None:
                inp[name] = (0 if lo is None else lo) if kind != "bool" else False
            else:
                inp[name] = smp.draw(name, kind, lo, hi)
        self.used_inputs[name] = inp[name]
        return inp[name]

    def real(self, name, lo=None, hi=None):
        if not self.symbolic:
            return self._sampled(name, "real", lo, hi)
        x = SymNum(self._sym(name, "real"))
        if lo is not None:
            self.assume(x >= lo)
        if hi is not None:
            self.assume(x <= hi)
        return x

    def int(self, name, lo=None, hi=None):
        if not self.symbolic:
            return self._sampled(name, "int", lo, hi)
        x = SymNum(self._sym(name, "int"))
        if lo is not None:
            self.assume(x >= lo)
        if hi is not None:
            self.assume(x <= hi)
        return x

    def bool(self, name):
        if not self.symbolic:
            return bool(self._sampled(name, "bool", None, None))
        return SymBool(self._sym(name, "bool"))

    def choice(self, name, options):
        """enumerated nondeterministic choice (each option is its own set of paths)"""
        options = list(options)
        if not self.symbolic:
            ch = self.concrete["choices"]
            if self._choice_pos < len(ch):
                k = ch[self._choice_pos]
            else:
                smp = self.concrete.get("sampler")
                k = smp.rng.randrange(len(options)) if smp is not None else 0
                ch.append(k)
            self._choice_pos += 1
            return options[k % len(options)]
        k = self.run.choose(len(options))
        self.ex.choice_log.append((name, k))
        return options[k]

    def ext_real(self, name, kinds=("fin", "+inf", "-inf"), lo=None, hi=None):
        """an extended real: finite symbolic, or a concrete infinity (enumerated)"""
        k = self.choice("kind:" + name, kinds) if len(kinds) > 1 else kinds[0]
        if k == "fin":
            return self.real(name, lo, hi)
        return math.inf if k == "+inf" else -math.inf

    # ---------------- assumptions / obligations
    def assume(self, cond):
        if isinstance(cond, bool):
            if not cond:
                raise PathAbort("assumption false")
            return
        if not self.symbolic:
            if not bool(cond):
                raise PathAbort("assumption false (concrete)")
            return
        t = sym.B(cond)
        r = self.run
        r.solver.add(t)
        r.path.append(t)
        res = r.solver.check()
        if res == z3.unsat:
            raise PathAbort("assumption infeasible")
        r.model = r.solver.model() if res == z3.sat else None

    def cover(self, label):
        self.ex.covered[label] = self.ex.covered.get(label, 0) + 1

    def note(self, text):
        self.notes.append(text)
        if text not in self.ex.notes:
            self.ex.notes.append(text)

    def prove(self, label, cond, detail=None):
        """obligation: on this path, cond holds for every value of the inputs"""
        ex = self.ex
        if ex.ignore_label is not None and ex.ignore_label(label):
            return True
        ex.obl_count[label] = ex.obl_count.get(label, 0) + 1
        if label in ex.known_labels and any(f.label == label for f in ex.failures):
            return True  # known finding already witnessed once in this job
        if not self.symbolic:
            ok = bool(cond)
            if not ok:
                ex.failures.append(Failure(label, "concrete", dict(self.concrete["inputs"]),
                                           list(self.concrete["choices"]), _fmt(detail)))
            return ok
        if isinstance(cond, bool) or (not isinstance(cond, (SymBool, z3.BoolRef))):
            try:
                import numpy as _np
                if isinstance(cond, _np.bool_):
                    cond = bool(cond)
            except ImportError:  # pragma: no cover
                pass
            if not isinstance(cond, bool):
                raise Unsupported("prove(%s): condition is %r" % (label, type(cond)))
            if cond:
                ex.vc_stats["trivial"] += 1
                return True
            # concretely false on a feasible path: any model of the path is a witness
            return self._fail(label, z3.BoolVal(False), detail)
        t = sym.B(cond)
        t0 = time.time()
        r = self.run.solver.check(z3.Not(t))
        dt = time.time() - t0
        ex.vc_stats["solver_s"] += dt
        ex.vc_stats["queries"] += 1
        if r == z3.unsat:
            ex.vc_stats["z3"] += 1
            return True
        if r == z3.unknown:
            # second opinion
            from . import discharge
            verdict, smt2 = discharge.second_opinion(self.run.path, t, ex.cvc5_timeout)
            if verdict == "unsat":
                ex.vc_stats["cvc5"] += 1
                return True
            if verdict == "unknown":
                ex.failures.append(Failure(label, "unknown", {}, self._choices(), _fmt(detail), smt2=smt2))
                return False
        return self._fail(label, t, detail)

    def _choices(self):
        return [d[0] for d in self.run.decisions if d[2] == 'c']

    def _fail(self, label, t, detail):
        ex = self.ex
        s = self.run.solver
        model_inputs = None
        raw = None
        # try integer, then dyadic, then any model
        syms = [v for v in ex.symbols.values() if not z3.is_bool(v)]
        reals = [v for v in syms if v.sort() == z3.RealSort()]
        for attempt in ("int", "dyadic", "any"):
            extra = []
            if attempt == "int":
                extra = [z3.IsInt(v) for v in reals]
                extra += [z3.And(v >= -10 ** 12, v <= 10 ** 12) for v in syms]
            elif attempt == "dyadic":
                extra = [z3.IsInt(v * 1024) for v in reals]
            s.push()
            s.add(z3.Not(t))
            for e in extra:
                s.add(e)
            r = s.check()
            if r == z3.sat:
                m = s.model()
                model_inputs = {}
                for name, v in ex.symbols.items():
                    mv = m.eval(v, model_completion=True)
                    pv = _val_to_py(mv)
                    if isinstance(pv, fractions.Fraction):
                        pv = float(pv)
                    model_inputs[name] = pv
                raw = str(m)
                s.pop()
                break
            s.pop()
        kind = "sat" if model_inputs is not None else "unknown"
        smt2 = None
        if model_inputs is None:
            from . import discharge
            smt2 = discharge.to_smt2(self.run.path, t)
        ex.failures.append(Failure(label, kind, model_inputs or {}, self._choices(), _fmt(detail), smt2=smt2, model=raw))
        return False

    # ---------------- calling the real code
    def call(self, fn, *a, **kw):
        """call the function under contract; an ordinary exception is a *result*"""
        try:
            return fn(*a, **kw)
        except Exception as e:  # noqa
            tb = e.__traceback__
            while tb is not None and tb.tb_next is not None:
                tb = tb.tb_next
            if tb is not None and tb.tb_frame.f_code.co_filename.startswith(_PVC_DIR):
                raise Unsupported("engine error inside the proxies: %r" % (e,))
            return Raised(e, traceback.format_exc(limit=6))


def _fmt(detail):
    if detail is None:
        return None
    try:
        if callable(detail):
            detail = detail()
        return str(detail)[:int(os.environ.get("PVC_DETAIL_MAX", "2000"))]
    except BaseException as e:  # noqa
        return "<detail failed: %r>" % (e,)


class Sampler:
    """concrete input generator for the sampled native pass: ties, near-ties of huge
    magnitudes, values beyond 32/53 bits, small integers, halves"""
    BASES = [0, 0, 1, 10, 2 ** 31 - 1, 2 ** 31, 3 * 10 ** 9, 2 ** 40, -(2 ** 31), -(2 ** 31) - 1, -3 * 10 ** 9, 2 ** 45]
    OFFS = [0, 0, 1, 2, -1, 0.5, 3, -2, 0.25]
    SMALL = [0, 1, -1, 2, 3, 0.5, -0.5, 5, 7, 10, -3, 100, 1.5]

    def __init__(self, seed, max_mag=None):
        self.rng = random.Random(seed)
        if max_mag is not None:
            # contracts whose code divides floats: huge near-equal values only produce rounding noise
            self.BASES = [b for b in self.BASES if abs(b) <= max_mag]
        self.mode = self.rng.choice(["cluster", "small", "small", "mixed"])
        self.base = self.rng.choice(self.BASES)

    def draw(self, name, kind, lo, hi):
        r = self.rng
        if kind == "bool":
            return r.random() < 0.5
        if self.mode == "cluster":
            v = self.base + r.choice(self.OFFS)
        elif self.mode == "small":
            v = r.choice(self.SMALL)
        else:
            v = r.choice(self.BASES) + r.choice(self.OFFS) if r.random() < 0.4 else r.choice(self.SMALL)
        if kind == "int":
            v = int(v)
        if lo is not None and v < lo:
            v = lo + (abs(v) % 7 if hi is None else abs(v) % (max(hi - lo, 0) + 1))
        if hi is not None and v > hi:
            v = hi - (abs(v) % 7 if lo is None else abs(v) % (max(hi - lo, 0) + 1))
        return v


class Explorer:
    def __init__(self, harness, params=None, max_paths=20000, timeout_s=300.0,
                 solver_timeout_ms=10000, cvc5_timeout=20, seed=0, initial_queue=None, slice_paths=None):
        self.harness = harness
        self.params = params or {}
        self.max_paths = max_paths
        self.timeout_s = timeout_s
        self.cvc5_timeout = cvc5_timeout
        self.solver = z3.Solver()
        self.solver.set("timeout", solver_timeout_ms)
        self.solver.set("random_seed", seed % (2 ** 30))
        self.symbols = {}
        self.queue = []
        self.failures = []
        self.covered = {}
        self.obl_count = {}
        self.choice_log = []
        self.paths = 0
        self.aborted = 0
        self.unknown_branches = 0
        self.vc_stats = dict(z3=0, cvc5=0, trivial=0, queries=0, solver_s=0.0)
        self.t0 = None
        self.budget_exhausted = False
        self.error = None
        self.samples = []
        self.ignore_label = None
        self.notes = []
        self.initial_queue = initial_queue
        self.slice_paths = slice_paths
        self.sliced = False
        self.known_labels = set()   # failures on these labels are recorded once and do not stop the exploration

    def check_budget(self):
        if self.paths + len(self.queue) > self.max_paths * 4 or (time.time() - self.t0) > self.timeout_s:
            raise BudgetExceeded()

    def run_all(self, stop_at_first_failure=True):
        self.t0 = time.time()
        if self.initial_queue is not None:
            self.queue.extend([[tuple(d) for d in pf] for pf in self.initial_queue])
        else:
            self.queue.append([])
        while self.queue:
            if self.slice_paths and self.paths >= self.slice_paths:
                self.sliced = True  # hand the remaining frontier back to the scheduler
                break
            if self.paths >= self.max_paths or (time.time() - self.t0) > self.timeout_s:
                self.budget_exhausted = True
                break
            prefix = self.queue.pop()
            run = Run(self, prefix)
            env = Env(self, run=run, params=self.params)
            self.choice_log = []
            sym.set_run(run)
            self.solver.push()
            n_fail_before = len(self.failures)
            try:
                self.harness(env)
                self.paths += 1
                if len(self.samples) < 3:
                    self.samples.append(dict(path=self.paths, decisions=[d[0] for d in run.decisions][:40],
                                             path_condition=[str(z3.simplify(c))[:120] for c in run.path[:6]]))
            except PathAbort:
                self.aborted += 1
            except BudgetExceeded:
                self.budget_exhausted = True
                self.solver.pop()
                sym.set_run(None)
                break
            except Unsupported as e:
                self.error = "Unsupported: %s\n%s" % (e, traceback.format_exc(limit=12))
                self.solver.pop()
                sym.set_run(None)
                break
            except Exception as e:  # harness bug
                self.error = "harness error: %r\n%s" % (e, traceback.format_exc(limit=12))
                self.solver.pop()
                sym.set_run(None)
                break
            finally:
                pass
            self.solver.pop()
            sym.set_run(None)
            # the enumerated choices of the path explored just before this one in the same process: the replay uses them as a
            # prelude when the counter-model does not reproduce in a fresh process (state kept between runs)
            for f in self.failures[n_fail_before:]:
                f.prelude_choices = getattr(self, "_prev_choices", None)
            self._prev_choices = [d[0] for d in run.decisions if len(d) > 2 and d[2] == 'c']
            if stop_at_first_failure and any(f.label not in self.known_labels for f in self.failures):
                break
        return self

    # ---- concrete (native) run of the same harness
    def run_concrete(self, inputs, choices, sampler=None):
        sub = Explorer(self.harness, params=self.params)
        sub.ignore_label = self.ignore_label
        sub.known_labels = set(self.known_labels) if sampler is not None else set()
        sub.t0 = time.time()
        env = Env(sub, concrete=dict(inputs=inputs, choices=choices, sampler=sampler), params=self.params)
        sym.set_run(None)
        try:
            self.harness(env)
        except PathAbort:
            sub.aborted += 1
        except Exception as e:  # noqa
            sub.error = "harness error (concrete): %r\n%s" % (e, traceback.format_exc(limit=12))
        return sub
