"""Symbolic proxies: the real pyDcop code is executed by CPython, only the numeric
leaves are z3 terms.  See DESIGN.md section 2.2.

SymNum  : a finite real (or integer) backed by a z3 arithmetic term.
SymBool : a z3 Bool; ``__bool__`` is the fork point handled by the active Run
          (pvc.explore).
Python ``float('inf')`` / ``-inf`` stay *concrete*: arithmetic and comparison of a
SymNum (always finite) with a concrete infinity is decided here without any
encoding, so "some cells infinite" is explored by enumerating which cells are
infinite (pvc.explore.Env.ext_real).
"""
import math
import fractions
import z3


class Unsupported(BaseException):
    """An operation the proxies do not model was attempted (checker limitation,
    never a property violation).  BaseException so that ``except Exception`` in the
    code under check cannot swallow it."""


class PathAbort(BaseException):
    """Current path is infeasible or was cut by an assumption."""


class BudgetExceeded(BaseException):
    pass


_RUN = None  # the active pvc.explore.Run


def set_run(r):
    global _RUN
    _RUN = r


def get_run():
    return _RUN


def _is_num(x):
    return isinstance(x, (int, float, fractions.Fraction)) and not isinstance(x, bool)


def _const(x):
    """python number -> z3 term (exact)."""
    if isinstance(x, bool):
        x = int(x)
    if isinstance(x, int):
        return z3.IntVal(x)
    if isinstance(x, float):
        if math.isinf(x) or math.isnan(x):
            raise Unsupported("non finite float in a symbolic term")
        fr = fractions.Fraction(x)
        return z3.RealVal(str(fr))
    if isinstance(x, fractions.Fraction):
        return z3.RealVal(str(x))
    raise Unsupported("cannot turn %r into a term" % (x,))


def _coerce(a, b):
    """two z3 arith terms -> same sort."""
    if a.sort() == b.sort():
        return a, b
    if a.is_int():
        a = z3.ToReal(a)
    if b.is_int():
        b = z3.ToReal(b)
    return a, b


def term_of(x):
    if isinstance(x, SymNum):
        return x.t
    if isinstance(x, SymBool):
        return x.t
    if isinstance(x, bool):
        return z3.BoolVal(x)
    try:
        import numpy as _np
        if isinstance(x, _np.generic):
            x = x.item()
    except ImportError:  # pragma: no cover
        pass
    return _const(x)


class SymBool:
    __slots__ = ("t",)

    def __init__(self, t):
        self.t = t

    def __bool__(self):
        t = self.t
        if z3.is_true(t):
            return True
        if z3.is_false(t):
            return False
        if _RUN is None:
            t = z3.simplify(t)
            if z3.is_true(t):
                return True
            if z3.is_false(t):
                return False
            raise Unsupported("symbolic bool used outside a run")
        return _RUN.branch(t)

    def _other(self, o):
        if isinstance(o, SymBool):
            return o.t
        if isinstance(o, (bool, int)) and o in (0, 1, True, False):
            return z3.BoolVal(bool(o))
        try:
            import numpy as _np
            if isinstance(o, _np.bool_):
                return z3.BoolVal(bool(o))
        except ImportError:  # pragma: no cover
            pass
        return None

    def __and__(self, o):
        ot = self._other(o)
        if ot is None:
            return NotImplemented
        return SymBool(z3.And(self.t, ot))

    __rand__ = __and__

    def __or__(self, o):
        ot = self._other(o)
        if ot is None:
            return NotImplemented
        return SymBool(z3.Or(self.t, ot))

    __ror__ = __or__

    def __invert__(self):
        return SymBool(z3.Not(self.t))

    def __xor__(self, o):
        ot = self._other(o)
        if ot is None:
            return NotImplemented
        return SymBool(z3.Xor(self.t, ot))

    __rxor__ = __xor__

    def __eq__(self, o):
        ot = self._other(o)
        if ot is None:
            return False
        return SymBool(self.t == ot)

    def __ne__(self, o):
        ot = self._other(o)
        if ot is None:
            return True
        return SymBool(self.t != ot)

    def __hash__(self):
        raise Unsupported("hash of a symbolic bool")

    def __repr__(self):
        return "SymBool(%s)" % (z3.simplify(self.t),)

    # a bool used as a number (True + 1, sum of bools)
    def _num(self):
        return SymNum(z3.If(self.t, z3.IntVal(1), z3.IntVal(0)))

    def __add__(self, o):
        return self._num() + o

    __radd__ = __add__

    def __mul__(self, o):
        return self._num() * o

    __rmul__ = __mul__


class SymNum:
    """A finite number.  is_int tells whether the z3 sort is Int."""
    __slots__ = ("t", "is_int")

    def __init__(self, t, is_int=None):
        self.t = t
        self.is_int = t.is_int() if is_int is None else is_int

    def _bin(self, o, f, rev=False):
        if isinstance(o, SymBool):
            o = o._num()
        if isinstance(o, SymNum):
            a, b = self.t, o.t
            if self.is_int != o.is_int:
                if self.is_int:
                    a = z3.ToReal(a)
                else:
                    b = z3.ToReal(b)
        elif _is_num(o) or isinstance(o, bool):
            if isinstance(o, float):
                if math.isnan(o):
                    raise Unsupported("NaN operand")
                if math.isinf(o):
                    return None  # caller handles infinities
                a, b = self.t, _const(o)
                if self.is_int:
                    a = z3.ToReal(a)
            elif isinstance(o, fractions.Fraction):
                a, b = self.t, _const(o)
                if self.is_int:
                    a = z3.ToReal(a)
            else:
                a = self.t
                b = z3.IntVal(int(o)) if self.is_int else z3.RealVal(int(o))
        else:
            try:
                import numpy as _np
                if isinstance(o, _np.generic):
                    return self._bin(o.item(), f, rev)
            except ImportError:  # pragma: no cover
                pass
            return NotImplemented
        if rev:
            a, b = b, a
        return f(a, b)

    # ---- arithmetic
    def __add__(self, o):
        r = self._bin(o, lambda a, b: a + b)
        if r is None:
            return o  # finite + inf = inf
        if r is NotImplemented:
            return r
        return SymNum(r)

    __radd__ = __add__

    def __sub__(self, o):
        r = self._bin(o, lambda a, b: a - b)
        if r is None:
            return -o
        if r is NotImplemented:
            return r
        return SymNum(r)

    def __rsub__(self, o):
        r = self._bin(o, lambda a, b: a - b, rev=True)
        if r is None:
            return o
        if r is NotImplemented:
            return r
        return SymNum(r)

    def __mul__(self, o):
        if _is_num(o) and isinstance(o, float) and math.isinf(o):
            # sign dependent: fork on the sign of self
            if self > 0:
                return o
            if self < 0:
                return -o
            return float("nan")
        r = self._bin(o, lambda a, b: a * b)
        if r is NotImplemented:
            return r
        return SymNum(r)

    __rmul__ = __mul__

    def __truediv__(self, o):
        if _is_num(o):
            if isinstance(o, float) and math.isinf(o):
                return 0.0
            if o == 0:
                raise ZeroDivisionError("division by zero")
            a = self.t if not self.t.is_int() else z3.ToReal(self.t)
            return SymNum(a / z3.RealVal(str(fractions.Fraction(o))))
        if isinstance(o, SymNum):
            if o == 0:
                raise ZeroDivisionError("division by zero")
            a = self.t if not self.t.is_int() else z3.ToReal(self.t)
            b = o.t if not o.t.is_int() else z3.ToReal(o.t)
            return SymNum(a / b)
        return NotImplemented

    def __rtruediv__(self, o):
        if _is_num(o):
            if self == 0:
                raise ZeroDivisionError("division by zero")
            if isinstance(o, float) and math.isinf(o):
                return o if self > 0 else -o
            b = self.t if not self.t.is_int() else z3.ToReal(self.t)
            return SymNum(z3.RealVal(str(fractions.Fraction(o))) / b)
        return NotImplemented

    def __neg__(self):
        return SymNum(-self.t)

    def __pos__(self):
        return self

    def __abs__(self):
        return SymNum(z3.If(self.t >= 0, self.t, -self.t))

    # ---- comparisons
    def _cmp(self, o, f, inf_pos, inf_neg):
        r = self._bin(o, f)
        if r is None:
            return inf_pos if o > 0 else inf_neg
        if r is NotImplemented:
            return r
        return SymBool(r)

    def __lt__(self, o):
        return self._cmp(o, lambda a, b: a < b, True, False)

    def __le__(self, o):
        return self._cmp(o, lambda a, b: a <= b, True, False)

    def __gt__(self, o):
        return self._cmp(o, lambda a, b: a > b, False, True)

    def __ge__(self, o):
        return self._cmp(o, lambda a, b: a >= b, False, True)

    def __eq__(self, o):
        if o is None or isinstance(o, (str, tuple, list, dict)):
            return False
        r = self._bin(o, lambda a, b: a == b)
        if r is None:
            return False
        if r is NotImplemented:
            return False
        return SymBool(r)

    def __ne__(self, o):
        e = self.__eq__(o)
        if e is False:
            return True
        return SymBool(z3.Not(e.t))

    def __hash__(self):
        # constant: consistent with the symbolic __eq__ among proxies (every lookup
        # falls through to __eq__, which forks).  Lookups that mix symbolic and
        # concrete numeric keys are NOT modelled (listed in the trusted base).
        return 0x5CA1AB1E

    def __bool__(self):
        return bool(self != 0)

    def __float__(self):
        raise Unsupported("float() of a symbolic number")

    def __int__(self):
        raise Unsupported("int() of a symbolic number")

    def __index__(self):
        raise Unsupported("symbolic number used as an index")

    def __round__(self, n=None):
        raise Unsupported("round() of a symbolic number")

    def __repr__(self):
        return "Sym(%s)" % (z3.simplify(self.t),)

    __str__ = __repr__

    def __format__(self, spec):
        return repr(self)

    def __deepcopy__(self, memo):
        return self

    def __copy__(self):
        return self


# ----------------------------------------------------------------------------
# helpers for contract code (never fork)

def B(x):
    """anything bool-like -> z3 Bool term"""
    if isinstance(x, SymBool):
        return x.t
    if isinstance(x, z3.BoolRef):
        return x
    if isinstance(x, bool):
        return z3.BoolVal(x)
    try:
        import numpy as _np
        if isinstance(x, _np.bool_):
            return z3.BoolVal(bool(x))
    except ImportError:  # pragma: no cover
        pass
    raise Unsupported("not a bool: %r" % (x,))


def is_sym(x):
    return isinstance(x, (SymNum, SymBool))


def all_concrete(*xs):
    return not any(is_sym(x) for x in xs)


def And(*xs):
    xs = [x for x in _flat(xs)]
    if all(isinstance(x, bool) for x in xs):
        return all(xs)
    return SymBool(z3.And(*[B(x) for x in xs]))


def Or(*xs):
    xs = [x for x in _flat(xs)]
    if all(isinstance(x, bool) for x in xs):
        return any(xs)
    return SymBool(z3.Or(*[B(x) for x in xs]))


def Not(x):
    if isinstance(x, bool):
        return not x
    return SymBool(z3.Not(B(x)))


def Implies(a, b):
    if isinstance(a, bool) and isinstance(b, bool):
        return (not a) or b
    return SymBool(z3.Implies(B(a), B(b)))


def Iff(a, b):
    if isinstance(a, bool) and isinstance(b, bool):
        return a == b
    return SymBool(B(a) == B(b))


def _flat(xs):
    for x in xs:
        if isinstance(x, (list, tuple)) or hasattr(x, "__next__"):
            for y in _flat(x):
                yield y
        else:
            yield x


def eq(a, b):
    """extended-real / generic equality that never forks"""
    if is_sym(a) or is_sym(b):
        r = (a == b)
        return r
    try:
        import numpy as _np
        if isinstance(a, _np.generic):
            a = a.item()
        if isinstance(b, _np.generic):
            b = b.item()
    except ImportError:  # pragma: no cover
        pass
    return bool(a == b)


def lt(a, b):
    r = a < b
    return r if is_sym(r) else bool(r)


def le(a, b):
    r = a <= b
    return r if is_sym(r) else bool(r)


def ite(c, a, b):
    """if-then-else on numbers (or bools) without forking"""
    if isinstance(c, bool):
        return a if c else b
    c = B(c)
    if isinstance(a, (SymBool, bool)) and isinstance(b, (SymBool, bool)):
        return SymBool(z3.If(c, B(a), B(b)))
    for v in (a, b):
        if isinstance(v, float) and math.isinf(v):
            # cannot encode an infinity in a term: fall back to a fork
            return a if SymBool(c) else b
    ta, tb = _coerce(term_of(a), term_of(b))
    return SymNum(z3.If(c, ta, tb))


def smin(xs):
    """minimum of extended reals as a term (no fork unless infinities mix in)"""
    xs = list(xs)
    if not xs:
        raise ValueError("smin of empty")
    fin = [x for x in xs if not (isinstance(x, float) and math.isinf(x))]
    if any(isinstance(x, float) and x == -math.inf for x in xs):
        return -math.inf
    if not fin:
        return math.inf
    m = fin[0]
    for x in fin[1:]:
        m = ite(lt(x, m), x, m)
    return m


def smax(xs):
    xs = list(xs)
    if not xs:
        raise ValueError("smax of empty")
    fin = [x for x in xs if not (isinstance(x, float) and math.isinf(x))]
    if any(isinstance(x, float) and x == math.inf for x in xs):
        return math.inf
    if not fin:
        return -math.inf
    m = fin[0]
    for x in fin[1:]:
        m = ite(lt(m, x), x, m)
    return m


def ssum(xs, start=0):
    s = start
    for x in xs:
        s = s + x
    return s


def close(a, b, rel=1e-9, abs_=1e-9):
    """equality for results that went through a float division: exact on symbolic
    (exact-real) terms, tolerance on native floats (sampled / replay runs)"""
    if is_sym(a) or is_sym(b):
        return eq(a, b)
    return math.isclose(a, b, rel_tol=rel, abs_tol=abs_)
