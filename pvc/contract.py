"""Contract registry.  A Contract ties real functions of /repo (``targets``) to a
harness stating pre/postconditions on them (DESIGN.md 2.4)."""
import importlib
import inspect
import hashlib

REGISTRY = {}
LOAD_ERRORS = {}


class Contract:
    def __init__(self, cid, serves, targets, harness, shapes, mode="B", desc="",
                 trusted=(), assumptions=(), budget=None, must_cover=(), needs_seed=False,
                 env_vars=None):
        self.cid = cid
        self.serves = list(serves)
        self.targets = list(targets)
        self.harness = harness
        self.shapes = shapes  # callable(tier) -> list of param dicts
        self.mode = mode  # 'B' bounded-shape symbolic | 'E' enumerated | 'U' unbounded VCs
        self.desc = desc
        self.trusted = list(trusted)
        self.assumptions = list(assumptions)
        self.budget = budget or {}
        self.must_cover = list(must_cover)
        self.needs_seed = needs_seed
        self.env_vars = env_vars or {}
        if cid in REGISTRY:
            raise ValueError("duplicate contract id " + cid)
        REGISTRY[cid] = self


def resolve(target):
    """'pkg.mod:Class.method' -> object"""
    mod, _, qual = target.partition(":")
    obj = importlib.import_module(mod)
    for part in qual.split("."):
        if part:
            obj = getattr(obj, part)
    return obj


def source_hash(target):
    try:
        obj = resolve(target)
        obj = inspect.unwrap(obj) if callable(obj) else obj
        if isinstance(obj, property):
            obj = obj.fget
        src = inspect.getsource(obj)
        return hashlib.sha256(src.encode()).hexdigest()[:16]
    except Exception as e:  # noqa
        return "unavailable:%s" % type(e).__name__


CONTRACT_MODULES = [
    "contracts.c_relations",
]


def load_all():
    import os
    here = os.path.dirname(os.path.dirname(os.path.abspath(__file__)))
    cdir = os.path.join(here, "contracts")
    for fn in sorted(os.listdir(cdir)):
        if fn.startswith("c_") and fn.endswith(".py"):
            try:
                importlib.import_module("contracts." + fn[:-3])
            except Exception as e:  # noqa  (a broken contract file must not take the other checks down)
                LOAD_ERRORS[fn] = "%s: %s" % (type(e).__name__, e)
    return REGISTRY
