"""U-mode: unbounded verification conditions generated from the CURRENT source of a
real function (DESIGN.md 2.6).

``inspect.getsource`` -> ``ast`` -> symbolic execution of the function body over z3
terms.  Loops are CUT at the loop head with an inductive invariant from the sidecar
contract: obligations  inv-on-entry / inv-preserved (per path of the body) /
post-from-inv, plus callee preconditions and no-unexpected-raise.  Sequences have
symbolic length (z3 Seq), numbers are extended reals, domain values / messages are
uninterpreted.  Everything outside the supported subset raises ``Unsupported`` and
the target is reported as *not established* (never as a violation).

What the encoding assumes of Python (the trusted base of U-mode):
 * ``return a if c else b`` and ``x = a if c else b`` are desugared into the equivalent if-statement;
 * statements supported: assignment (names, tuple unpacking, attributes of the abstract
   ``self``), augmented assignment, if/elif/else, for over an abstract sequence, ``while <list>:``
   draining a list with pop(0)/pop(), return, raise, pass, expression statements, try (body only:
   the handlers are unreachable under the stated precondition - recorded in ``drops``);
 * int/float arithmetic is exact extended-real arithmetic (no rounding, no NaN: adding
   opposite infinities is excluded by precondition);
 * ``x.append(v)``, ``[v]``, ``list()``, ``x.pop(0)``, ``len``, truthiness of a list, ``==`` on numbers,
   ``is None`` behave as in CPython; logging / f-strings have no effect on the state;
 * a call to a callee listed in the contract's ``callees`` is replaced by that callee's stated
   contract (modular verification); every other call is ``Unsupported``.
"""
import ast
import inspect
import textwrap
import hashlib
import time
import z3

from .sym import Unsupported

ValSort = z3.DeclareSort("Val")     # opaque python objects: domain values, names, messages ...
ValSeq = z3.SeqSort(ValSort)


class XR:
    """extended real: k in {-1,0,1} (kind), v (finite part, meaningful when k == 0)"""

    def __init__(self, k, v):
        self.k, self.v = k, v

    @staticmethod
    def const(x):
        if x == float("inf"):
            return XR(z3.IntVal(1), z3.RealVal(0))
        if x == -float("inf"):
            return XR(z3.IntVal(-1), z3.RealVal(0))
        return XR(z3.IntVal(0), z3.RealVal(str(x)))

    @staticmethod
    def fresh(name):
        x = XR(z3.Int(name + "!k"), z3.Real(name + "!v"))
        return x, z3.And(x.k >= -1, x.k <= 1)

    def lt(self, o):
        return z3.Or(self.k < o.k, z3.And(self.k == 0, o.k == 0, self.v < o.v))

    def le(self, o):
        return z3.Or(self.lt(o), self.eq(o))

    def eq(self, o):
        return z3.And(self.k == o.k, z3.Or(self.k != 0, self.v == o.v))

    def add(self, o):
        # opposite infinities are excluded by precondition (checked as an obligation by the caller)
        return XR(z3.If(self.k != 0, self.k, o.k), self.v + o.v)

    def neg(self):
        return XR(-self.k, -self.v)

    def defined_sum(self, o):
        return z3.Not(z3.Or(z3.And(self.k == 1, o.k == -1), z3.And(self.k == -1, o.k == 1)))


class Lst:
    """python list of opaque values: z3 Seq(Val)"""

    def __init__(self, s):
        self.s = s


ValSet = z3.ArraySort(ValSort, z3.BoolSort())


class SetLst:
    """python list of opaque values abstracted to the SET of its elements (order and
    multiplicity dropped): sound for contracts that speak about membership only"""

    def __init__(self, a):
        self.a = a

    def has(self, x):
        return z3.Select(self.a, x)


class MapV:
    """python dict with opaque keys: membership predicate + value function (read only)"""

    def __init__(self, name, has, get):
        self.name, self.has, self.get = name, has, get


class Tup:
    def __init__(self, items):
        self.items = list(items)


class NoneV:
    pass


NONE = NoneV()


class Obj:
    """abstract object: attribute map (mutable for ``self``)"""

    def __init__(self, name, attrs=None, has=None):
        self.name = name
        self.attrs = dict(attrs or {})
        self.has = has  # set of attribute names hasattr() answers True for (None: those in attrs)


class Fn:
    """a callee under contract: fn(interp, state, args, kwargs) -> value"""

    def __init__(self, name, fn):
        self.name, self.fn = name, fn


class Raised(Exception):
    def __init__(self, exc_name, state):
        self.exc_name, self.state = exc_name, state


class ForkOn(Exception):
    """raised by a contract hook while evaluating an expression whose outcome depends on a condition
    (dictionary lookup: present / KeyError): the statement is re-executed on the two refined states"""

    def __init__(self, cond, exc_name, tag):
        self.cond, self.exc_name, self.tag = cond, exc_name, tag


class _Return(Exception):
    def __init__(self, value, state):
        self.value, self.state = value, state


class _Break(Exception):
    def __init__(self, state):
        self.state = state


class _Continue(Exception):
    def __init__(self, state):
        self.state = state


class State:
    def __init__(self, env=None, path=None, ghosts=None):
        self.env = dict(env or {})
        self.path = list(path or [])
        self.ghosts = dict(ghosts or {})

    def copy(self):
        s = State(self.env, self.path, self.ghosts)
        # objects with mutable attrs must not be shared between paths
        for k, v in list(s.env.items()):
            if isinstance(v, Obj):
                s.env[k] = Obj(v.name, v.attrs, v.has)
        return s


class LoopSpec:
    def __init__(self, carried, invariant, index=None, seq=None, drains=None, decreases=None):
        """carried: {name: sort} with sort in 'xr' 'int' 'bool' 'lst' 'val' or ('attr', field, sort) / ('ghost', name, sort);
        invariant(st, i) -> z3 Bool, evaluated on a State whose carried variables are fresh;
        seq: name of the abstract sequence the for-loop ranges over (for loops); drains: attribute path of the list a while-loop drains"""
        self.carried = carried
        self.invariant = invariant
        self.seq = seq
        self.drains = drains


class Result:
    def __init__(self):
        self.obligations = []   # dict(name, status, seconds, backend, detail)
        self.drops = []
        self.source_sha = None
        self.error = None

    def ok(self):
        return self.error is None and all(o["status"] == "discharged" for o in self.obligations)


class Interp:
    def __init__(self, fn, spec, timeout_ms=20000):
        self.fn = inspect.unwrap(fn)
        self.spec = spec
        self.timeout_ms = timeout_ms
        self.res = Result()
        self.loop_ordinal = 0
        self.fresh_n = 0
        src = textwrap.dedent(inspect.getsource(self.fn))
        self.res.source_sha = hashlib.sha256(src.encode()).hexdigest()[:16]
        self.tree = ast.parse(src).body[0]
        if not isinstance(self.tree, (ast.FunctionDef,)):
            raise Unsupported("not a function definition")
        loops = sorted((n for n in ast.walk(self.tree) if isinstance(n, (ast.For, ast.While))), key=lambda n: (n.lineno, n.col_offset))
        self.loop_ids = {id(n): i + 1 for i, n in enumerate(loops)}
        self.seen_obl = set()

    # ------------------------------------------------------------ obligations
    def prove(self, name, st, goal, detail=""):
        s = z3.Solver()
        s.set("timeout", self.timeout_ms)
        for c in st.path:
            s.add(c)
        s.add(z3.Not(goal))
        t0 = time.time()
        r = s.check()
        backend = "z3"
        if r == z3.unknown:
            from . import discharge
            v = discharge.cvc5_check(s.to_smt2(), timeout_s=30)
            backend = "cvc5"
            r = {"unsat": z3.unsat, "sat": z3.sat}.get(v, z3.unknown)
        status = "discharged" if r == z3.unsat else ("refuted" if r == z3.sat else "unknown")
        model = None
        if r == z3.sat and backend == "z3":
            try:
                model = str(s.model())[:1500]
            except z3.Z3Exception:
                model = None
        n, base = 1, name
        while name in self.seen_obl:
            n += 1
            name = "%s#%d" % (base, n)
        self.seen_obl.add(name)
        self.res.obligations.append(dict(name=name, status=status, seconds=round(time.time() - t0, 3), backend=backend,
                                         detail=detail, model=model))
        return r == z3.unsat

    def fresh(self, base):
        self.fresh_n += 1
        return "%s!%d" % (base, self.fresh_n)

    def fresh_of(self, sort, base, st):
        n = self.fresh(base)
        if sort == "xr":
            x, c = XR.fresh(n)
            st.path.append(c)
            return x
        if sort == "int":
            return z3.Int(n)
        if sort == "bool":
            return z3.Bool(n)
        if sort == "lst":
            return Lst(z3.Const(n, ValSeq))
        if sort == "set":
            return SetLst(z3.Const(n, ValSet))
        if sort == "val":
            return z3.Const(n, ValSort)
        raise Unsupported("sort " + str(sort))

    # ------------------------------------------------------------ expressions
    def truth(self, v, st):
        """python truthiness -> python bool or z3 Bool"""
        if isinstance(v, bool):
            return v
        if isinstance(v, z3.BoolRef):
            return v
        if isinstance(v, Lst):
            return z3.Length(v.s) > 0
        if isinstance(v, NoneV):
            return False
        if isinstance(v, str):
            return bool(v)
        if isinstance(v, XR):
            return z3.Not(z3.And(v.k == 0, v.v == 0))
        if isinstance(v, z3.ArithRef):
            return v != 0
        if isinstance(v, (Obj, Fn)):
            return True
        raise Unsupported("truthiness of %r" % (v,))

    def num(self, v):
        if isinstance(v, XR):
            return v
        if isinstance(v, (int, float)) and not isinstance(v, bool):
            return XR.const(v)
        if isinstance(v, z3.ArithRef):
            return XR(z3.IntVal(0), z3.ToReal(v) if v.is_int() else v)
        raise Unsupported("not a number: %r" % (v,))

    def eval(self, e, st):
        m = getattr(self, "e_" + type(e).__name__, None)
        if m is None:
            raise Unsupported("expression %s" % type(e).__name__)
        return m(e, st)

    def e_Constant(self, e, st):
        if e.value is None:
            return NONE
        return e.value

    def e_Name(self, e, st):
        if e.id in st.env:
            return st.env[e.id]
        if e.id in self.spec.get("globals", {}):
            return self.spec["globals"][e.id]
        if e.id in ("list", "float", "int", "len", "hasattr", "isinstance", "str", "ValueError", "TypeError", "KeyError", "NameError", "set"):
            return e.id
        raise Unsupported("unknown name %s" % e.id)

    def e_JoinedStr(self, e, st):
        return "<fstring>"

    def e_Tuple(self, e, st):
        return Tup([self.eval(x, st) for x in e.elts])

    def e_List(self, e, st):
        if self.spec.get("list_abstraction") == "set":
            a = z3.K(ValSort, z3.BoolVal(False))
            for x in e.elts:
                v = self.eval(x, st)
                if not (isinstance(v, z3.ExprRef) and v.sort() == ValSort):
                    raise Unsupported("list literal of non-opaque values")
                a = z3.Store(a, v, z3.BoolVal(True))
            return SetLst(a)
        s = z3.Empty(ValSeq)
        for x in e.elts:
            v = self.eval(x, st)
            if not (isinstance(v, z3.ExprRef) and v.sort() == ValSort):
                raise Unsupported("list literal of non-opaque values")
            s = z3.Concat(s, z3.Unit(v))
        return Lst(s)

    def e_UnaryOp(self, e, st):
        v = self.eval(e.operand, st)
        if isinstance(e.op, ast.Not):
            t = self.truth(v, st)
            return (not t) if isinstance(t, bool) else z3.Not(t)
        if isinstance(e.op, ast.USub):
            if isinstance(v, (int, float)):
                return -v
            return self.num(v).neg()
        raise Unsupported("unary op")

    def e_BoolOp(self, e, st):
        vals = [self.truth(self.eval(x, st), st) for x in e.values]   # NB: no side effects in operands of the supported subset
        if isinstance(e.op, ast.And):
            if any(v is False for v in vals):
                return False
            vals = [v for v in vals if v is not True]
            return True if not vals else (vals[0] if len(vals) == 1 else z3.And(*vals))
        if any(v is True for v in vals):
            return True
        vals = [v for v in vals if v is not False]
        return False if not vals else (vals[0] if len(vals) == 1 else z3.Or(*vals))

    def e_Compare(self, e, st):
        left = self.eval(e.left, st)
        out = []
        for op, rc in zip(e.ops, e.comparators):
            right = self.eval(rc, st)
            out.append(self.compare(op, left, right, st))
            left = right
        if all(isinstance(o, bool) for o in out):
            return all(out)
        out = [o for o in out if o is not True]
        if any(o is False for o in out):
            return False
        return out[0] if len(out) == 1 else z3.And(*out)

    def compare(self, op, a, b, st):
        if isinstance(op, (ast.Is, ast.IsNot)):
            if isinstance(b, NoneV) or isinstance(a, NoneV):
                r = isinstance(a, NoneV) and isinstance(b, NoneV)
                return r if isinstance(op, ast.Is) else not r
            raise Unsupported("is on non-None")
        if isinstance(a, str) and isinstance(b, str):
            r = {ast.Eq: a == b, ast.NotEq: a != b}.get(type(op))
            if r is None:
                raise Unsupported("string ordering")
            return r
        if isinstance(a, (NoneV,)) or isinstance(b, (NoneV,)):
            if isinstance(op, ast.Eq):
                return isinstance(a, NoneV) and isinstance(b, NoneV)
            if isinstance(op, ast.NotEq):
                return not (isinstance(a, NoneV) and isinstance(b, NoneV))
            raise Unsupported("ordering with None")
        if isinstance(a, z3.ExprRef) and a.sort() == ValSort and isinstance(b, z3.ExprRef) and b.sort() == ValSort:
            if isinstance(op, ast.Eq):
                return a == b
            if isinstance(op, ast.NotEq):
                return a != b
            raise Unsupported("ordering of opaque values")
        if isinstance(a, (bool, z3.BoolRef)) and isinstance(b, (bool, z3.BoolRef)) and isinstance(op, (ast.Eq, ast.NotEq)):
            if isinstance(a, bool) and isinstance(b, bool):
                return (a == b) if isinstance(op, ast.Eq) else (a != b)
            ta = z3.BoolVal(a) if isinstance(a, bool) else a
            tb = z3.BoolVal(b) if isinstance(b, bool) else b
            return (ta == tb) if isinstance(op, ast.Eq) else (ta != tb)
        if isinstance(op, (ast.In, ast.NotIn)):
            hook = self.spec.get("contains")
            if hook is None:
                raise Unsupported("'in' without a model")
            r = hook(self, st, a, b)
            return r if isinstance(op, ast.In) else (not r if isinstance(r, bool) else z3.Not(r))
        x, y = self.num(a), self.num(b)
        if isinstance(op, ast.Lt):
            return x.lt(y)
        if isinstance(op, ast.Gt):
            return y.lt(x)
        if isinstance(op, ast.LtE):
            return x.le(y)
        if isinstance(op, ast.GtE):
            return y.le(x)
        if isinstance(op, ast.Eq):
            return x.eq(y)
        if isinstance(op, ast.NotEq):
            return z3.Not(x.eq(y))
        raise Unsupported("comparison")

    def e_BinOp(self, e, st):
        a, b = self.eval(e.left, st), self.eval(e.right, st)
        if isinstance(e.op, ast.Add):
            if isinstance(a, str) or isinstance(b, str):
                return "<str>"
            if isinstance(a, z3.ArithRef) and isinstance(b, (int, z3.ArithRef)) and not isinstance(b, bool):
                return a + b
            x, y = self.num(a), self.num(b)
            self.prove("sum-of-opposite-infinities-excluded@%d" % e.lineno, st, x.defined_sum(y))
            return x.add(y)
        if isinstance(e.op, ast.Sub):
            x, y = self.num(a), self.num(b).neg()
            return x.add(y)
        raise Unsupported("binary op %s" % type(e.op).__name__)

    def e_Attribute(self, e, st):
        base = self.eval(e.value, st)
        if isinstance(base, Obj):
            if e.attr in base.attrs:
                return base.attrs[e.attr]
            raise Unsupported("attribute %s.%s" % (base.name, e.attr))
        if isinstance(base, (Lst, SetLst)):
            return ("listmethod", e.value, e.attr)
        if isinstance(base, z3.ExprRef) and base.sort() == ValSort and self.spec.get("attr_val") is not None:
            return self.spec["attr_val"](self, st, base, e.attr)
        if isinstance(base, str) and e.attr == "format":
            return Fn("str.format", lambda it, s, a, k: "<str>")
        raise Unsupported("attribute on %r" % (base,))

    def e_Subscript(self, e, st):
        base = self.eval(e.value, st)
        idx = self.eval(e.slice, st)
        if isinstance(base, MapV):
            if not (isinstance(idx, z3.ExprRef) and idx.sort() == ValSort):
                raise Unsupported("map key")
            known = st.ghosts.get("known", set())
            tag = "%s[%s]" % (base.name, idx)
            if (tag, True) in known:
                return base.get(idx)
            if (tag, False) in known:
                raise Unsupported("lookup of a key known to be absent")
            raise ForkOn(base.has(idx), "KeyError", tag)
        hook = self.spec.get("subscript")
        if hook is not None:
            r = hook(self, st, base, idx)
            if r is not None:
                return r
        raise Unsupported("subscript")

    def e_Call(self, e, st):
        f = self.eval(e.func, st)
        args = [self.eval(a, st) for a in e.args]
        kwargs = {}
        for k in e.keywords:
            if k.arg is None:
                kwargs["**"] = self.eval(k.value, st)
            else:
                kwargs[k.arg] = self.eval(k.value, st)
        if isinstance(f, Fn):
            return f.fn(self, st, args, kwargs)
        if isinstance(f, z3.ExprRef) and f.sort() == ValSort and self.spec.get("call_val") is not None:
            return self.spec["call_val"](self, st, f, args, kwargs)
        if f == "len" and len(args) == 1 and isinstance(args[0], Obj) and self.spec.get("len") is not None:
            return self.spec["len"](self, st, args[0])
        if f == "set":
            return "<set>"
        if f == "list" and not args:
            if self.spec.get("list_abstraction") == "set":
                return SetLst(z3.K(ValSort, z3.BoolVal(False)))
            return Lst(z3.Empty(ValSeq))
        if f == "list" and len(args) == 1 and isinstance(args[0], Lst):
            return Lst(args[0].s)
        if f == "float" and len(args) == 1:
            if isinstance(args[0], str) and args[0] in ("inf", "+inf", "-inf"):
                return float(args[0])
            if isinstance(args[0], XR):
                return args[0]
        if f in ("int", "float") and len(args) == 1 and self.spec.get("convert") is not None:
            return self.spec["convert"](self, st, f, args[0])
        if f == "len" and len(args) == 1 and isinstance(args[0], Lst):
            return z3.Length(args[0].s)
        if f == "str":
            return "<str>"
        if f == "hasattr" and len(args) == 2 and isinstance(args[0], Obj) and isinstance(args[1], str):
            o = args[0]
            return args[1] in (o.has if o.has is not None else o.attrs)
        if f == "hasattr" and len(args) == 2 and isinstance(args[0], Fn) and isinstance(args[1], str):
            return args[1] in getattr(args[0], "has", ())   # a plain callable
        if isinstance(f, tuple) and f[0] == "listmethod":
            return self.list_method(f[1], f[2], args, st)
        raise Unsupported("call of %r" % (f,))

    def list_method(self, target_expr, meth, args, st):
        lst = self.eval(target_expr, st)
        if isinstance(lst, SetLst):
            if meth == "append" and len(args) == 1 and isinstance(args[0], z3.ExprRef) and args[0].sort() == ValSort:
                self.assign(target_expr, SetLst(z3.Store(lst.a, args[0], z3.BoolVal(True))), st)
                return NONE
            raise Unsupported("list method %s under the set abstraction" % meth)
        if meth == "append" and len(args) == 1:
            v = args[0]
            if isinstance(v, Tup) and self.spec.get("pack") is not None:
                v = self.spec["pack"](self, st, v)
            if not (isinstance(v, z3.ExprRef) and v.sort() == ValSort):
                raise Unsupported("append of a non-opaque value")
            self.assign(target_expr, Lst(z3.Concat(lst.s, z3.Unit(v))), st)
            return NONE
        if meth == "pop":
            n = z3.Length(lst.s)
            if not self.prove("pop-from-non-empty-list@%d" % target_expr.lineno, st, n > 0):
                pass
            if len(args) == 1 and args[0] == 0:
                x = lst.s[0]
                self.assign(target_expr, Lst(z3.SubSeq(lst.s, 1, n - 1)), st)
                return x
            if not args:
                x = lst.s[n - 1]
                self.assign(target_expr, Lst(z3.SubSeq(lst.s, 0, n - 1)), st)
                return x
        if meth == "clear" and not args:
            self.assign(target_expr, Lst(z3.Empty(ValSeq)), st)
            return NONE
        raise Unsupported("list method %s" % meth)

    # ------------------------------------------------------------ statements
    def assign(self, target, value, st):
        if isinstance(target, ast.Name):
            st.env[target.id] = value
        elif isinstance(target, ast.Tuple):
            if isinstance(value, Tup) and len(value.items) == len(target.elts):
                for t, v in zip(target.elts, value.items):
                    self.assign(t, v, st)
            else:
                hook = self.spec.get("unpack")
                if hook is None:
                    raise Unsupported("tuple unpacking of %r" % (value,))
                vals = hook(self, st, value, len(target.elts))
                for t, v in zip(target.elts, vals):
                    self.assign(t, v, st)
        elif isinstance(target, ast.Attribute):
            base = self.eval(target.value, st)
            if not isinstance(base, Obj):
                raise Unsupported("attribute store on %r" % (base,))
            frame = self.spec.get("frame")
            if frame is not None and target.attr not in frame:
                self.res.obligations.append(dict(name="frame:%s.%s-not-assignable@%d" % (base.name, target.attr, target.lineno),
                                                 status="refuted", seconds=0, backend="syntactic", detail="", model=None))
            base.attrs[target.attr] = value
        elif isinstance(target, ast.Subscript):
            hook = self.spec.get("store")
            if hook is None:
                raise Unsupported("subscript store")
            hook(self, st, self.eval(target.value, st), self.eval(target.slice, st), value)
        else:
            raise Unsupported("assignment target")

    def run_block(self, stmts, st):
        """executes a block on one state; returns the list of states that fall through"""
        states = [st]
        for s in stmts:
            nxt = []
            for cur in states:
                nxt.extend(self.run_stmt(s, cur))
            states = nxt
            if not states:
                break
        return states

    def feasible(self, st):
        s = z3.Solver()
        s.set("timeout", 5000)
        for c in st.path:
            s.add(c)
        return s.check() != z3.unsat

    def run_stmt(self, s, st):
        m = getattr(self, "s_" + type(s).__name__, None)
        if m is None:
            raise Unsupported("statement %s" % type(s).__name__)
        return m(s, st)

    def s_Pass(self, s, st):
        return [st]

    def s_Expr(self, s, st):
        if isinstance(s.value, ast.Constant):
            return [st]   # docstring
        if isinstance(s.value, ast.Call) and self.is_logging(s.value):
            return [st]
        self.eval(s.value, st)
        return [st]

    def is_logging(self, call):
        f = call.func
        return isinstance(f, ast.Attribute) and isinstance(f.value, ast.Attribute) and f.value.attr == "logger" or \
            (isinstance(f, ast.Attribute) and isinstance(f.value, ast.Name) and f.value.id in ("logger", "logging"))

    def s_Assign(self, s, st):
        v = self.eval(s.value, st)
        # containers are modelled as values: binding a second name to an existing mutable container (x = self.buf) would
        # make later in-place updates through one name invisible through the other - outside the supported subset
        if isinstance(v, (Lst, SetLst, MapV)) and isinstance(s.value, (ast.Name, ast.Attribute)):
            raise Unsupported("aliasing of a mutable container (%s)" % ast.unparse(s.value))
        for t in s.targets:
            self.assign(t, v, st)
        return [st]

    def s_AugAssign(self, s, st):
        cur = self.eval(s.target, st)
        rhs = self.eval(s.value, st)
        if isinstance(s.op, ast.Add):
            if isinstance(cur, z3.ArithRef) and cur.is_int() and isinstance(rhs, int):
                new = cur + rhs
            elif isinstance(cur, int) and isinstance(rhs, int) and not isinstance(cur, bool):
                new = cur + rhs
            else:
                x, y = self.num(cur), self.num(rhs)
                self.prove("sum-of-opposite-infinities-excluded@%d" % s.lineno, st, x.defined_sum(y))
                new = x.add(y)
        else:
            raise Unsupported("augmented op")
        self.assign(s.target, new, st)
        return [st]

    def s_If(self, s, st):
        c = self.truth(self.eval(s.test, st), st)
        if isinstance(c, bool):
            return self.run_block(s.body if c else s.orelse, st)
        out = []
        st_t = st.copy()
        st_t.path.append(c)
        if self.feasible(st_t):
            out.extend(self.run_block(s.body, st_t))
        st_f = st.copy()
        st_f.path.append(z3.Not(c))
        if self.feasible(st_f):
            out.extend(self.run_block(s.orelse, st_f))
        return out

    def s_Return(self, s, st):
        raise _Return(self.eval(s.value, st) if s.value is not None else NONE, st)

    def s_Raise(self, s, st):
        name = "Exception"
        e = s.exc
        if isinstance(e, ast.Call) and isinstance(e.func, ast.Name):
            name = e.func.id
        elif isinstance(e, ast.Name):
            name = e.id
        raise Raised(name, st)

    def s_Break(self, s, st):
        raise _Break(st)

    def s_Continue(self, s, st):
        raise _Continue(st)

    def s_Try(self, s, st):
        self.res.drops.append("try/except at line %d: handlers %s not modelled (unreachable under the stated precondition)"
                              % (s.lineno, [ast.unparse(h.type) if h.type else "bare" for h in s.handlers]))
        if s.finalbody or s.orelse:
            raise Unsupported("try with else/finally")
        return self.run_block(s.body, st)

    # ---- loops
    def havoc(self, spec, st):
        for name, sort in spec.carried.items():
            if isinstance(sort, tuple) and sort[0] == "attr":
                _, objname, field, srt = sort
                st.env[objname].attrs[field] = self.fresh_of(srt, name, st)
            elif isinstance(sort, tuple) and sort[0] == "ghost":
                st.ghosts[sort[1]] = self.fresh_of(sort[2], name, st)
            else:
                st.env[name] = self.fresh_of(sort, name, st)

    def forget(self, names, st):
        """names assigned in a loop body but not carried by the invariant (loop-local temporaries, for-targets): outside one
        iteration their value is unknown - the pre-loop value after zero iterations, the last iteration's otherwise. They get a
        fresh value of the sort they had before the loop, or become unbound (reading them is then Unsupported)."""
        for nme in names:
            if nme not in st.env:
                continue
            v = st.env[nme]
            if isinstance(v, bool) or isinstance(v, z3.BoolRef):
                srt = "bool"
            elif isinstance(v, int) or (isinstance(v, z3.ArithRef) and v.is_int()):
                srt = "int"
            elif isinstance(v, (float, XR)):
                srt = "xr"
            elif isinstance(v, SetLst):
                srt = "set"
            elif isinstance(v, Lst):
                srt = "lst"
            elif isinstance(v, z3.ExprRef) and v.sort() == ValSort:
                srt = "val"
            else:
                del st.env[nme]
                continue
            st.env[nme] = self.fresh_of(srt, nme, st)

    def assigned_names(self, stmts):
        out = set()
        for node in ast.walk(ast.Module(body=list(stmts), type_ignores=[])):
            if isinstance(node, ast.Name) and isinstance(node.ctx, ast.Store):
                out.add(node.id)
        return out

    def loop(self, s, st, is_for):
        k = self.loop_ids[id(s)]   # ordinal of the loop in source order (stable across paths)
        spec = self.spec["loops"].get(k)
        if spec is None:
            raise Unsupported("loop %d has no invariant in the sidecar" % k)
        if s.orelse:
            raise Unsupported("loop else")
        # the loop-carried set is derived from the code and must be covered by the sidecar
        assigned = self.assigned_names(s.body)
        if is_for:
            assigned |= self.assigned_names([ast.Assign(targets=[s.target], value=ast.Constant(0))]) if False else set()
        plain = {n for n, srt in spec.carried.items() if not isinstance(srt, tuple)}
        loopvars = {n.id for n in ast.walk(s.target) if isinstance(n, ast.Name)} if is_for else set()
        locals_only = set(self.spec.get("loop_locals", {}).get(k, []))
        missing = assigned - plain - loopvars - locals_only
        if missing:
            raise Unsupported("loop %d assigns %s which the sidecar does not declare as carried/local" % (k, sorted(missing)))
        if is_for:
            seq = self.eval(s.iter, st)
            if not isinstance(seq, Lst):
                raise Unsupported("for over a non-sequence")
            n = z3.Length(seq.s)
        # 1. invariant holds on entry (i = 0)
        self.prove("loop%d.invariant-on-entry" % k, st, spec.invariant(self, st, z3.IntVal(0)))
        # 2. preservation: arbitrary iteration
        st_i = st.copy()
        i = z3.Int(self.fresh("i"))
        self.havoc(spec, st_i)
        self.forget(sorted((assigned - plain) | loopvars), st_i)
        st_i.path.append(i >= 0)
        st_i.path.append(spec.invariant(self, st_i, i))
        exits = []   # states leaving the loop through break
        dec = self.spec.get("decreases", {}).get(k)
        if is_for:
            st_i.path.append(i < n)
            self.assign(s.target, seq.s[i], st_i)
            body_entry = [st_i]
        else:
            c = self.truth(self.eval(s.test, st_i), st_i)
            if isinstance(c, bool):
                raise Unsupported("while with a constant test")
            st_i.path.append(c)
            body_entry = [st_i]
        dec0 = dec(self, st_i) if dec is not None else None   # value of the variant before the body runs
        ends = []
        self.pending_outcomes = getattr(self, "pending_outcomes", [])
        for b in body_entry:
            for kind, val, fst in self.exec_paths(s.body, b):
                if kind in ("fall", "continue"):
                    ends.append(fst)
                elif kind == "break":
                    exits.append(fst)
                else:   # return / raise inside the loop body: an outcome of the function itself
                    self.pending_outcomes.append((kind, val, fst))
        for j, e in enumerate(ends):
            self.prove("loop%d.invariant-preserved[path %d]" % (k, j), e, spec.invariant(self, e, i + 1))
            if not is_for and dec is not None:
                self.prove("loop%d.variant-decreases[path %d]" % (k, j), e, z3.And(dec(self, e) < dec0, dec0 >= 0))
        # 3. exit: havoc again, invariant + negated guard
        st_x = st.copy()
        self.havoc(spec, st_x)
        self.forget(sorted((assigned - plain) | loopvars), st_x)
        if is_for:
            st_x.path.append(spec.invariant(self, st_x, n))
        else:
            j = z3.Int(self.fresh("iters"))
            st_x.path.append(j >= 0)
            st_x.path.append(spec.invariant(self, st_x, j))
            c = self.truth(self.eval(s.test, st_x), st_x)
            st_x.path.append(z3.Not(c))
        return [st_x] + exits

    def s_For(self, s, st):
        return self.loop(s, st, True)

    def s_While(self, s, st):
        return self.loop(s, st, False)

    # ------------------------------------------------------------ driver
    def run(self):
        spec = self.spec
        st = State(spec["env"](self))
        for c in spec.get("requires", lambda it, s: [])(self, st):
            st.path.append(c)
        if not self.feasible(st):
            self.res.error = "vacuous: precondition unsatisfiable"
            return self.res
        finals = []
        self.pending_outcomes = []
        try:
            finals = self.exec_paths(self.tree.body, st)
            finals = [(("return", NONE, f[2]) if f[0] == "fall" else f) for f in finals] + self.pending_outcomes
        except Unsupported as e:
            self.res.error = "Unsupported: %s" % e
            return self.res
        n_ret = 0
        for kind, val, fst in finals:
            if kind == "return":
                n_ret += 1
                goal = spec["ensures"](self, fst, val)
                self.prove("post[return %d]" % n_ret, fst, goal)
            elif kind == "raise":
                allowed = spec.get("raises", {})
                if val in allowed:
                    self.prove("raises-%s-only-when-allowed" % val, fst, allowed[val](self, fst))
                else:
                    self.prove("no-unexpected-raise(%s)" % val, fst, z3.BoolVal(False))
        if n_ret == 0 and not self.res.error:
            self.res.error = "vacuous: no path reaches a return"
        return self.res

    def exec_paths(self, stmts, st):
        """all paths through a statement list: [(kind, value, state)] with kind in
        fall / continue / break / return / raise.  An ``if`` forks; the sibling states are queued with the
        rest of the block so that an early return on one path does not lose the others."""
        finals = []
        work = [(list(stmts), st)]
        outer_carry = getattr(self, "carry", None)
        self.carry = []
        while work:
            block, cur = work.pop()
            try:
                for o in self.exec_seq(block, cur, work):
                    finals.append(("fall", NONE, o))
            except _Return as r:
                finals.append(("return", r.value, r.state))
            except Raised as r:
                finals.append(("raise", r.exc_name, r.state))
            except _Break as b:
                finals.append(("break", None, b.state))
            except _Continue as c:
                finals.append(("continue", None, c.state))
        finals.extend(self.carry)
        self.carry = outer_carry if outer_carry is not None else []
        return finals

    def exec_seq(self, block, st, work):
        cur = st
        for idx, s in enumerate(block):
            rest = block[idx + 1:]
            if isinstance(s, (ast.Return, ast.Assign)) and isinstance(s.value, ast.IfExp):
                # ``return a if c else b`` / ``x = a if c else b``: the same as the if-statement (c is evaluated first, then only
                # the selected branch) - desugared so that the fork is a path fork
                def _with(v, s=s):
                    n = ast.Return(value=v) if isinstance(s, ast.Return) else ast.Assign(targets=s.targets, value=v)
                    return ast.copy_location(n, s)
                s = ast.copy_location(ast.If(test=s.value.test, body=[_with(s.value.body)], orelse=[_with(s.value.orelse)]), s)
            if isinstance(s, ast.If):
                c = self.truth(self.eval(s.test, cur), cur)
                if isinstance(c, bool):
                    work.append((list(s.body if c else s.orelse) + rest, cur))
                    return []
                st_t = cur.copy()
                st_t.path.append(c)
                st_f = cur.copy()
                st_f.path.append(z3.Not(c))
                if self.feasible(st_f):
                    work.append((list(s.orelse) + rest, st_f))
                if self.feasible(st_t):
                    work.append((list(s.body) + rest, st_t))
                return []
            if isinstance(s, ast.Try):
                if s.finalbody or s.orelse:
                    raise Unsupported("try with else/finally")
                names = {}
                for h in s.handlers:
                    if h.type is None or h.name is not None and any(isinstance(n, ast.Name) and n.id == h.name for b in h.body for n in ast.walk(b)):
                        self.res.drops.append("try/except at line %d: handler %s binds/uses the exception object - body only" % (s.lineno, ast.unparse(h.type) if h.type else "bare"))
                        continue
                    tnames = [ast.unparse(t) for t in (h.type.elts if isinstance(h.type, ast.Tuple) else [h.type])]
                    for t in tnames:
                        names[t] = h
                for kind, val, fst in self.exec_paths(s.body, cur):
                    if kind == "fall":
                        work.append((rest, fst))
                    elif kind == "raise" and val in names:
                        work.append((list(names[val].body) + rest, fst))
                    else:
                        self.carry.append((kind, val, fst))
                return []
            try:
                snapshot = cur.copy()
                outs = self.run_stmt(s, cur)
            except ForkOn as fk:
                # re-execute this statement on the two refinements of the state before it
                ok = snapshot.copy()
                ok.path.append(fk.cond)
                ok.ghosts.setdefault("known", set())
                ok.ghosts["known"] = set(ok.ghosts["known"]) | {(fk.tag, True)}
                ko = snapshot.copy()
                ko.path.append(z3.Not(fk.cond))
                ko.ghosts["known"] = set(ko.ghosts.get("known", set())) | {(fk.tag, False)}
                if self.feasible(ko):
                    work.append(([ast.Raise(exc=ast.Name(id=fk.exc_name, ctx=ast.Load()), cause=None)] + rest, ko))
                if self.feasible(ok):
                    work.append(([s] + rest, ok))
                return []
            if len(outs) == 1:
                cur = outs[0]
            else:
                for o in outs:
                    work.append((rest, o))
                return []
        return [cur]


def verify(fn, spec, timeout_ms=20000):
    it = Interp(fn, spec, timeout_ms)
    return it.run()
