"""check CLI back end: run every contract serving a property, replay counter
models natively, write evidence, print VIOLATION / KNOWN-FINDING lines.

exit codes: 0 held · 1 violation · 2 undecided · 3 checker error (DESIGN.md 2.7)
"""
import os
import sys
import json
import time
import signal
import hashlib
import traceback
import multiprocessing as mp

ROOT = os.path.dirname(os.path.dirname(os.path.abspath(__file__)))
if ROOT not in sys.path:
    sys.path.insert(0, ROOT)

from pvc import contract as C  # noqa: E402

LEVELS = json.load(open(os.path.join(ROOT, "levels.json"))) if os.path.exists(os.path.join(ROOT, "levels.json")) else {}


def _job_worker(conn, cid, params, tier, seed, concrete, prop=None, sample=0, queue=None, slice_paths=None):
    """runs in a forked child"""
    try:
        import logging
        logging.disable(logging.CRITICAL)
        sys.setrecursionlimit(max(sys.getrecursionlimit(), 3000))
        from pvc.explore import Explorer
        reg = C.load_all()
        ct = reg[cid]
        b = dict(max_paths=20000, timeout_s=240.0, solver_timeout_ms=10000)
        if tier == "thorough":
            b = dict(max_paths=400000, timeout_s=1500.0, solver_timeout_ms=60000)
        b.update(ct.budget.get(tier, {}))
        b["timeout_s"] = b["timeout_s"] * _load_factor()
        if params.get("search_paths"):
            # a shape too large to exhaust: a bounded depth-first search of the first N paths (deterministic order); reaching
            # the bound is not "undecided", the shape simply claims no exhaustiveness (listed under partial_shapes in the evidence)
            b["max_paths"] = int(params["search_paths"])
        p = dict(params)
        p["_tier"] = tier
        p["_seed"] = seed
        ex = Explorer(ct.harness, params=p, seed=seed, initial_queue=queue, slice_paths=slice_paths, **b)
        if prop:
            ex.ignore_label = lambda lab, _p=prop: _other_prop(lab, _p)
            ex.known_labels = {k.get("label") for k in load_known().get("findings", [])
                               if k.get("property") == prop and k.get("contract") == cid and k.get("label")}
        t0 = time.time()
        if sample:
            from pvc.explore import Sampler
            fails, nrun, nab, err, obl = [], 0, 0, None, {}
            tlim = (60 if tier == "quick" else 300) * _load_factor()
            for i in range(sample):
                if time.time() - t0 > tlim:
                    break
                sub = ex.run_concrete({}, [], sampler=Sampler(seed * 1000003 + i + 15485863 * int(params.get("sample_part", 0)), ct.budget.get("sample_max_mag")))
                nrun += 1
                nab += sub.aborted
                for k, v in sub.obl_count.items():
                    obl[k] = obl.get(k, 0) + v
                if sub.error:
                    err = sub.error
                    break
                sseed = seed * 1000003 + i + 15485863 * int(params.get("sample_part", 0))
                new = [f for f in sub.failures if f.label not in ex.known_labels]
                if new:
                    fj = new[0].to_json()
                    if i > 0:
                        fj["prelude_sample"] = sseed - 1      # the run just before it in this process
                    fails = fails + [fj]
                    break
                for f in sub.failures:
                    if not any(x["label"] == f.label for x in fails):
                        fj = f.to_json()
                        if i > 0:
                            fj["prelude_sample"] = sseed - 1
                        fails.append(fj)
            out = dict(failures=fails, error=err, obligations=obl, aborted=nab, sampled_runs=nrun, paths=0)
        elif concrete is not None:
            if concrete.get("prelude"):
                # the exploration ran this path after others in one process: repeat one earlier run of the same harness
                # (all-default inputs) first, so that state the code keeps between runs is present as it was
                try:
                    if concrete.get("prelude_sample") is not None:
                        from pvc.explore import Sampler
                        Explorer(ct.harness, params=p, seed=seed).run_concrete(
                            {}, [], sampler=Sampler(concrete["prelude_sample"], ct.budget.get("sample_max_mag")))
                    else:
                        Explorer(ct.harness, params=p, seed=seed).run_concrete({}, list(concrete.get("prelude_choices") or []))
                except BaseException:  # noqa - not judged
                    pass
            sub = ex.run_concrete(concrete["inputs"], concrete["choices"])
            out = dict(failures=[f.to_json() for f in sub.failures], error=sub.error,
                       obligations=sub.obl_count, aborted=sub.aborted)
        else:
            ex.run_all(stop_at_first_failure=False if ct.budget.get("all_failures") else True)
            out = dict(paths=ex.paths, aborted=ex.aborted, obligations=ex.obl_count,
                       failures=[f.to_json() for f in ex.failures], error=ex.error,
                       budget_exhausted=ex.budget_exhausted, vc=ex.vc_stats,
                       covered=ex.covered, samples=ex.samples, symbols=len(ex.symbols),
                       unknown_branches=ex.unknown_branches, notes=ex.notes,
                       frontier=[list(pf) for pf in ex.queue] if ex.sliced else [],
                       max_paths=b["max_paths"], timeout_s=b["timeout_s"], partial_ok=bool(params.get("search_paths")))
        out["wall"] = time.time() - t0
        conn.send(out)
    except BaseException as e:  # noqa
        conn.send(dict(error="worker crashed: %r\n%s" % (e, traceback.format_exc(limit=15)), failures=[],
                       obligations={}, paths=0, wall=0))
    finally:
        conn.close()


SLICE = int(os.environ.get("VERIF_SLICE", "1200"))


def _merge(a, b):
    """merge the result of a continuation slice into the root job's result"""
    if a is None:
        return b
    for k in ("paths", "aborted", "unknown_branches", "wall", "sampled_runs"):
        a[k] = a.get(k, 0) + b.get(k, 0)
    for k in ("obligations", "covered", "vc"):
        d = a.setdefault(k, {}) if a.get(k) is not None else {}
        a[k] = d
        for kk, v in (b.get(k) or {}).items():
            d[kk] = d.get(kk, 0) + v
    a["failures"] = (a.get("failures") or []) + (b.get("failures") or [])
    a["error"] = a.get("error") or b.get("error")
    a["budget_exhausted"] = bool(a.get("budget_exhausted") or b.get("budget_exhausted"))
    a["hard_timeout"] = bool(a.get("hard_timeout") or b.get("hard_timeout"))
    a["samples"] = ((a.get("samples") or []) + (b.get("samples") or []))[:3]
    a["symbols"] = max(a.get("symbols", 0), b.get("symbols", 0))
    a["notes"] = (a.get("notes") or []) + [n for n in (b.get("notes") or []) if n not in (a.get("notes") or [])]
    return a


def _known_labels(prop, cid):
    return {k.get("label") for k in load_known().get("findings", [])
            if k.get("property") == prop and k.get("contract") == cid and k.get("label")}


_LOAD_FACTOR = None


def _load_factor():
    """wall-clock budgets are sized for an otherwise idle 16-core machine: when other work shares the cores (load average
    above the core count at the start of the run) the time limits are stretched accordingly, so that a verdict does not
    flip to 'undecided' because of the neighbours; the path budgets (max_paths) are unaffected"""
    global _LOAD_FACTOR
    if _LOAD_FACTOR is None:
        try:
            _LOAD_FACTOR = min(6.0, max(1.0, os.getloadavg()[0] / float(os.cpu_count() or 16)))
        except OSError:
            _LOAD_FACTOR = 1.0
    return _LOAD_FACTOR


def run_jobs(jobs, nproc, hard_timeout):
    """jobs: list of dict(cid, params, tier, seed, concrete|sample).  A symbolic job is
    explored in slices: a worker explores SLICE paths and hands its remaining
    frontier (decision-vector prefixes) back; the frontier is split over the idle
    workers.  Returns one merged result per job, in order."""
    ctx = mp.get_context("fork")
    results = [None] * len(jobs)
    pending = [dict(j, root=i) for i, j in enumerate(jobs)]
    running = {}
    root_t0 = {}
    root_done = set()
    tick = 0
    while pending or running:
        while pending and len(running) < nproc:
            j = pending.pop(0)
            if j["root"] in root_done:
                continue
            root_t0.setdefault(j["root"], time.time())
            pc, cc = ctx.Pipe(duplex=False)
            symbolic = not j.get("concrete") and not j.get("sample")
            pr = ctx.Process(target=_job_worker, args=(cc, j["cid"], j["params"], j["tier"], j["seed"], j.get("concrete"),
                                                       j.get("prop"), j.get("sample", 0), j.get("queue"),
                                                       SLICE if symbolic else None))
            pr.start()
            cc.close()
            tick += 1
            running[tick] = (pr, pc, time.time(), j)
        time.sleep(0.01)
        for i in list(running):
            pr, pc, t0, j = running[i]
            root = j["root"]
            r = None
            if pc.poll():
                try:
                    r = pc.recv()
                except EOFError:
                    r = dict(error="worker died without result", failures=[], obligations={}, paths=0, wall=time.time() - t0)
                pr.join(5)
                if pr.is_alive():
                    pr.kill()
            elif not pr.is_alive():
                # the child may have sent its result and exited between the two tests above
                if pc.poll(0.5):
                    try:
                        r = pc.recv()
                    except EOFError:
                        r = None
                if r is None:
                    r = dict(error="worker died (exit %s)" % pr.exitcode, failures=[], obligations={}, paths=0, wall=time.time() - t0)
            elif time.time() - t0 > hard_timeout:
                pr.kill()
                pr.join(5)
                r = dict(error=None, hard_timeout=True, failures=[], obligations={}, paths=0, wall=time.time() - t0,
                         budget_exhausted=True)
            if r is None:
                continue
            del running[i]
            frontier = r.pop("frontier", None) or []
            results[root] = _merge(results[root], r)
            agg = results[root]
            if frontier and root not in root_done:
                kl = _known_labels(j.get("prop"), j["cid"])
                stop = any(f["label"] not in kl for f in (agg.get("failures") or [])) or bool(agg.get("error"))
                over = agg.get("paths", 0) >= r.get("max_paths", 10 ** 9) or (time.time() - root_t0[root]) > r.get("timeout_s", 10 ** 9)
                if stop:
                    root_done.add(root)
                elif over and r.get("partial_ok"):
                    agg["partial"] = True
                    root_done.add(root)
                elif over:
                    agg["budget_exhausted"] = True
                    root_done.add(root)
                else:
                    nchunks = max(1, min(len(frontier), nproc))
                    chunks = [frontier[k::nchunks] for k in range(nchunks)]
                    for ch in chunks:
                        pending.append(dict(j, queue=ch))
    return results


def load_known():
    p = os.path.join(ROOT, "known_findings.json")
    if os.path.exists(p):
        return json.load(open(p))
    return {"findings": [], "fixed": []}


def load_baseline():
    p = os.path.join(ROOT, "baseline_obligations.json")
    if os.path.exists(p):
        return json.load(open(p))
    return {}


def finding_matches(kf, prop, cid, params, failure):
    """a known finding names property, contract, label (prefix) and optionally a
    params subset and a choices prefix: it identifies the specific failing case"""
    if kf.get("property") != prop or kf.get("contract") != cid:
        return False
    if kf.get("label") and failure["label"] != kf["label"]:
        return False
    for k, v in (kf.get("params") or {}).items():
        if params.get(k) != v:
            return False
    return True


def _preimport():
    """import the heavy modules once in the parent so forked workers inherit them
    (failures are left to the workers, where they become obligations)"""
    import logging
    logging.disable(logging.CRITICAL)
    for m in ("z3", "numpy", "pvc.explore", "pvc.models", "pydcop.dcop.relations", "pydcop.dcop.dcop", "pydcop.dcop.objects",
              "pydcop.infrastructure.computations", "pydcop.algorithms", "pydcop.computations_graph.constraints_hypergraph",
              "pydcop.computations_graph.factor_graph", "pydcop.computations_graph.pseudotree",
              "pydcop.computations_graph.ordered_graph"):
        try:
            __import__(m)
        except BaseException:  # noqa
            pass


def _shapes(c, tier, prop):
    """a contract may offer a property-specific (usually lighter) shape list: shapes(tier, prop)"""
    import inspect
    try:
        n = len(inspect.signature(c.shapes).parameters)
    except (TypeError, ValueError):
        n = 1
    return c.shapes(tier, prop) if n >= 2 else c.shapes(tier)


def check_property(prop, tier="quick", seed=0, only=None, verbose=False, record_baseline=False):
    t_start = time.time()
    reg = C.load_all()
    _preimport()
    cts = [c for c in reg.values() if prop in c.serves and (only is None or c.cid in only)]
    if C.LOAD_ERRORS:
        for k, v in C.LOAD_ERRORS.items():
            print("CONTRACT-FILE-ERROR %s: %s" % (k, v))
        # a contract file that does not load may hold contracts of this property: never report 'held' on a partial registry
        print("CHECKER-ERROR the contract registry is incomplete")
        return 3
    if not cts:
        print("no contract serves", prop)
        return 3
    jobs = []
    shapes_of = {c.cid: _shapes(c, tier, prop) for c in cts}
    for c in cts:
        for p in shapes_of[c.cid]:
            if p.get("sample_only"):
                continue   # a shape too large for exhaustive path exploration: decided by the sampled native pass only
            jobs.append(dict(cid=c.cid, params=p, tier=tier, seed=seed, prop=prop))
    # sampled native pass (plain CPython numbers, unpatched code): catches what the exact-real
    # proxies cannot see (float rounding, operations outside the proxy model)
    nsample = int(os.environ.get("VERIF_SAMPLES", "120" if tier == "quick" else "1500"))
    for c in cts:
        if c.mode in ("B", "U") and not c.budget.get("no_sampling"):
            for p in shapes_of[c.cid]:
                jobs.append(dict(cid=c.cid, params=p, tier=tier, seed=seed, prop=prop, sample=nsample * int(p.get("sample_factor", 1))))
    nproc = int(os.environ.get("VERIF_NPROC", "16"))
    hard = (600 if tier == "quick" else 3600) * _load_factor()
    results = run_jobs(jobs, nproc, hard)

    known = load_known()
    baseline = load_baseline()
    violations = []      # confirmed
    known_hits = []
    undecided = []
    errors = []
    obligations = {}     # (cid,label) -> dict(count, status)
    tot_paths = 0
    vc = dict(z3=0, cvc5=0, trivial=0, queries=0, solver_s=0.0)
    samples = []
    per_contract = {}
    replay_jobs = []
    all_notes = []
    sampled_runs = 0
    for j, r in zip(jobs, results):
        cid = j["cid"]
        if verbose and not j.get("sample"):
            print("JOB %s %s paths=%d wall=%.1f budget=%s" % (cid, _short(j["params"]), r.get("paths", 0), r.get("wall", 0), r.get("budget_exhausted")))
        sampled_runs += r.get("sampled_runs", 0)
        for nt in r.get("notes") or []:
            if nt not in all_notes:
                all_notes.append(nt)
                print("NOTE %s: %s" % (cid, nt[:300]))
        pc = per_contract.setdefault(cid, dict(jobs=0, paths=0, wall=0.0, labels=set(), failed=set()))
        pc["jobs"] += 1
        pc["paths"] += r.get("paths", 0)
        pc["wall"] += r.get("wall", 0)
        tot_paths += r.get("paths", 0)
        for k in vc:
            vc[k] += (r.get("vc") or {}).get(k, 0)
        for lab, n in (r.get("obligations") or {}).items():
            if _other_prop(lab, prop):
                continue
            o = obligations.setdefault((cid, lab), dict(instances=0, status="discharged"))
            o["instances"] += n
            pc["labels"].add(lab)
        for s in (r.get("samples") or [])[:1]:
            if len(samples) < 6:
                samples.append(dict(contract=cid, params=_jsonable(j["params"]), **s))
        if r.get("error"):
            errors.append((cid, j["params"], r["error"]))
        if r.get("budget_exhausted") or r.get("hard_timeout"):
            undecided.append((cid, j["params"], "budget exhausted" + (" (hard timeout)" if r.get("hard_timeout") else "")))
        must = reg[cid].must_cover
        if must and not r.get("error") and not r.get("budget_exhausted"):
            pass
        for f in r.get("failures") or []:
            if _other_prop(f["label"], prop):
                continue
            obligations.setdefault((cid, f["label"]), dict(instances=0, status="discharged"))["status"] = "failed"
            pc["failed"].add(f["label"])
            replay_jobs.append((j, f))

    # vacuity: every contract must have produced obligations on at least one path
    for c in cts:
        pc = per_contract.get(c.cid)
        if c.mode == "U":
            continue   # a U-mode target that is not re-established is reported through notes; the verdict rests on the bounded contracts
        if (not pc or not pc["labels"]) and not any(e[0] == c.cid for e in errors) and not any(u[0] == c.cid for u in undecided):
            errors.append((c.cid, {}, "vacuous: no obligation generated"))
    # coverage markers
    cov_tot = {}
    for j, r in zip(jobs, results):
        for k, v in (r.get("covered") or {}).items():
            cov_tot[(j["cid"], k)] = cov_tot.get((j["cid"], k), 0) + v
    for c in cts:
        for m in c.must_cover:
            if cov_tot.get((c.cid, m), 0) == 0 and not any(e[0] == c.cid for e in errors) and not per_contract.get(c.cid, {}).get("failed"):
                errors.append((c.cid, {}, "vacuity: cover point %r never reached" % m))

    # native replay of every counter model (fresh processes, concrete mode)
    rj = [dict(cid=j["cid"], params=j["params"], tier=tier, seed=seed, prop=prop,
               concrete=dict(inputs=f["inputs"], choices=f["choices"], prelude_sample=f.get("prelude_sample"),
                             prelude_choices=f.get("prelude_choices")))
          for j, f in replay_jobs if f["kind"] in ("sat", "concrete")]
    rres = run_jobs(rj, nproc, 300) if rj else []
    # a counter-model that does not reproduce in a fresh process may need what an earlier run of the same harness left behind
    # in the process (module-level caches, class attributes): second attempt after a prelude run
    retry = [k for k, r in enumerate(rres) if not (r and r.get("failures")) and not (r and r.get("error"))]
    if retry:
        rj2 = [dict(rj[k], concrete=dict(rj[k]["concrete"], prelude=True)) for k in retry]
        for k, r in zip(retry, run_jobs(rj2, nproc, 300)):
            if r and r.get("failures"):
                r["after_prelude"] = True
                rres[k] = r
    ri = 0
    os.makedirs(os.path.join(ROOT, "replays", prop), exist_ok=True)
    for j, f in replay_jobs:
        cid = j["cid"]
        rr = None
        if f["kind"] in ("sat", "concrete"):
            rr = rres[ri]
            ri += 1
        confirmed = bool(rr and rr.get("failures"))
        rep = dict(property=prop, contract=cid, params=_jsonable(j["params"]), obligation=f["label"],
                   inputs=f["inputs"], choices=f["choices"], detail=f.get("detail"), solver=f["kind"],
                   model=f.get("model"), smt2=f.get("smt2"), tier=tier, seed=seed,
                   prelude_sample=f.get("prelude_sample"), prelude_choices=f.get("prelude_choices"),
                   native_replay=dict(confirmed=confirmed, needs_an_earlier_run_in_the_same_process=bool((rr or {}).get("after_prelude")),
                                      failures=(rr or {}).get("failures"), error=(rr or {}).get("error")),
                   targets=reg[cid].targets)
        safe = "%s.%s" % (cid, "".join(ch if ch.isalnum() or ch in "-_." else "_" for ch in f["label"]))[:150]
        path = os.path.join(ROOT, "replays", prop, safe + ".json")
        kf = next((k for k in known["findings"] if finding_matches(k, prop, cid, j["params"], f)), None)
        if confirmed:
            if kf is not None:
                known_hits.append((kf, f))
                continue
            json.dump(rep, open(path, "w"), indent=1, default=str)
            # a U-mode obligation has no concrete witness: the replay file names the obligation and carries the solver output
            violations.append((cid, f["label"], path, " no-failing-input-found" if reg[cid].mode == "U" else ""))
        elif f["kind"] == "unknown":
            was = baseline.get(prop, {}).get("%s::%s" % (cid, f["label"]))
            json.dump(rep, open(path, "w"), indent=1, default=str)
            if was == "discharged":
                violations.append((cid, f["label"], path, " no-failing-input-found"))
            else:
                undecided.append((cid, j["params"], "solver unknown on %s" % f["label"]))
        else:
            json.dump(rep, open(path, "w"), indent=1, default=str)
            if rr and rr.get("error"):
                errors.append((cid, j["params"], "replay error: " + str(rr.get("error"))))
            else:
                errors.append((cid, j["params"], "UNCONFIRMED-CEX %s (model does not reproduce natively) %s" % (f["label"], path)))

    n_obl = len(obligations)
    n_dis = sum(1 for o in obligations.values() if o["status"] == "discharged")
    wall = time.time() - t_start

    # ---------------- output
    seen = set()
    for kf, f in known_hits:
        key = kf.get("id") or kf.get("what")
        if key in seen:
            continue
        seen.add(key)
        print("KNOWN-FINDING: property=%s %s" % (prop, kf.get("what")))
    vio_seen = set()
    for cid, lab, path, suffix in violations:
        if (cid, lab) in vio_seen:
            continue
        vio_seen.add((cid, lab))
        print("VIOLATION property=%s replay=%s%s" % (prop, path, suffix))
        print("  failed obligation: %s :: %s" % (cid, lab))
    for cid, p, msg in undecided:
        print("UNDECIDED %s %s: %s" % (cid, _short(p), msg))
    for cid, p, msg in errors:
        print("CHECKER-ERROR %s %s: %s" % (cid, _short(p), msg.strip().splitlines()[0] if msg else msg))
        if verbose:
            print(msg)

    write_evidence(prop, tier, seed, cts, per_contract, obligations, n_obl, n_dis, tot_paths, vc, samples,
                   wall, len(vio_seen), known_hits, undecided, errors, jobs, sampled_runs, all_notes, cov_tot)

    if record_baseline and not violations and not errors and not undecided:
        baseline[prop] = {"%s::%s" % k: v["status"] for k, v in sorted(obligations.items())}
        json.dump(baseline, open(os.path.join(ROOT, "baseline_obligations.json"), "w"), indent=0, sort_keys=True)

    print("%s %s: contracts=%d jobs=%d paths=%d sampled=%d obligations=%d discharged=%d violations=%d undecided=%d errors=%d wall=%.1fs"
          % (prop, tier, len(cts), len(jobs), tot_paths, sampled_runs, n_obl, n_dis, len(vio_seen), len(undecided), len(errors), wall))
    if violations:
        return 1
    if errors:
        return 3
    if undecided:
        return 2
    return 0


_TAG = __import__("re").compile(r"\.(C\d\d\d?)\.")


def _other_prop(label, prop):
    """an obligation label may carry the property it decides (``algo.C04.xxx``);
    when checking another property that obligation is not this check's business"""
    m = _TAG.search(label)
    return bool(m and m.group(1) != prop)


def _short(p):
    s = json.dumps(_jsonable(p), default=str)
    return s if len(s) < 100 else s[:100] + "..."


def _jsonable(p):
    try:
        json.dumps(p)
        return p
    except TypeError:
        return {k: (v if isinstance(v, (int, float, str, bool, type(None), list, dict)) else repr(v)) for k, v in p.items()}


def write_evidence(prop, tier, seed, cts, per_contract, obligations, n_obl, n_dis, tot_paths, vc, samples,
                   wall, n_viol, known_hits, undecided, errors, jobs, sampled_runs=0, notes=(), cover=None):
    lv = LEVELS.get(prop, {})
    level = lv.get("level", "other")
    modes = sorted({c.mode for c in cts})
    partial_shapes, seen_ps = [], set()
    for j in jobs:
        pp = j["params"]
        if pp.get("sample_only") or pp.get("search_paths"):
            key = (j["cid"], json.dumps(_jsonable({k: v for k, v in pp.items() if not k.startswith("_")}), sort_keys=True, default=str))
            if key not in seen_ps:
                seen_ps.add(key)
                partial_shapes.append(dict(contract=j["cid"], params=json.loads(key[1]),
                                           how="sampled native runs only" if pp.get("sample_only") else "bounded search of the first %s paths" % pp.get("search_paths")))
    u_obl = [k for k in obligations if C.REGISTRY[k[0]].mode == "U"]
    funcs = []
    for c in cts:
        for t in c.targets:
            funcs.append(dict(function=t, sha256_16=C.source_hash(t), contract=c.cid, mode=c.mode))
    trusted = sorted({t for c in cts for t in c.trusted} | {
        "CPython executes the real code between proxy operations",
        "pvc.sym / pvc.models encode int/float arithmetic as exact real arithmetic (no rounding, overflow, NaN)",
        "z3 %s (cvc5 second opinion) sound; unknown never read as unsat" % _z3v()})
    assumptions = sorted({a for c in cts for a in c.assumptions} | set(lv.get("assumptions", [])))
    obl_list = [dict(contract=k[0], obligation=k[1], mode=C.REGISTRY[k[0]].mode, instances=v["instances"], status=v["status"])
                for k, v in sorted(obligations.items())]
    distinct = sum(pc["paths"] for pc in per_contract.values())
    ev = dict(
        property_id=prop, tier=tier, seed=seed, level=level,
        coverage=dict(
            obligations=n_obl, discharged=n_dis,
            checker_cmd="./check %s --tier %s" % (prop, tier),
            trusted_base=trusted,
            evaluations=max(tot_paths, 1),
            distinct_nontrivial=distinct,
            rule="one evaluation = one feasible symbolic path (B/U mode: a set of inputs described by a path condition, all numeric leaves universally quantified) or one enumerated case (E mode) of a contract harness on the real code; paths are distinct by construction (different decision vectors); non-trivial = reached at least one obligation",
            samples=samples or [dict(note="no path completed")],
            explanation=lv.get("explanation", "") + " modes used: %s (U = unbounded VCs, proved; B = bounded-shape symbolic, bounded; E = enumerated, bounded). U-mode obligations: %d of %d." % (",".join(modes), len(u_obl), n_obl),
            # true only when every shape's finite path space was enumerated completely: sample-only shapes and bounded
            # searches (search_paths) are listed under partial_shapes and make the run non-exhaustive
            exhaustive=not undecided and not errors and not partial_shapes,
            partial_shapes=partial_shapes,
            functions_under_contract=funcs,
            obligation_list=obl_list if len(obl_list) <= 400 else obl_list[:400],
            proved_unbounded=[dict(contract=k[0], obligation=k[1]) for k in sorted(u_obl) if obligations[k]["status"] == "discharged"],
            bounded_count=n_obl - len(u_obl),
            sampled_native_runs=sampled_runs,
            notes=list(notes),
            cover_points={"%s :: %s" % k: v for k, v in sorted(cover.items())} if cover else {},
            shapes=[dict(contract=j["cid"], params=_jsonable({k: v for k, v in j["params"].items() if not k.startswith("_")})) for j in jobs if not j.get("sample")][:200],
            backends=dict(z3=vc["z3"], cvc5=vc["cvc5"], trivially_true=vc["trivial"], solver_seconds=round(vc["solver_s"], 3)),
            per_contract={cid: dict(jobs=pc["jobs"], paths=pc["paths"], wall_s=round(pc["wall"], 2), obligations=len(pc["labels"])) for cid, pc in per_contract.items()},
            known_findings_printed=[kf.get("what") for kf, _ in known_hits],
            undecided=[dict(contract=c, params=_jsonable(p), why=m) for c, p, m in undecided],
            checker_errors=[dict(contract=c, why=(m or "").splitlines()[0] if m else m) for c, p, m in errors],
        ),
        assumptions=assumptions,
        wall_s=round(wall, 2),
        violations=n_viol,
    )
    # a run pointed at another checkout (PVC_REPO: seeded changes, experiments) does not overwrite the evidence of /repo
    edir = os.path.join(ROOT, "evidence", "_other_checkout") if os.environ.get("PVC_REPO") else os.path.join(ROOT, "evidence")
    os.makedirs(edir, exist_ok=True)
    path = os.path.join(edir, prop + ".json")
    try:
        import jsonschema
        schema = json.load(open("/root/.vp/EVIDENCE.schema.json"))
        jsonschema.validate(json.loads(json.dumps(ev, default=str)), schema)
    except FileNotFoundError:
        pass
    except Exception as e:  # noqa
        print("EVIDENCE-SCHEMA-ERROR", str(e).splitlines()[0])
    json.dump(ev, open(path, "w"), indent=1, default=str)


def _z3v():
    try:
        import z3
        return z3.get_version_string()
    except Exception:  # noqa
        return "?"


def replay_file(path):
    rep = json.load(open(path))
    j = dict(cid=rep["contract"], params=rep["params"], tier=rep.get("tier", "quick"), seed=rep.get("seed", 0), prop=rep.get("property"),
             concrete=dict(inputs=rep["inputs"], choices=rep["choices"], prelude_sample=rep.get("prelude_sample"), prelude_choices=rep.get("prelude_choices"),
                           prelude=bool((rep.get("native_replay") or {}).get("needs_an_earlier_run_in_the_same_process"))))
    r = run_jobs([j], 1, 600)[0]
    print(json.dumps(dict(obligation=rep["obligation"], reproduced=bool(r.get("failures")), failures=r.get("failures"), error=r.get("error")), indent=1, default=str))
    return 1 if r.get("failures") else 0


def main(argv=None):
    import argparse
    ap = argparse.ArgumentParser()
    ap.add_argument("what")
    ap.add_argument("rest", nargs="*")
    ap.add_argument("--tier", default=os.environ.get("VERIF_TIER", "quick"))
    ap.add_argument("--only", default=None)
    ap.add_argument("-v", "--verbose", action="store_true")
    ap.add_argument("--record-baseline", action="store_true")
    a = ap.parse_args(argv)
    seed = int(os.environ.get("VERIF_SEED", "0") or 0)
    if a.what == "replay":
        return replay_file(a.rest[0])
    if a.what == "list":
        reg = C.load_all()
        for c in reg.values():
            print(c.cid, c.mode, c.serves, c.targets)
        return 0
    only = a.only.split(",") if a.only else None
    return check_property(a.what, a.tier, seed, only, a.verbose, a.record_baseline)


if __name__ == "__main__":
    sys.exit(main())
